// C04 (start(promise) against another thread that uses the same promise, interleaved at atomic-instruction granularity).
// Thread A calls coro.start(p); the complete operation of thread B on the same promise object - set a value, set an exception, drop, claim into a
// local promise that is resolved later - is injected in front of the k-th atomic instruction A executes (vf_ainject_arm), k = 1..K, or happens
// after start() returned. Whoever claims the promise owns the outcome:
//   start() reports true  <=> the body ran (exactly once) and the future bound to the promise carries the coroutine's result, B's operation found the promise claimed;
//   start() reports false <=> the body never ran, the coroutine stays unstarted (it can still be started or destroyed; its argument is destroyed exactly once),
//                             the future carries what B delivered.
#include "vf_cocls.h"
#include <cocls/async.h>
#include <cocls/future.h>
using namespace cocls;

namespace {
struct Ctx {
    int runs = 0, done = 0;
    vf_probe_counts pc_arg, pc_local;
    promise<int> *p; int bkind, bval, bwon; std::exception_ptr *exc;
    promise<int> stolen;
};
Ctx *cx;

async<int> body(Ctx *c, vf_probe arg, int v, bool throws) {
    c->runs++;
    vf_probe local(c->pc_local, v);
    int r = local.v + arg.v;
    if (throws) { c->done++; throw vf_tag_exc{r}; }
    c->done++;
    co_return r;
}
void thread_b() {
    Ctx &c = *cx;
    switch (c.bkind) {
    case 0: c.bwon = (*c.p)(c.bval); break;
    case 1: c.bwon = (*c.p)(*c.exc); break;
    case 2: c.bwon = (*c.p)(drop); break;
    default: c.stolen = std::move(*c.p); c.bwon = !!c.stolen; break;      // moved away (claimed), resolved later by the new owner
    }
}
}

extern "C" void h_start_mt() {
    vf_warmup();
    const int bkind = vf_choice(4);
    const int throws = vf_choice(2);
    const int after = vf_choice(2);      // what happens to a coroutine that was not started: 0 destroyed, 1 started with start()
    const int k = 1 + vf_choice(10);
    const int v = nondet_int() & 0xffff, bv = nondet_int() & 0xffff;
    const int tag = nondet_uchar();
    std::exception_ptr exc = vf_make_exc(tag);
    long base = vf_live_allocs();
    {
        Ctx c; cx = &c;
        c.bkind = bkind; c.bval = bv; c.bwon = 0; c.exc = &exc;
        future<int> f;
        promise<int> p = f.get_promise();
        c.p = &p;
        {
            async<int> co = body(&c, vf_probe(c.pc_arg, 1), v, throws);
            VF_ASSERT(c.runs == 0, "C04 the body does not run before the coroutine is started");
            vf_ainject_arm(&thread_b, k);
            bool started = co.start(p);
            if (vf_ainject_pending()) { vf_ainject_disarm(); thread_b(); }
            VF_ASSERT(started != (c.bwon != 0), "C04 exactly one party claims the promise: start(promise) reports true exactly if the other thread found it claimed");
            if (started) {
                VF_ASSERT(c.runs == 1 && c.done == 1, "C04 the body of a started coroutine runs exactly once");
                VF_ASSERT(f.ready(), "C04 the bound future is resolved when the coroutine has finished");
                if (throws) VF_ASSERT(vf_exc_tag([&] { f.value(); }) == v + 1, "C04 the exception thrown by the body reaches the bound future");
                else VF_ASSERT(f.value() == v + 1, "C04 the value returned by the body reaches the bound future");
            } else {
                VF_ASSERT(c.runs == 0, "C04 start(promise) on an already claimed promise leaves the coroutine unstarted");
                if (bkind == 3) { VF_ASSERT(f.pending(), "C04 a promise claimed by another party is not resolved by start()"); c.stolen(bv); }
                VF_ASSERT(f.ready(), "VF_SPEC the other thread resolved the future");
                if (bkind == 0 || bkind == 3) VF_ASSERT(f.value() == bv, "C04 the future carries the value of the party that claimed the promise");
                else if (bkind == 1) VF_ASSERT(vf_exc_tag([&] { f.value(); }) == tag, "C04 the future carries the exception of the party that claimed the promise");
                else VF_ASSERT(!f.has_value(), "C04 the future carries the drop of the party that claimed the promise");
                VF_ASSERT(c.pc_arg.constructed - c.pc_arg.destroyed == 1, "C04 the argument of an unstarted coroutine stays alive until the coroutine object goes away");
                if (after == 1) {
                    future<int> g = co.start();
                    VF_ASSERT(c.runs == 1 && c.done == 1, "C04 the body of a started coroutine runs exactly once");
                    if (throws) VF_ASSERT(vf_exc_tag([&] { g.value(); }) == v + 1, "C04 the exception thrown by the body reaches the bound future");
                    else VF_ASSERT(g.value() == v + 1, "C04 the value returned by the body reaches the bound future");
                }
            }
        }
        VF_ASSERT(c.runs <= 1, "C04 the body runs at most once");
        VF_ASSERT(c.pc_arg.constructed == c.pc_arg.destroyed && c.pc_local.constructed == c.pc_local.destroyed, "C04 arguments and locals are destroyed exactly once");
        vf_out(c.runs); vf_out(c.bwon);
    }
    VF_ASSERT(vf_live_allocs() == base, "C04 the frame is released exactly once (allocation balance)");
    vf_choice_end();
    vf_witness();
}

// ---- co_await of an async coroutine against the thread that completes it.
// A parent coroutine awaits a child (co_await child(...)); the child suspends on a future whose promise another thread resolves. The complete resolve
// operation of that thread is injected in front of the k-th atomic instruction executed from the start of the parent (vf_ainject_arm), k = 1..K - in
// particular inside the co_await protocol of async<T> (await_ready / await_suspend wiring the caller as the child's only awaiter) - or happens afterwards.
// Oracle: the child's body runs once, its value or exception reaches exactly the awaiting parent, the parent continues exactly once, every argument and
// local of both frames is destroyed exactly once, allocation balance.
namespace {
struct ACtx {
    int child_runs = 0, child_done = 0, parent_runs = 0, parent_done = 0;
    int obs_kind = 0, obs = 0;
    vf_probe_counts pc_arg, pc_local, pc_parent;
    future<int> gate; promise<int> gate_p; int gval = 0; int resolved = 0;
};
ACtx *acx;
async<int> achild(ACtx *c, vf_probe arg, int v, bool throws) {
    c->child_runs++;
    vf_probe local(c->pc_local, v);
    int r = arg.v + local.v + co_await c->gate;
    c->child_done++;
    if (throws) throw vf_tag_exc{r};
    co_return r;
}
async<void> aparent(ACtx *c, int v, bool throws) {
    c->parent_runs++;
    vf_probe mine(c->pc_parent, 1);
    try { c->obs = co_await achild(c, vf_probe(c->pc_arg, 1), v, throws); c->obs_kind = 1; }
    catch (const vf_tag_exc &e) { c->obs = e.tag; c->obs_kind = 2; }
    c->parent_done++;
}
void thread_resolves() { vf_other_thread other; ACtx &c = *acx; c.resolved = 1; (void)c.gate_p(c.gval); }     // (normal mode there: the child runs on that thread at once)
}

extern "C" void h_await_mt() {
    vf_warmup();
    const int throws = vf_choice(2);
    const int k = 1 + vf_choice(8);
    const int v = nondet_int() & 0xffff, g = nondet_int() & 0xffff;
    long base = vf_live_allocs();
    {
        ACtx c; acx = &c;
        c.gval = g;
        c.gate_p = c.gate.get_promise();
        vf_ainject_arm(&thread_resolves, k);
        aparent(&c, v, throws).detach();
        if (vf_ainject_pending()) { vf_ainject_disarm(); thread_resolves(); }
        vf_out(vf_ainject_events());
        VF_ASSERT(c.child_runs == 1 && c.child_done == 1, "C04 the body of a started coroutine runs exactly once");
        VF_ASSERT(c.parent_done == 1, "C04 the awaiting coroutine continues exactly once when the awaited coroutine has finished (its result reaches the party it was bound to)");
        VF_ASSERT(c.obs_kind == (throws ? 2 : 1) && c.obs == 1 + v + g, "C04 the value or exception of the awaited coroutine reaches exactly the awaiting coroutine");
        VF_ASSERT(c.pc_arg.constructed == c.pc_arg.destroyed && c.pc_local.constructed == c.pc_local.destroyed && c.pc_parent.constructed == c.pc_parent.destroyed,
                  "C04 arguments and locals are destroyed exactly once");
        vf_out(c.obs & 0xffff);
    }
    VF_ASSERT(vf_live_allocs() == base, "C04 the frames are released exactly once (allocation balance)");
    vf_choice_end();
    vf_witness();
}
