// C08 (sequential half) - coroutine mutex: FIFO hand-off for every arrival order of N waiters and every release style.
// Skeleton: N (1..4) waiters, for the initial owner and for each waiter a release style:
//   0 ownership destructor | 1 release() discarded | 2 co_await release() | 3 release() suspend point kept and cleared later | 4 try_lock probe while held, then destructor
// plus the context the initial owner releases from (0 normal code, 1 inside a coroutine).
#include "vf_cocls.h"
#include <cocls/mutex.h>
#include <cocls/future.h>
#include <cocls/async.h>
using namespace cocls;

namespace {
constexpr int MAXW = 4;
int grant_order[8];
int grants;
int inside;            // parties inside the critical section
int finished;

async<void> waiter(mutex &m, int id, int style) {
    auto own = co_await m.lock();
    VF_ASSERT(inside == 0, "C08 lock granted while another party still owns the mutex");
    inside++;
    grant_order[grants++] = id;
    if (style == 4) {
        auto t = m.try_lock();
        VF_ASSERT(!t, "C08 try_lock succeeded while the mutex is owned");
    }
    inside--;
    if (style == 1) { own.release(); }
    else if (style == 2) { co_await own.release(); }
    else if (style == 3) { auto sp = own.release(); sp.clear(); }
    finished++;
}

async<void> owner_coro(mutex &m, mutex::ownership &own, int style) {
    if (style == 1) { own.release(); }
    else if (style == 2) { co_await own.release(); }
    else if (style == 3) { auto sp = own.release(); sp.clear(); }
    else { mutex::ownership tmp(std::move(own)); }
    co_return;
}
}

extern "C" void h_fifo() {
    vf_warmup();
    const int n = 1 + vf_choice(MAXW);
    const int ctx = vf_choice(2);
    int style[MAXW + 1];
    for (int i = 0; i <= n; i++) style[i] = vf_choice(5);
    grants = 0; inside = 0; finished = 0;
    long base = vf_live_allocs();
    {
        mutex m;
        {
            mutex::ownership own = m.try_lock();
            VF_ASSERT(!!own, "C08 try_lock on a free mutex failed");
            inside = 1;
            for (int i = 1; i <= n; i++) {
                waiter(m, i, style[i]).detach();          // runs until it suspends in co_await m.lock()
                VF_ASSERT(grants == 0, "C08 a waiter was granted the lock while the owner still holds it");
            }
            if (style[0] == 4) { auto t = m.try_lock(); VF_ASSERT(!t, "C08 try_lock succeeded while the mutex is owned"); }
            inside = 0;
            if (ctx == 0) {
                if (style[0] == 1) own.release();
                else if (style[0] == 2 || style[0] == 3) { auto sp = own.release(); sp.clear(); }
                else { mutex::ownership tmp(std::move(own)); }
            } else {
                owner_coro(m, own, style[0]).detach();
            }
        }
        VF_ASSERT(grants == n, "C08 a lock request was never granted although every owner released (lost request)");
        VF_ASSERT(finished == n, "C08 a waiting coroutine did not run to completion");
        for (int i = 0; i < n; i++) {
            VF_ASSERT(grant_order[i] == i + 1, "C08 ownership was not handed to the longest-waiting requester (FIFO)");
            vf_out(grant_order[i]);
        }
        auto again = m.try_lock();
        VF_ASSERT(!!again, "C08 mutex cannot be locked again after every ownership was released");
    }
    VF_ASSERT(vf_live_allocs() == base, "C08 coroutine frames of the waiters were not all released");
    vf_choice_end();
    vf_witness();
}

// ---- late arrivals: requests that arrive while an earlier waiter already owns the mutex (and older waiters are still queued).
// Skeleton: n (2..3) initial waiters queued behind the owner; the owner releases (style[0]); waiter `holder` (1..n), once granted, keeps the mutex across a
// suspension; while it does, `nlate` (1..2) further requests arrive; then the holder continues and releases with its style. Every grant must go to the
// requester that has been waiting longest (arrival order is the order in which the requests reached co_await m.lock()).
namespace {
constexpr int MAXL = 7;
int arrival[MAXL + 1], arrivals, waiting[MAXL + 1];
future<void> *gate; int holder_id, holder_in;          // (globals with constructors are avoided: objects live in the harness function)

async<void> waiter2(mutex &m, int id, int style) {
    arrival[id] = ++arrivals; waiting[id] = 1;
    auto own = co_await m.lock();
    VF_ASSERT(inside == 0, "C08 lock granted while another party still owns the mutex");
    for (int j = 1; j <= MAXL; j++)
        if (j != id && waiting[j]) VF_ASSERT(arrival[j] > arrival[id], "C08 ownership was not handed to the longest-waiting requester (FIFO)");
    waiting[id] = 0;
    inside++;
    grant_order[grants++] = id;
    if (id == holder_id) { holder_in = 1; co_await *gate; }      // keeps the mutex while further requests arrive
    inside--;
    if (style == 1) { own.release(); }
    else if (style == 2) { co_await own.release(); }
    else if (style == 3) { auto sp = own.release(); sp.clear(); }
    finished++;
}
}

extern "C" void h_fifo_late() {
    vf_warmup();
    const int n = 2 + vf_choice(2);
    int style[5];
    for (int i = 0; i <= n; i++) style[i] = vf_choice(4);
    holder_id = 1 + vf_choice(n);
    const int nlate = 1 + vf_choice(2);
    const int lstyle = vf_choice(4);
    grants = 0; inside = 0; finished = 0; arrivals = 0; holder_in = 0;
    for (int j = 0; j <= MAXL; j++) { waiting[j] = 0; arrival[j] = 0; }
    long base = vf_live_allocs();
    {
        mutex m;
        future<void> gate_f; gate = &gate_f;
        promise<void> gate_p = gate_f.get_promise();
        {
            mutex::ownership own = m.try_lock();
            VF_ASSERT(!!own, "C08 try_lock on a free mutex failed");
            inside = 1;
            for (int i = 1; i <= n; i++) waiter2(m, i, style[i]).detach();
            VF_ASSERT(grants == 0, "C08 a waiter was granted the lock while the owner still holds it");
            inside = 0;
            if (style[0] == 1) own.release();
            else if (style[0] == 2 || style[0] == 3) { auto sp = own.release(); sp.clear(); }
            else { mutex::ownership tmp(std::move(own)); }
        }
        // waiters 1..holder-1 have come and gone, the holder owns the mutex and is suspended, the rest is still queued
        VF_ASSERT(holder_in == 1 && grants == holder_id, "C08 the waiters before the holder were granted the lock one after the other");
        for (int l = 1; l <= nlate; l++) waiter2(m, n + l, lstyle).detach();
        VF_ASSERT(grants == holder_id, "C08 a late request was granted the lock while it is owned");
        gate_p();
        VF_ASSERT(grants == n + nlate, "C08 a lock request was never granted although every owner released (lost request)");
        VF_ASSERT(finished == n + nlate, "C08 a waiting coroutine did not run to completion");
        for (int i = 0; i < n + nlate; i++) { VF_ASSERT(grant_order[i] == i + 1, "C08 ownership was not handed to the longest-waiting requester (FIFO)"); vf_out(grant_order[i]); }
        auto again = m.try_lock();
        VF_ASSERT(!!again, "C08 mutex cannot be locked again after every ownership was released");
    }
    VF_ASSERT(vf_live_allocs() == base, "C08 coroutine frames of the waiters were not all released");
    vf_choice_end();
    vf_witness();
}
