# C08: FIFO hand-off and no lost request. The scenarios are those of C07 (whose vf_check also asserts that the mutex can be locked again
# and that nobody stays blocked) plus the first-come-first-served scenarios in which the order of two requests is fixed by a hand-shake.
import C07
import itertools


def fifo_seq_vectors(tier):
    out = []
    maxn = 3 if tier == 'quick' else 4
    for n in range(1, maxn + 1):
        for ctx in (0, 1):
            for st in itertools.product(range(5), repeat=n + 1):
                if tier == 'quick' and n == 3 and (sum(st) + ctx) % 6 != 0: continue     # every sixth style combination at n=3
                out.append([n - 1, ctx] + list(st))
    return out


def plan(tier):
    units = [dict(engine='e1', name='fifo_seq', tu='C08.cpp', entry='h_fifo', unwind=8, vectors=fifo_seq_vectors(tier),
                  concrete=[([1, 0, 0, 1, 2], []), ([2, 1, 2, 0, 3, 4], []), ([0, 0, 4, 4], []), ([3, 0, 1, 2, 3, 0, 1], [])],
                  space='N waiting coroutines (arrival order = creation order) x release style of the initial owner and of every waiter '
                        '{ownership destructor, release() discarded, co_await release(), release()+clear(), try_lock probe} x release from normal code / from inside a coroutine' + ('; quick tier: N <= 2 full product, N = 3 every sixth style combination' if tier == 'quick' else '; full product'),
                  data='none (the quantifier is the history)', bounds='N <= %d waiters' % (3 if tier == 'quick' else 4),
                  outside='releases from other threads / through a thread pool (E2 scenarios and C11)')]
    lv = []
    for n in (0, 1):
        for st in itertools.product(range(4), repeat=n + 3):
            for holder in range(n + 2):
                for nlate in (0, 1):
                    for ls in range(4):
                        if tier == 'quick' and (sum(st) + holder + nlate + ls) % (8 if n == 0 else 32) != 0: continue
                        lv.append([n] + list(st) + [holder, nlate, ls])
    units.append(dict(engine='e1', name='fifo_late', tu='C08.cpp', entry='h_fifo_late', unwind=10, vectors=lv,
                      concrete=[([0, 1, 1, 1, 0, 0, 1], []), ([1, 0, 1, 2, 3, 1, 1, 2], []), ([0, 3, 2, 1, 1, 1, 0], [])],
                      space='late arrivals: N = 2..3 coroutines queued behind the owner, the owner releases, waiter h (1..N) keeps the mutex across a suspension while 1..2 further requests arrive, then '
                            'everybody releases with its style {ownership destructor, release() discarded, co_await release(), release()+clear()}: every grant goes to the longest-waiting requester' +
                            ('; every 8th (N=2) / 32nd (N=3) combination of the styles' if tier == 'quick' else '; full product'),
                      data='none (the quantifier is the history)', bounds='N <= 3 initial waiters, <= 2 late requests',
                      outside='releases from other threads (E2 scenarios)'))
    units += [dict(engine='e2', name='mutex_fifo', tu='C07.cpp', mode='sc', scenarios=C07.fifo_scenarios(tier), opts={'loop_bound': 4, 'rec_bound': 3}, timeout_s=900 if tier == 'quick' else 2400,
                  space='owner + two requesters whose arrival order is fixed by a hand-shake (request 2 is published before request 3 starts); the owner releases at any time; '
                        'oracle: grant order = arrival order, every request granted, mutex lockable again, nobody blocked forever',
                  bounds='3 threads, one round each; CAS retries / queue walks <= 4 iterations, resume recursion <= 3 (bound-exceeded events are queried); SC interleavings',
                  outside='more than two queued waiters under real concurrency (sequential arrival orders of up to 4 waiters are checked by unit fifo_seq); weak-memory executions')]
    if tier == 'quick':
        units = [x for x in units if x['name'] != 'mutex_fifo']          # the 3-thread first-come-first-served scenarios need many minutes of solver time each: thorough tier
    # lost request under three contenders: the owner releases and comes straight back as a requester while two more requests arrive
    units.append(dict(engine='e2', name='mutex_lost3', tu='C08lost.cpp', mode='sc', scenarios=[dict(name='lost3', nthreads=3, defines=[])], opts={'loop_bound': 5, 'rec_bound': 2},
                      timeout_s=1500 if tier == 'quick' else 3000,
                      space='the owner releases and immediately requests again while two further threads request (awaiter protocol, nobody releases afterwards): three requests can pile up between the '
                            'two CAS operations of one subscribe(); at the end exactly one party owns the mutex and every other request is still registered on the request stack or in the FIFO queue',
                      bounds='3 threads; CAS retries / queue walks <= 4; SC interleavings', outside='4 or more threads; what later releases do with the queue (C07 / fifo scenarios)'))
    u = C07.plan(tier)[0]
    u = dict(u); u['name'] = 'mutex_sc'
    units.append(u)
    return units
