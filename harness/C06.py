import itertools

# ---- (1) one step from an arbitrary valid representation state --------------------------------------------
# state = (rep, count): rep 0 = inline (capacity 3), rep k = heap block of 3<<k slots (6, 12, 24, 48); 0 <= count <= capacity
CAPS = [3, 6, 12, 24, 48]
OPS1 = ['<< handle', 'move-construct', 'pop', 'clear', 'destructor', 'await_suspend (normal mode)',
        'clear (coroutine mode)', 'destructor (coroutine mode)', 'await_suspend (coroutine mode)', 'typed suspend_point<int> construct+move']
AWAIT_OPS = (5, 8)


def all_states():
    return [(rep, n) for rep, c in enumerate(CAPS) for n in range(c + 1)]


def boundary_states():
    """every inline state; per heap capacity c: empty, just above the previous capacity, one below full, full"""
    out = []
    for rep, c in enumerate(CAPS):
        if rep == 0:
            out += [(0, n) for n in range(4)]
        else:
            out += [(rep, n) for n in sorted({0, c // 2 + 1, c - 1, c})]
    return out


def few_states():
    return [(0, 0), (0, 2), (0, 3), (1, 0), (1, 4), (1, 6), (2, 7), (2, 12), (3, 13), (3, 24), (4, 25), (4, 47)]


def step1_vectors(states, reduced=(), reduced_ops=()):
    v = []
    for op in range(len(OPS1)):
        for rep, n in (reduced if op in reduced_ops else states):
            if op in AWAIT_OPS and n == 0:
                continue        # co_await calls await_suspend only when await_ready() is false, i.e. count >= 1
            v.append([op, rep, n])
    return v


def step2_vectors(pairs, ops=(0,)):
    return [[op, ra, na, rb, nb] for op in ops for (ra, na), (rb, nb) in pairs if na + nb <= 48]


# ---- (2) bounded histories from empty ----------------------------------------------------------------------
HOPS = ['add1 A', 'add4 A', 'add1 B', 'add4 B', 'A << B', 'B = A', 'C(move A)', 'pop A', 'clear A']


def hist_vectors(maxlen, modes=(0, 1), minlen=0):
    v = []
    for cm in modes:
        for n in range(minlen, maxlen + 1):
            for h in itertools.product(range(len(HOPS)), repeat=n):
                v.append([cm, n] + list(h))
    return v


def interesting(v):
    """starts with an add (else the first operation acts on empty objects = a shorter history), enters the heap path, and merges/moves/consumes"""
    h = v[2:]
    return h[0] <= 3 and any(x in (1, 3) for x in h) and any(x >= 4 for x in h)


def plan(tier):
    quick = tier == 'quick'
    units = []
    st1 = boundary_states() if quick else all_states()
    # quick: clear / clear (coroutine mode) run the same suspend_now() as the destructor ops, typed construct+move the same move
    # constructor as move-construct: they get the 12 'few' states instead of the 24 boundary states
    v1 = step1_vectors(st1, few_states(), (3, 6, 9)) if quick else step1_vectors(st1)
    # growth 48 -> 96 makes a 96-slot array: above cbmc's default field-sensitivity limit (64), so this vector gets its own unit and flag
    grow96 = [0, 4, 48]
    v1 = [v for v in v1 if v != grow96]
    units.append(dict(
        engine='e1', name='step1_grow96', tu='C06.cpp', entry='h_step1', unwind=130, vectors=[grow96], concrete=[],
        cbmc_extra=('--max-field-sensitivity-array-size', '128'),
        space='<< handle from the full heap state (capacity 48, count 48): doubling to 96', data='-', bounds='-', outside='-'))
    units.append(dict(
        engine='e1', name='step1', tu='C06.cpp', entry='h_step1', unwind=130, vectors=v1,
        concrete=[([0, 0, 3], []), ([0, 1, 6], []), ([4, 2, 7], []), ([8, 1, 5], []), ([2, 3, 13], []), ([5, 0, 2], []), ([9, 4, 30], [77]), ([7, 2, 12], [])],
        space='one operation of %s x state (representation, count) in %s; await_suspend only from count >= 1' % (OPS1, 'the %d boundary states %s' % (len(st1), st1) if quick else 'all %d valid states: inline 0..3, heap capacity c in {6,12,24,48} x count 0..c' % len(st1)),
        data='typed value: unconstrained int; unused slots of the block hold decoy handles that must never be resumed',
        bounds='count <= 48, capacity in {3 (inline), 6, 12, 24, 48}; the count is a skeleton input (a symbolic count+flag word defeats constant folding: > 200 s/query measured)',
        outside='counts/capacities above 48 (48 -> 96 is the same doubling path as 24 -> 48); awaiting coroutine that is itself in the list; pre-filled ready queue (C05)'))
    if quick:
        sa = [(0, 0), (0, 2), (0, 3), (1, 0), (1, 5), (1, 6), (2, 0), (2, 12), (3, 13), (4, 25)]          # incl. heap representation with zero handles (popped empty)
        pairs = list(itertools.product(sa, few_states()))
        v2 = step2_vectors(pairs, (0,)) + step2_vectors([((0, 2), (0, 3)), ((0, 1), (1, 5)), ((1, 6), (2, 7)), ((2, 12), (0, 0)), ((3, 20), (3, 24))], (1,))
        sp2 = 'a << std::move(b) for a in %s x b in %s with a.count + b.count <= 48; a = std::move(b) for 5 pairs' % (sa, few_states())
    else:
        bs, al = few_states(), all_states()
        pairs = sorted(set(itertools.product(bs, al)) | set(itertools.product(al, bs)))
        v2 = step2_vectors(pairs, (0,)) + step2_vectors(list(itertools.product(bs, bs)), (1,))
        sp2 = ('a << std::move(b) for (a, b) in (F x ALL) u (ALL x F), a = std::move(b) for F x F; F = %s, ALL = all %d states; a.count + b.count <= 48'
               % (bs, len(al)))
    units.append(dict(
        engine='e1', name='step2', tu='C06.cpp', entry='h_step2', unwind=220, vectors=v2,
        concrete=[([0, 0, 3, 0, 3], []), ([0, 1, 5, 1, 6], []), ([1, 3, 24, 3, 24], []), ([0, 4, 40, 3, 8], []), ([1, 0, 0, 4, 48], [])],
        space=sp2, data='none (handles are distinct fake frames; decoys in unused slots)',
        bounds='a.count + b.count <= 48; capacities as in step1', outside='self-merge (a << std::move(a)); totals above 48'))
    units.append(dict(
        engine='e1', name='typed', tu='C06.cpp', entry='h_typed', unwind=10, vectors=[[]], concrete=[([], [5, 6]), ([], [-1, 0])],
        space='suspend_point<int>(v), suspend_point<int>(h, v), suspend_point<void>(h)', data='v: unconstrained ints', bounds='-', outside='-'))
    ks, k0s = ((0, 1, 3, 4, 5), (0, 2)) if quick else (range(9), (0, 1, 2))
    vc = [[cm, k, k0, typed] for cm in (0, 1) for k in ks for k0 in (k0s if cm else (0,)) for typed in (0, 1)]
    units.append(dict(
        engine='e1', name='create', tu='C06.cpp', entry='h_create', unwind=40, vectors=vc,
        concrete=[([0, 3, 0, 1], [9]), ([1, 5, 2, 1], [4]), ([1, 8, 1, 0], [0]), ([0, 0, 0, 0], [0])],
        space='coro_queue::create_suspend_point(fn) from {normal code, coroutine mode} x fn makes k in %s coroutines ready x %s coroutines already queued (coroutine mode) x '
              '{suspend_point<void>, suspend_point<int>}' % (list(ks), list(k0s)),
        data='value returned by fn: unconstrained int', bounds='<= 8 readied coroutines', outside='-'))
    if quick:
        vh = hist_vectors(2, modes=(0,)) + hist_vectors(1, modes=(1,)) + [v for v in hist_vectors(2, modes=(1,), minlen=2) if v[2] <= 3] + \
             [v for v in hist_vectors(3, modes=(0,), minlen=3) if interesting(v) and (v[2] in (1, 3) or v[3] in (1, 3))]
        sph = ('every history over %s of length <= 2 in normal mode and of length <= 1 in coroutine mode; of length 2 in coroutine mode those that start with an add; '
               'of length 3 in normal mode those that start with an add, contain an add4 '
               '(heap path) among the first two operations and a merging/consuming operation; then destruction of A, B and the C objects' % (HOPS,))
    else:
        vh = hist_vectors(3) + [v for v in hist_vectors(4, minlen=4) if interesting(v)]
        sph = ('in normal mode and inside coro_queue::install_queue_and_call: every history over %s of length <= 3, and of length 4 those that start with an add, '
               'contain an add4 (heap path) and a merging/consuming operation; then destruction of A, B and the C objects' % (HOPS,))
    units.append(dict(
        engine='e1', name='hist', tu='C06.cpp', entry='h_hist', unwind=150, vectors=vh,
        concrete=[([0, 4, 0, 1, 4, 7], []), ([1, 4, 1, 3, 4, 6], []), ([0, 3, 1, 5, 8], []), ([1, 3, 3, 5, 7], []), ([1, 4, 1, 1, 3, 4], []), ([0, 4, 1, 6, 3, 5], [])],
        space=sph, data='none', bounds='<= %d operations, <= 16 handles' % (3 if quick else 4),
        outside='longer histories (single steps from every state up to 48 handles are covered by step1/step2)'))
    return units
