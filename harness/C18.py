"""C18 - callback adapters fire exactly once with the right outcome (sequential half). One TU per part (-DC18_PART=n).

Skeleton vectors:
  h_cbawait : [mode, shape, alloc, timing, outcome]      (part 0: T=int, part 1: T=void)
  h_mp_*    : [alloc, how, mode]
  h_discard : [timing, outcome, value type, mode]
  h_cfa_*   : [timing, outcome, mode]
  h_conv    : [shape, timing, outcome, mode, registration]
"""
import itertools

FS = ('--max-field-sensitivity-array-size', '300')     # frames / helper blocks inside 256-byte char buffers


def prod(*dims, cyc_first=False):
    """full product; with cyc_first the first dimension (mode) is not multiplied but cycles with the vector index"""
    vs = []
    if not cyc_first:
        return [list(t) for t in itertools.product(*[range(d) for d in dims])]
    for i, t in enumerate(itertools.product(*[range(d) for d in dims[1:]])):
        vs.append([((i * 2654435761) >> 7) % dims[0]] + list(t))      # deterministic, uncorrelated with the other dimensions
    return vs


def pick(vs, nd):
    sel = vs[:2] + vs[len(vs) // 2:len(vs) // 2 + 2] + vs[-2:]
    out = []
    for v in sel:
        if v not in [x[0] for x in out]: out.append((v, list(nd)))
    return out


def unit(part, name, entry, vectors, space, nd, outside='resolution concurrently on another thread (E2 half of the property); callbacks that throw'):
    return dict(engine='e1', name=name, tu='C18.cpp', defines=('C18_PART=%d' % part,), entry=entry, unwind=4, vectors=vectors,
                concrete=pick(vectors, nd), cbmc_extra=FS, timeout=600, space=space, jobs=(10 if part == 3 else 16),     # the converter unit needs ~4 GB per query

                data='resolved value (32-bit int), exception tags (8 bit), converter offset: symbolic',
                bounds='one adapter instance and one awaited operation per program', outside=outside)


def plan(tier):
    quick = tier != 'thorough'
    units = []
    cb_desc = ('callback_await programs [mode (plain thread / active coroutine queue), shape (await an existing future by reference / future built from a future-returning function), '
               'allocator (default heap, stack_storage that fits, stack_storage with heap fallback, reusable_storage, counting storage), timing (resolved before registration / after, same thread), '
               'outcome (value, exception, drop)]')
    # part 0: callback_await, T = int
    v0 = prod(2, 2, 5, 2, 3, cyc_first=quick)
    units.append(unit(0, 'h_cbawait_int', 'h_cbawait', v0, cb_desc + ('; full product except mode, which cycles' if quick else '; full product'), (5, 7)))
    # part 1: callback_await, T = void
    if quick:
        v1 = [v for v in prod(2, 2, 5, 2, 3, cyc_first=True) if v[2] in (0, 2, 4)]
        d1 = '; allocators {heap, stack fallback, counting} x shape x timing x outcome, mode cycling'
    else:
        v1 = prod(2, 2, 5, 2, 3); d1 = '; full product'
    units.append(unit(1, 'h_cbawait_void', 'h_cbawait', v1, cb_desc.replace('callback_await programs', 'callback_await programs on future<void>') + d1, (5, 7)))
    # part 2: make_promise, discard, call_fn_future_awaiter
    mp_desc = ('make_promise programs [allocator (heap, reusable_storage, counting storage), how the promise is used (value, exception, drop tag, promise object destroyed, value through a moved promise), mode]; '
               'the used promise is called again afterwards (must be inert)')
    units.append(unit(2, 'h_mp_int', 'h_mp_int', prod(3, 5, 2), mp_desc + '; full product', (5, 7)))
    vm = [v[1:] + v[:1] for v in prod(2, 3, 5, cyc_first=True)] if quick else prod(3, 5, 2)
    units.append(unit(2, 'h_mp_void', 'h_mp_void', vm, mp_desc.replace('make_promise', 'make_promise<void>') + ('; allocator x how, mode cycling' if quick else '; full product'), (5, 7)))
    units.append(unit(2, 'h_discard', 'h_discard', prod(2, 3, 2, 2),
                      'discard programs [timing, outcome, value type (counted object / void), mode]; full product', (5, 7)))
    cfa = 'call_fn_future_awaiter programs [timing, outcome, mode]; full product'
    units.append(unit(2, 'h_cfa_int', 'h_cfa_int', prod(2, 3, 2), cfa, (5, 7)))
    units.append(unit(2, 'h_cfa_void', 'h_cfa_void', prod(2, 3, 2), cfa.replace('programs', 'programs on future<void>'), (5, 7)))
    # part 3: future_conv
    vc = [v[1:] + v[:1] + [(i // 3) % 2] for i, v in enumerate(prod(2, 7, 2, 4, cyc_first=True))] if quick else prod(7, 2, 4, 2, 2)
    units.append(unit(3, 'h_conv', 'h_conv', vc,
                      'future_conv programs [converter shape (To (C::*)(From&), To (C::*)() with a void source, suspend_point (C::*)(From&, promise<To>&), suspend_point (C::*)(promise<To>&) with a void source, '
                      'To (*)(From&), To (*)(From&, C*), void (C::*)(From&)), timing, outcome (value, source exception, source dropped, converter throws), mode, registration (outer = conv << fn / conv(promise) << fn)]; ' +
                      ('shape x timing x outcome, mode and registration cycling' if quick else 'full product'), (5, 3, 7, 9)))
    # part 4: the source is resolved by another thread while the adapter is being registered (atomic-window injection, rt.h vf_ainject_arm)
    K = 12
    vmt = prod(6, 3, K)
    units.append(unit(4, 'conv_mt', 'h_adapt_mt', vmt,
                      'adapter registration against a resolving thread [adapter (callback_await on an existing future / on a future-returning function, call_fn_future_awaiter, future_conv To(C::*)(From&), '
                      'future_conv suspend_point(C::*)(From&, promise<To>&), discard), outcome (value, exception, drop), k = position of the atomic instruction of the registration in front of which the '
                      'other thread\'s complete resolve operation lands (1..%d; beyond the last one: after the registration)]; full product' % K, (5, 7, 9),
                      outside='interleavings in which the resolving operation itself is split by steps of the registering thread (two-sided interleavings of future/promise are the E2 scenarios of C01/C02); callbacks that throw'))
    units[-1]['concrete'] = [([a, o, k], [5, 7, 9]) for a in range(6) for o, k in ((0, 1), (1, 3), (2, 5), (0, 7), (1, 11))]
    return units
