import os
from speclib import histories

# vector = [ctor, rkind, nops, op...]
#  ctor : 0 promise-lambda ctor, promise kept (pending)      1 promise-lambda ctor, resolved inside the lambda
#         2 future-returning fn, future already resolved      3 future-returning fn, pending future (promise kept)
#         4 future-returning fn that throws                   5 future produced by a coroutine (examples/shared_future.cpp)
#         6 default-constructed, initialised later through get_promise()
#  rkind: 0 value  1 exception  2 promise dropped (canceled)
#  op   : 0 copy a handle  1 drop a handle  2 await, callback awaiter keeps its handle  3 await, callback awaiter drops its
#         handle inside the callback  4 await from a coroutine  5 resolve
#         7 default-constructed, init_if_needed(), copied; initialised through get_promise() of the copy (two handles from the start)
NAMES = ['promise_pending', 'promise_inline', 'future_ready', 'future_pending', 'future_throws', 'future_coro', 'late', 'late_shared']
PENDING = (0, 3, 5, 6, 7)
MAXH, MAXA = 6, 6


def valid(ctor, h):
    pending = ctor in PENDING
    n = slots = 2 if ctor == 7 else 1
    naw = 0
    for op in h:
        if op == 5:
            if not pending: return False
            pending = False
        else:
            if n < 1: return False
            if op == 0:
                if slots >= MAXH: return False
                n += 1; slots += 1
            elif op == 1:
                n -= 1
            else:
                if naw >= MAXA: return False
                naw += 1
    return True


def vecs(ctor, rkind, maxlen, minlen=0, also0=False):
    out = []
    if also0 and minlen > 0:
        out.append([ctor, rkind, 0])
    for h in histories(6, maxlen, minlen):
        if valid(ctor, h):
            out.append([ctor, rkind, len(h)] + h)
    return out


CONC = {
    0: [([0, 0, 3, 2, 5, 1], [41]), ([0, 1, 4, 0, 4, 1, 5], [7]), ([0, 2, 3, 3, 1, 5], [9]), ([0, 0, 2, 1, 5], [5]), ([0, 0, 4, 2, 3, 4, 5], [11])],
    1: [([1, 0, 2, 3, 1], [13]), ([1, 1, 2, 0, 4], [14]), ([1, 2, 1, 2], [15])],
    2: [([2, 0, 2, 4, 0], [21]), ([2, 1, 2, 2, 1], [22]), ([2, 2, 1, 3], [23])],
    3: [([3, 0, 3, 2, 5, 1], [31]), ([3, 1, 3, 1, 5, 0], [32]), ([3, 2, 2, 4, 5], [33])],
    4: [([4, 0, 2, 2, 1], [44]), ([4, 0, 2, 4, 0], [45]), ([4, 0, 0], [46])],
    5: [([5, 0, 3, 2, 5, 1], [51]), ([5, 1, 3, 4, 1, 5], [52]), ([5, 2, 2, 3, 5], [53]), ([5, 0, 1, 1], [54])],
    6: [([6, 0, 3, 2, 5, 1], [61]), ([6, 1, 3, 4, 1, 5], [62]), ([6, 2, 2, 3, 5], [63]), ([6, 0, 1, 1], [64])],
    7: [([7, 0, 3, 2, 5, 1], [71]), ([7, 1, 3, 4, 1, 5], [72]), ([7, 2, 2, 3, 5], [73]), ([7, 0, 1, 1], [74])],
}


def plan(tier):
    V = {}
    if tier == 'quick':
        V[0] = vecs(0, 0, 3) + vecs(0, 1, 2, 2, True) + vecs(0, 2, 2, 2, True)
        for k in (3, 5, 6, 7):
            V[k] = vecs(k, 0, 2) + vecs(k, 1, 1) + vecs(k, 2, 1)
        for k in (1, 2):
            V[k] = vecs(k, 0, 2, 2, True) + vecs(k, 1, 1) + vecs(k, 2, 1)
        V[4] = vecs(4, 0, 2, 2, True)
        sp = {0: 'value: every valid history of length <= 3; exception / dropped promise: length 2 and 0',
              3: 'value: length <= 2; exception / dropped promise: length <= 1', 1: 'value: length 2 and 0; exception / no-value: length <= 1',
              4: 'length 2 and 0'}
        maxlen = 3
    elif tier == 'smoke':       # development aid (mutation runs)
        for k in PENDING:
            V[k] = vecs(k, 0, 2) + vecs(k, 2, 2, 2)
        for k in (1, 2, 4):
            V[k] = vecs(k, 0, 1)
        sp = {0: 'length <= 2', 3: 'length <= 2', 1: 'length <= 1', 4: 'length <= 1'}
        maxlen = 2
    else:
        V[0] = vecs(0, 0, 4) + vecs(0, 1, 4) + vecs(0, 2, 3)
        for k in (3, 5, 6, 7):
            V[k] = vecs(k, 0, 4) + vecs(k, 1, 3) + vecs(k, 2, 3)
        for k in (1, 2):
            V[k] = vecs(k, 0, 3) + vecs(k, 1, 3) + vecs(k, 2, 3)
        V[4] = vecs(4, 0, 3)
        sp = {0: 'value / exception: every valid history of length <= 4; dropped promise: length <= 3',
              3: 'value: length <= 4; exception / dropped promise: length <= 3', 1: 'value / exception / no-value: length <= 3',
              4: 'length <= 3'}
        maxlen = 4
    sp[5] = sp[6] = sp[7] = sp[3]; sp[2] = sp[1]
    how = ['shared_future(fn(promise)) with the promise kept: pending', 'shared_future(fn(promise)) resolved inside fn',
           'shared_future(fn returning an already resolved future)', 'shared_future(fn returning a pending future)',
           'shared_future(fn that throws): result_of stores the exception', 'shared_future(fn returning a future produced by a coroutine)',
           'default-constructed shared_future, initialised later by get_promise() (init_if_needed() called once more afterwards)',
           'default-constructed shared_future, init_if_needed(), copied, then initialised by get_promise() of the copy (both handles share the state)']
    units = []
    for k in range(8):
        conc = CONC[k]
        units.append(dict(
            engine='e1', name='h_sf_' + NAMES[k], tu='C17.cpp', entry='h_sf', defines=['VF_CTOR=%d' % k], unwind=32, vectors=V[k], concrete=conc,
            space='%s; then histories over {copy a handle, drop a handle, await with a callback awaiter that keeps / drops its own handle in the '
                  'callback, await from a coroutine, resolve}: %s; afterwards all handles are dropped and a still pending promise is destroyed. '
                  'Only histories that are possible (an operation on a handle needs a live handle, resolve needs the pending promise).' % (how[k], sp[k]),
            data='the resolved value / exception tag: unconstrained 32-bit int (symbolic)',
            bounds='<= %d operations, <= %d handles, <= %d awaiters, value type = counted class' % (maxlen, MAXH, MAXA),
            outside='longer histories; threads (resolver / dropper / awaiter interleavings are the E2 half of C17); shared_future<void> and '
                    'shared_future<T&>; awaiters that do not hold their own handle (documented requirement); operator<< / result_of on a live shared_future'))
    # resolver thread against a thread that copies / awaits / drops the handles (E2, happens-before mode: assertions, lifetime, races)
    mt = [dict(name='mt_k%d_r%d' % (k, r), nthreads=2, defines=['KIND2=%d' % k, 'RES=%d' % r]) for k in ((0, 1, 2) if tier == 'quick' else (0, 1, 2, 3)) for r in (0, 1)]
    if tier == 'quick':
        # the construct-vs-resolve scenarios (~750 events) take 3 minutes under the happens-before encoding: the quick tier decides their assertion / lifetime / deadlock queries
        # over all SC interleavings and leaves their race query to the thorough tier
        units.append(dict(engine='e2', name='sf_mt_ctor', tu='C17mt.cpp', mode='sc', scenarios=[dict(name='mt_k3_r%d' % r, nthreads=2, defines=['KIND2=3', 'RES=%d' % r]) for r in (0, 1)],
                          opts={'loop_bound': 4, 'rec_bound': 2}, timeout_s=600,
                          space='thread 1 resolves (value / promise dropped) while thread 2 constructs the shared_future from a promise-taking function that publishes the promise to thread 1 and drops the handle',
                          bounds='2 threads; all SC interleavings; assertion, lifetime and deadlock queries (the data-race query of these two scenarios is in the thorough tier)', outside='more than 2 threads'))
    units.append(dict(engine='e2', name='sf_mt', tu='C17mt.cpp', mode='hb', scenarios=mt, opts={'loop_bound': 4, 'rec_bound': 2}, timeout_s=600,
                      space='thread 1 resolves (value / promise dropped) while thread 2 drops both handles / copies one and drops all three / subscribes a callback awaiter and drops both handles / constructs the shared_future (its init function publishes the promise, so the resolution can land inside the constructor) and drops it',
                      bounds='2 threads; all SC interleavings; the shared state and the shared_ptr control block are heap objects with lifetime-end events (use after free, double free, leak of the counted value)',
                      outside='more than 2 threads; awaiting coroutines (sequential half)'))
    return units
