"""C19 - coroutine storage policies (sequential half). One TU per policy (-DC19_PART=n, see C19.cpp).

Skeleton vectors:
  h_seq : [nframes-1, (size class, lifecycle) per frame]    lifecycle: 0 start/suspend/complete, 1 destroyed unstarted, 2 runs to completion inside start()
  h_ovl : [nops, op...]   op: 0 create small, 1 create large, 2+i complete the i-th created frame (only valid programs are enumerated)
"""
import itertools

FS = ('--max-field-sensitivity-array-size', '300')     # frames inside char buffers / untyped heap blocks of <= 256 bytes

POLICIES = ['default_storage', 'reusable_storage', 'reusable_storage_mtsafe', 'stack_storage (shared size state, caller-supplied buffer, heap fallback)',
            'placement_alloc', 'reusable_buffer_storage<std::vector<char>>', 'promise_extra_storage<counted object, default_storage>',
            'promise_extra_storage<counted object, reusable_storage>']


def seqs(maxlen, lives=(0, 1, 2), minlen=1):
    syms = [(s, l) for s in (0, 1) for l in lives]
    for n in range(minlen, maxlen + 1):
        for t in itertools.product(syms, repeat=n):
            yield [n - 1] + [x for p in t for x in p]


def ovl(maxframes, maxops):
    """valid create/complete programs in which every created frame is completed (others are prefixes of these plus the wind-down)"""
    out = []

    def rec(seq, ncreated, live):
        if seq and not live: out.append([len(seq)] + list(seq))
        if len(seq) == maxops: return
        if ncreated < maxframes:
            for s in (0, 1):
                rec(seq + [s], ncreated + 1, live | {ncreated})
        for i in sorted(live):
            rec(seq + [2 + i], ncreated, live - {i})
    rec([], 0, frozenset())
    return out


def dedup(vs):
    seen = set(); out = []
    for v in vs:
        if tuple(v) not in seen: seen.add(tuple(v)); out.append(v)
    return out


def pick(vs, nd):
    sel = vs[:2] + vs[len(vs) // 2:len(vs) // 2 + 2] + vs[-2:]
    out = []
    for v in sel:
        if v not in [x[0] for x in out]: out.append((v, list(nd)))
    return out


def plan(tier):
    quick = tier != 'thorough'
    units = []
    for part, pol in enumerate(POLICIES):
        if quick:
            if part in (0, 4):
                vs = list(seqs(1)) + list(seqs(2, lives=(0,), minlen=2)) + [[2, 0, 0, 1, 1, 0, 2]]
                sp = 'every single frame (size x lifecycle), every pair of started frames (sizes), one program with 3 frames'
            else:
                vs = list(seqs(1)) + list(seqs(2, lives=(0, 1), minlen=2)) + [[2, 0, 0, 1, 0, 0, 0], [2, 1, 0, 0, 0, 1, 0], [2, 0, 2, 1, 1, 0, 0], [2, 1, 1, 0, 0, 0, 2]]
                sp = 'every single frame (size x lifecycle), every pair with lifecycles {complete later, destroyed unstarted}, 4 programs with 3 frames'
        else:
            vs = list(seqs(3))
            sp = 'every sequence of <= 3 frames over size {small, large} x lifecycle {start/suspend/complete, destroyed unstarted, runs to completion inside start()}'
        vs = dedup(vs)
        units.append(dict(engine='e1', name='h_seq_p%d' % part, tu='C19.cpp', defines=('C19_PART=%d' % part,), entry='h_seq', unwind=14, vectors=vs,
                          concrete=pick(vs, (5, 6, 7)), cbmc_extra=FS, timeout=600,
                          space='policy %s, one live frame per storage: %s' % (pol, sp),
                          data='canary seed of every frame (32-bit): symbolic',
                          bounds='<= 3 frames per storage, two frame sizes (2 and 12 ints of locals), one suspension per frame',
                          outside='two threads on one reusable_storage_mtsafe (E2 half); static_storage (not named by the property); frames larger than the supplied buffer under placement_alloc (caller precondition)'))
        if part in (0, 2):
            if quick:
                vo = ovl(2, 4) if part == 2 else [v for v in ovl(2, 4) if v[0] == 4][:6]
                vo = vo + ([[6, 0, 0, 2, 0, 3, 4], [6, 1, 0, 2, 0, 4, 3], [6, 0, 1, 1, 3, 2, 4], [5, 0, 1, 2, 0, 3], [6, 1, 1, 3, 0, 2, 4], [6, 0, 0, 0, 4, 2, 3]] if part == 2 else [[6, 0, 1, 0, 3, 2, 4]])
                so = 'all programs with <= 2 frames and <= 4 operations, plus 6 programs with 3 frames' if part == 2 else '6 programs with 2 overlapping frames, 1 with 3'
            else:
                vo = ovl(3, 6)
                so = 'all valid create/complete programs with <= 3 frames and <= 6 operations in which every frame is completed'
            vo = dedup(vo)
            units.append(dict(engine='e1', name='h_ovl_p%d' % part, tu='C19.cpp', defines=('C19_PART=%d' % part,), entry='h_ovl', unwind=14, vectors=vo,
                              concrete=pick(vo, (5, 6, 7)), cbmc_extra=FS, timeout=600,
                              space='policy %s, overlapping frame lifetimes [nops, ops]: %s' % (pol, so),
                              data='canary seed of every frame (32-bit): symbolic',
                              bounds='<= 3 simultaneously live frames, <= 6 create/complete operations',
                              outside='two threads on one reusable_storage_mtsafe (E2 half)'))
    for part in (0, 2):
        base_progs = ovl(3, 6)
        vo = []
        for v in base_progs:
            ops = v[1:]
            creates = [i for i, o in enumerate(ops) if o < 2]
            for fmask in range(1, 1 << len(creates)):
                if quick and bin(fmask).count('1') != 1: continue
                out = [v[0]]
                for i, o in enumerate(ops):
                    out.append(o)
                    if o < 2: out.append(1 if (fmask >> creates.index(i)) & 1 else 0)
                vo.append(out)
        vo = dedup(vo)
        key = [[6, 0, 0, 0, 1, 0, 0, 2, 3, 4], [6, 1, 0, 0, 1, 1, 0, 2, 3, 4], [6, 0, 0, 1, 1, 1, 0, 3, 2, 4], [4, 0, 0, 2, 1, 1, 3], [4, 1, 0, 2, 0, 1, 3], [6, 0, 0, 0, 0, 0, 1, 2, 3, 4]]
        if quick: vo = dedup(key + vo[:: max(1, len(vo) // 50)])
        units.append(dict(engine='e1', name='h_ovl_oom_p%d' % part, tu='C19.cpp', defines=('C19_PART=%d' % part,), entry='h_ovl_oom', unwind=14, vectors=vo,
                          concrete=pick(vo, (5, 6, 7)), cbmc_extra=FS, timeout=600,
                          space='policy %s, overlapping frame lifetimes with allocation failures [nops, (op, fails)...]: create/complete programs with <= 3 frames and <= 6 operations in which %s creation meets '
                                'std::bad_alloc at its first operator new (vf_new_fail_at; steps that refer to a frame whose creation failed are skipped)' %
                                (['default_storage', '', 'reusable_storage_mtsafe'][part], 'exactly one' if quick else 'at least one') + ('; 6 hand-picked programs plus an evenly spread selection of 50' if quick else ''),
                          data='canary seed of every frame (32-bit): symbolic', bounds='<= 3 frames, one failing allocation per creation',
                          outside='allocation failure anywhere else than at the first operator new of a creation; failures inside the harness\'s own futures'))
    for part in (6, 7):
        vt = [[n - 1, bad] + list(sz) for n in (1, 2, 3) for bad in range(n) for sz in __import__('itertools').product((0, 1), repeat=n)]
        if quick: vt = [v for v in vt if v[0] < 2 or sum(v[2:]) in (0, 3) or v[1] == 1]
        units.append(dict(engine='e1', name='h_extra_throw_p%d' % part, tu='C19.cpp', defines=('C19_PART=%d' % part,), entry='h_extra_throw', unwind=14, vectors=vt,
                          concrete=pick(vt, (5, 6, 7)), cbmc_extra=FS, timeout=600,
                          space='promise_extra_storage over %s: 1..3 frames created and completed one after another, the factory of one of them throws [n-1, bad, sizes]' % ('default_storage' if part == 6 else 'reusable_storage') +
                                ('; n = 3: equal sizes or the middle frame failing' if quick else '; full product'),
                          data='canary seeds symbolic', bounds='<= 3 frames, one throwing factory', outside='T\'s move constructor throwing; several failing creations'))
    # requested sizes as symbolic data: the policy is called directly
    for part in (0, 1, 2, 5):
        vz = [[n - 1, ov] for n in (1, 2, 3) for ov in ((0, 1) if part in (0, 2) else (0,))]
        units.append(dict(engine='e1', name='h_sizes_p%d' % part, tu='C19.cpp', defines=('C19_PART=%d' % part,), entry='h_sizes', unwind=14, vectors=vz,
                          concrete=[([1, 0], [88, 3, 96, 95]), ([2, 0], [16, 0, 400, 399, 17, 5]), ([0, 0], [1, 0])] + ([([1, 1], [88, 3, 96, 95])] if part in (0, 2) else []),
                          cbmc_extra=FS, timeout=900,
                          space='policy %s called directly (no coroutine): 1..3 requests alloc(sz) on one storage, each block released before the next request%s [n-1, overlapping]' %
                                (['default_storage', 'reusable_storage', 'reusable_storage_mtsafe', '', '', 'reusable_buffer_storage<vector<char>>'][part], ' or all kept alive and released at the end' if part in (0, 2) else ''),
                          data='every requested size: arbitrary in [1, 400] (symbolic); the probed offset inside each block: arbitrary (symbolic)',
                          bounds='<= 3 requests, sizes <= 400 bytes', outside='larger sizes; alignment requirements beyond what operator new gives'))
    units.append(dict(engine='e1', name='h_stack2', tu='C19.cpp', defines=('C19_PART=3',), entry='h_stack2', unwind=14,
                      vectors=[[w, a, b] for w in (0, 1, 2) for a in (0, 1) for b in (0, 1)], concrete=[([0, 0, 0], [5, 6]), ([1, 1, 1], [7, 8]), ([2, 0, 1], [1, 2])],
                      cbmc_extra=('--max-field-sensitivity-array-size', '300'),
                      space='stack_storage: two activations construct their storages and obtain their memory (sized by the shared state) before either coroutine is created; shared state cold / warmed by a small / by a large frame x frame sizes',
                      data='seeds symbolic', bounds='2 overlapping activations', outside='3 or more overlapping activations; real alloca (the harness supplies static buffers and checks the size contract)'))
    # two threads on one thread-safe reusable storage (E2, SC interleavings): exclusivity of the block
    sto = [dict(name='mtsafe_16_16', nthreads=2, defines=['SZ1=16', 'SZ2=16']), dict(name='mtsafe_16_32', nthreads=2, defines=['SZ1=16', 'SZ2=32']),
           dict(name='mtsafe_2rounds', nthreads=2, defines=['SZ1=16', 'SZ2=16', 'ROUNDS=2'])]
    units.append(dict(engine='e2', name='mtsafe2', tu='C19mt.cpp', mode='sc', scenarios=sto, opts={'loop_bound': 6, 'rec_bound': 2}, timeout_s=600,
                      space='two threads each alloc -> write canary -> check -> dealloc on one reusable_storage_mtsafe, once or twice, equal and different frame sizes',
                      bounds='2 threads; all SC interleavings at instruction granularity', outside='address reuse by the heap (blocks get fresh addresses, so an ABA on a recycled address is not modelled); more than 2 threads'))
    return units
