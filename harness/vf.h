// Harness interface shared by the symbolic (clang IR -> C -> CBMC / IR -> SMT) and the native
// (g++ replay / translator validation) builds of every harness. Nothing here is cocls code.
#pragma once
#include <cstdint>
#include <cstddef>
extern "C" {
int nondet_int(void);
unsigned nondet_uint(void);
unsigned char nondet_uchar(void);
long nondet_long(void);
void __CPROVER_assert(int cond, const char *msg);
void __CPROVER_assume(int cond);
// skeleton input: next element of the per-query choice vector, in [0,n)
int vf_choice(int n);
void vf_choice_end(void);
// observation used for translator validation (native trace must equal translated trace)
void vf_out(long v);
// reachability witness: must be reported FAILED by the solver, otherwise the harness is vacuous
void vf_witness(void);
// allocation accounting (operator new/delete)
long vf_live_allocs(void);
long vf_total_allocs(void);
void vf_region_begin(void);
long vf_region_end(void);
}
#define VF_ASSERT(c, msg) __CPROVER_assert(!!(c), msg)
#define VF_ASSUME(c) __CPROVER_assume(!!(c))

// A fake coroutine frame: {resume_fn, destroy_fn, ...} is all std::coroutine_handle<>::resume()/destroy() read.
struct vf_fake_coro {
    void (*resume_fn)(vf_fake_coro *);
    void (*destroy_fn)(vf_fake_coro *);
    int id;
    int resumed;
    int destroyed;
    int order;         // value of the global sequence counter at (last) resume
};
