// Harness interface shared by the symbolic (clang IR -> C -> CBMC / IR -> SMT) and the native
// (g++ replay / translator validation) builds of every harness. Nothing here is cocls code.
#pragma once
#include <cstdint>
#include <cstddef>
extern "C" {
int nondet_int(void);
unsigned nondet_uint(void);
unsigned char nondet_uchar(void);
long nondet_long(void);
void __CPROVER_assert(int cond, const char *msg);
void __CPROVER_assume(int cond);
// skeleton input: next element of the per-query choice vector, in [0,n)
int vf_choice(int n);
void vf_choice_end(void);
// observation used for translator validation (native trace must equal translated trace)
void vf_out(long v);
// reachability witness: must be reported FAILED by the solver, otherwise the harness is vacuous
void vf_witness(void);
// allocation accounting (operator new/delete)
long vf_live_allocs(void);
long vf_total_allocs(void);
void vf_new_fail_at(int k);         // the k-th operator new from now on throws std::bad_alloc (0 = never; the default environment never fails)
void vf_region_begin(void);
long vf_region_end(void);
// cooperative thread model (C11; rt/rt.h, rt/native_threads.cpp): std::threads are numbered 1.. in creation order, 0 = the harness thread.
// A thread runs only inside vf_thread_run(i) (or a join), until its function returns or it blocks in std::condition_variable::wait.
// states: 0 none, 1 not started, 2 parked (not notified), 3 parked and notified, 4 running (on the stack), 5 finished
int vf_thread_count(void);
int vf_thread_self(void);
int vf_thread_state(int i);
int vf_thread_detached(int i);
int vf_thread_runnable(int i);      // state 1 or 3
void vf_thread_run(int i);
void vf_cond_pick(int mode);        // whom notify_one wakes among the parked threads: 0 lowest index, 1 highest index
// lock discipline (C03 b): obj is protected by the std::mutex at lock from now on (symbolic build with -DVF_DISCIPLINE only)
void vf_protect(void *obj, unsigned long size, void *lock);
void vf_protect_obj(void *obj, unsigned long size, void *lock);   // the object only, heap blocks allocated under the lock are not tracked
void vf_unprotect_all(void);
// lock-region interleaving: the k-th std::mutex acquisition from now on first runs fn() (another thread's operation)
void vf_inject_arm(void (*fn)(void), int k);
int vf_inject_pending(void);
void vf_inject_disarm(void);
// atomic-window interleaving (lock-free code): the k-th atomic instruction executed from now on is preceded by fn() (another thread's whole operation)
void vf_ainject_arm(void (*fn)(void), int k);
int vf_ainject_pending(void);
void vf_ainject_disarm(void);
int vf_ainject_events(void);
// another thread acts while this one sits in a timed condition-variable wait (one-shot; a notification makes the wait return without time-out)
void vf_cwait_arm(void (*fn)(void));
// cooperative thread model (C11): fn runs as the harness thread when a modelled thread is about to wait on a condition variable (it holds the mutex, it is
// not registered as a waiter yet); when fn needs that mutex the thread's wait completes first. Symbolic build and natively executed translation only.
void vf_prepark_arm(void (*fn)(void));
int vf_prepark_pending(void);
int vf_cwait_pending(void);
void vf_cwait_disarm(void);
// another thread acts while this one is blocked: a blocking atomic wait that would never end first runs fn() once (natively: a helper thread runs it 30 ms later)
void vf_wait_arm(void (*fn)(void));
void vf_wait_done(void);
}
#define VF_ASSERT(c, msg) __CPROVER_assert(!!(c), msg)
#define VF_ASSUME(c) __CPROVER_assume(!!(c))

// A fake coroutine frame: {resume_fn, destroy_fn, ...} is all std::coroutine_handle<>::resume()/destroy() read.
struct vf_fake_coro {
    void (*resume_fn)(vf_fake_coro *);
    void (*destroy_fn)(vf_fake_coro *);
    int id;
    int resumed;
    int destroyed;
    int order;         // value of the global sequence counter at (last) resume
};
