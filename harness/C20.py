"""C20 - the core primitives never allocate. One translation unit per part (-DC20_PART=n, see C20.cpp).

Skeleton vectors (all values are skeleton inputs; payloads/tags are symbolic data):
  futures : [mode, create, outcome, rstyle, timing, n, kind_1..kind_n]
  mutex   : [mode, n-1, kind_0 (0..3), kind_1..kind_{n-1} (0..2), rel]
  susp.pt : [mode, build, n1, n2, typed, npop, fin]
  generat.: [mode, galloc, n, end, style, k]
"""
import itertools

FS = ('--max-field-sensitivity-array-size', '300')     # frames under placement_alloc live in 256-byte char buffers


def multisets(nkinds, maxn, minn=0):
    for n in range(minn, maxn + 1):
        for t in itertools.combinations_with_replacement(range(nkinds), n):
            yield list(t)


def dedup(vs):
    seen = set(); out = []
    for v in vs:
        t = tuple(v)
        if t not in seen:
            seen.add(t); out.append(v)
    return out


def pick(vs, nd):
    return [(v, list(nd)) for v in dedup(vs[:2] + vs[len(vs) // 2:len(vs) // 2 + 2] + vs[-2:])]


# ------------------------------------------------------------------ futures
def fut_vectors(kindsets, rstyles, full_small, outcomes=(0, 1, 2, 3), half=()):
    """kindsets x mode x timing (kind sets listed in `half`: two of the four (mode, timing) pairs, alternating), with
    (create, outcome, rstyle) cycling over all their values; plus (full_small) the full product of all scalar choices
    for the given small kind sets."""
    vs = []
    idx = 0
    alt = 0
    for ks in kindsets:
        mts = [(0, 0), (0, 1), (1, 0), (1, 1)]
        if ks in half:
            mts = [(0, 0), (1, 1)] if alt % 2 == 0 else [(0, 1), (1, 0)]
            alt += 1
        for mode, timing in mts:
            outcome = outcomes[idx % len(outcomes)]
            rstyle = rstyles[(idx // 2) % len(rstyles)]
            create = (idx // 3) % 3
            idx += 1
            vs.append([mode, create, outcome, rstyle, timing, len(ks)] + ks)
        idx += 1
    for ks in full_small:
        for mode, create, outcome, rstyle, timing in itertools.product((0, 1), (0, 1, 2), outcomes, rstyles, (0, 1)):
            vs.append([mode, create, outcome, rstyle, timing, len(ks)] + ks)
    return dedup(vs)


def fut_unit(part, entry, vt, kinds_desc, vectors, space, nd=(5, 7)):
    return dict(engine='e1', name=entry, tu='C20.cpp', defines=('C20_PART=%d' % part,), entry=entry, unwind=7, vectors=vectors,
                concrete=pick(vectors, nd), cbmc_extra=FS, timeout=600,
                space='future<%s>/promise programs: [mode, create, outcome, rstyle, timing, n, kinds]; %s; waiter kinds %s' % (vt, space, kinds_desc),
                data='resolved value (32-bit int / small struct field), exception tag: symbolic',
                bounds='<= 3 waiters per future (the inline capacity of a suspend point), one future/promise pair plus the futures of the harness coroutines',
                outside='more than 3 coroutine waiters on one future (suspend_point spills to the heap beyond 3 handles - documented); std::deque growth of the ready queue every 64 pushes; concurrent resolution; a thread that really blocks in co_awaiter::sync() on a pending future (one modelled thread: its parts - sync_awaiter on the stack, subscribe, wait_sync after the wake-up - are run instead)')


KA = '{0 coroutine/heap frame, 1 coroutine/placement frame, 2 blocking thread (sync_awaiter), 3 callback awaiter (resume function)}'
KB = '{0 coroutine/heap frame, 1 co_await has_value()/placement frame, 2 callback_await (heap frame), 3 callback_await_alloc (placement)}'


# ------------------------------------------------------------------ mutex
def mutex_vectors(ns, rels, modes=(0, 1), cyc=False):
    vs = []
    idx = 0
    for n in ns:
        for k0 in range(4):
            for rest in itertools.combinations_with_replacement(range(3), n - 1):
                if cyc:
                    vs.append([modes[idx % len(modes)], n - 1, k0] + list(rest) + [rels[(idx // 2) % len(rels)]]); idx += 1
                else:
                    for mode in modes:
                        for rel in rels:
                            vs.append([mode, n - 1, k0] + list(rest) + [rel])
    return dedup(vs)


# ------------------------------------------------------------------ suspend point
def sp_vectors(full):
    vs = []
    idx = 0
    for n1 in range(4):
        for n2 in range(4 - n1):
            tot = n1 + n2
            if full:
                for mode, build, fin in itertools.product((0, 1), (0, 1, 2), (0, 1, 2, 3)):
                    for npop in range(tot + 1):
                        typed = idx % 2; idx += 1
                        vs.append([mode, build, n1, n2, typed, npop, fin])
            else:
                for fin in range(4):
                    mode = idx % 2; build = idx % 3; typed = (idx // 3) % 2; npop = (idx // 2) % (tot + 1); idx += 1
                    vs.append([mode, build, n1, n2, typed, npop, fin])
    return dedup(vs)


# ------------------------------------------------------------------ generator
def gen_vectors(styles, full, ns=(0, 1, 2, 3), cyc_galloc=False):
    vs = []
    idx = 0
    for style in styles:
        for n in ns:
            ks = sorted(set([0, n, n + 1, min(n + 2, 5)])) if full else [n + 1]
            for k in ks:
                if full and cyc_galloc:
                    for mode, end in itertools.product((0, 1), (0, 1)):
                        galloc = idx % 2; idx += 1
                        vs.append([mode, galloc, n, end, style, k])
                elif full:
                    for mode, galloc, end in itertools.product((0, 1), (0, 1), (0, 1)):
                        vs.append([mode, galloc, n, end, style, k])
                else:
                    for end in (0, 1):
                        mode = idx % 2; galloc = (idx // 2) % 2; idx += 1
                        vs.append([mode, galloc, n, end, style, k])
    return dedup(vs)


def plan(tier):
    quick = tier != 'thorough'
    units = []
    # ---- futures
    if quick:
        a3 = [[0, 1, 2], [1, 2, 3], [0, 0, 3], [1, 1, 1], [2, 2, 2], [0, 1, 3]]
        a_sets = list(multisets(4, 2)) + a3
        b2 = [[0, 1], [1, 2], [2, 3], [1, 3], [1, 1, 1], [0, 2, 3], [1, 2, 3]]
        b_sets = list(multisets(4, 1)) + b2
        v_sets = [[], [0], [1], [2], [3], [0, 1], [2, 3], [0, 1, 2], [1, 2, 3]]
        fa = fut_vectors(a_sets, (0, 1, 2), [], half=list(multisets(4, 2, 2)) + a3)
        fb = fut_vectors(b_sets, (0, 1), [], half=b2)
        fv = fut_vectors(v_sets, (0, 1, 2), [], half=v_sets)
        fs = fut_vectors(v_sets, (0, 1, 2), [], half=v_sets)
        sp_a = ('kind multisets with n<=1 x mode x timing; all multisets with n=2 and 6 with n=3 x two (mode, timing) pairs (alternating); '
                'create/outcome/rstyle cycling over all their values')
        sp_b = 'kind sets with n<=1 x mode x timing; 7 kind sets with n=2,3 x two (mode, timing) pairs; create/outcome/rstyle cycling'
        sp_v = '9 kind sets (n<=3) x two (mode, timing) pairs (alternating), create/outcome/rstyle cycling'
    else:
        a_sets = list(multisets(4, 3)); b_sets = list(multisets(4, 3)); v_sets = list(multisets(4, 3))
        fa = fut_vectors(a_sets, (0, 1, 2), [[], [0], [1], [2], [3], [0, 1]])
        fb = fut_vectors(b_sets, (0, 1), [[1], [2], [3]])
        fv = fut_vectors(v_sets, (0, 1, 2), [[], [1]])
        fs = fut_vectors(v_sets, (0, 1, 2), [[], [1]])
        sp_a = ('all kind multisets with n<=3 x mode x timing with create/outcome/rstyle cycling, plus the full product '
                'mode x create x outcome x rstyle x timing for a few small kind sets')
        sp_b = sp_v = sp_a
    units.append(fut_unit(0, 'h_fut_int', 'int', KA, fa, sp_a))
    units.append(fut_unit(1, 'h_fut_int_b', 'int', KB, fb, sp_b))
    # pipeline: the callback awaiter of future #1 resolves promise #2 inside its notification
    ch = [[mode, outcome, style, len(ks)] + ks for mode in (0, 1) for outcome in ((0, 2) if tier == 'quick' else (0, 1, 2, 3)) for style in (0, 1)
          for ks in multisets(4, 2 if tier == 'quick' else 3)]
    if tier == 'quick':
        ch = [v for i, v in enumerate(ch) if v[3] <= 1 or i % 2 == 0]
    units.append(dict(engine='e1', name='h_fut_chain', tu='C20.cpp', defines=('C20_PART=0',), entry='h_fut_chain', unwind=7, vectors=dedup(ch),
                      concrete=pick(ch, (5, 7)), cbmc_extra=FS,
                      space='two future<int>/promise pairs: the callback awaiter of future #1 resolves promise #2 from inside its notification (suspend point discarded there or handed back), '
                            'future #2 has 0..%d waiters (heap-frame coroutine, non-heap-frame coroutine, blocking thread, callback) at that moment [mode, outcome of #2, style, n, kinds]%s' %
                            ((2, '; two-waiter sets: every second combination') if tier == 'quick' else (3, '')),
                      data='payload and exception tag symbolic', bounds='2 futures, <= 3 waiters', outside='longer pipelines'))
    units.append(fut_unit(2, 'h_fut_void', 'void', KA, fv, sp_v))
    units.append(fut_unit(3, 'h_fut_small', 'small struct', KA, fs, sp_v))
    # ---- mutex
    if quick:
        mv = mutex_vectors((1, 2), (0, 1, 2))[::4] + mutex_vectors((3,), (0, 1, 2), cyc=True)[::2] + [[0, 3, 0, 1, 2, 2, 0], [1, 3, 3, 0, 0, 1, 2], [1, 3, 2, 2, 2, 2, 1], [0, 3, 1, 0, 1, 2, 1]]
        msp = 'holders n<=2: every kind combination with every fourth (mode, release style) pair; n=3: every second kind combination, mode/release style cycling; n=4: 4 vectors'
    else:
        mv = mutex_vectors((1, 2, 3), (0, 1, 2)) + mutex_vectors((4,), (0, 1, 2), cyc=True)
        msp = 'holders n<=3: kinds x mode x release style (full product); n=4: every kind combination, mode/release style cycling'
    mv = dedup(mv)
    mv = [v + [0] for v in mv] + [v + [1] for v in mv if v[1] >= 2 and any(k < 2 for k in v[3:-1])]
    units.append(dict(engine='e1', name='h_mutex', tu='C20.cpp', defines=('C20_PART=4',), entry='h_mutex', unwind=7, vectors=mv,
                      concrete=pick(mv, ()), cbmc_extra=FS, timeout=600,
                      space='mutex programs [mode, n-1, kind_0, kinds of the contenders (non-decreasing), release style, pre]: holder 0 takes the free mutex (coroutine heap/placement frame, blocking thread, try_lock), '
                            'n-1 contenders queue up (coroutine heap/placement frame, blocking thread), every holder releases in turn (ownership destructor / release() discarded / release() awaited or cleared); pre = 1 (programs with >= 2 contenders): the contending coroutines release at once when they get the mutex, i.e. inside the hand-over that resumed them; ' + msp,
                      data='none', bounds='<= 4 holders (1 owner + 3 contenders)', outside='more than 3 contenders; contention from other threads (C07/C08)'))
    # ---- suspend point
    sv = sp_vectors(not quick)
    units.append(dict(engine='e1', name='h_sp', tu='C20.cpp', defines=('C20_PART=5',), entry='h_sp', unwind=7, vectors=sv,
                      concrete=pick(sv, ()), cbmc_extra=FS, timeout=600,
                      space='suspend point programs [mode, build, n1, n2, typed, npop, fin]: two suspend points with n1+n2<=3 handles are built (from a handle + <<, default + <<, create_suspend_point), merged, '
                            'popped npop times, moved (suspend_point<void> or through suspend_point<bool>), then destroyed / cleared / awaited from a coroutine (heap or placement frame); ' +
                            ('all (n1,n2) x fin, mode/build/typed/npop cycling' if quick else 'full product of mode x build x (n1,n2) x npop x fin, typed alternating'),
                      data='none', bounds='<= 3 handles in total (inline capacity)', outside='4 or more handles (documented heap spill)'))
    # ---- generator
    gi = gen_vectors((0, 1, 2, 3, 4, 5), not quick)
    units.append(dict(engine='e1', name='h_gen_int', tu='C20.cpp', defines=('C20_PART=6',), entry='h_gen_int', unwind=8, vectors=gi,
                      concrete=pick(gi, (5, 7)), cbmc_extra=FS, timeout=600,
                      space='generator<int> programs [mode, galloc, n, end, style, k]: a synchronous generator (heap or placement frame) yielding n<=3 values then returning or throwing is stepped k times through '
                            'next()/value(), the future interface, the iterator, or from a consumer coroutine (co_await next() / co_await gen(), heap or placement frame), then destroyed; ' +
                            ('style x n x end with k = n+1 steps (one past the end), mode/galloc cycling' if quick else 'style x n x k in {0, n, n+1, n+2} x mode x galloc x end'),
                      data='first yielded value: symbolic', bounds='<= 3 yields, <= 5 steps', outside='generators that co_await (asynchronous generators); generator_aggregator'))
    gs = gen_vectors((0, 1, 2, 3), not quick, ns=(1, 3) if quick else (0, 1, 2, 3), cyc_galloc=True)
    ga = gen_vectors((0,), not quick, ns=(0, 1, 2, 3))
    units.append(dict(engine='e1', name='h_gen_small', tu='C20.cpp', defines=('C20_PART=7',), entry='h_gen_small', unwind=8, vectors=gs,
                      concrete=pick(gs, (5, 7)), cbmc_extra=FS, timeout=600,
                      space='generator<small struct>: same programs as h_gen_int, styles 0-3' + (', n in {1,3}' if quick else ', generator frame policy alternating'),
                      data='first yielded value: symbolic', bounds='<= 3 yields, <= 5 steps', outside='see h_gen_int'))
    units.append(dict(engine='e1', name='h_gen_arg', tu='C20.cpp', defines=('C20_PART=7',), entry='h_gen_arg', unwind=8, vectors=ga,
                      concrete=pick(ga, (5, 7)), cbmc_extra=FS, timeout=600,
                      space='generator<int,int> (generator with an argument, co_yield nullptr first): next(arg)/value() stepping',
                      data='first yielded value, argument: symbolic', bounds='<= 3 yields, <= 5 steps', outside='see h_gen_int'))
    return units
