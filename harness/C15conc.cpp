// C15 (listeners subscribing on another thread than the collector, interleaved at atomic-instruction granularity).
// Two operations A and B of two threads meet on one signal: A runs on the harness thread, the complete operation B is injected in front of
// the k-th atomic instruction A executes (vf_ainject_arm), k = 1..K, or happens after A. Pairs:
//   0 A = collector call,                 B = a coroutine starts awaiting the emitter
//   1 A = collector call,                 B = connect(callback)
//   2 A = a coroutine starts awaiting,    B = collector call
//   3 A = connect(callback),              B = collector call
//   4 A = last strong handle destroyed,   B = a coroutine starts awaiting (through an emitter obtained earlier)
//   5 A = a coroutine starts awaiting,    B = last strong handle destroyed
//   6 A = a coroutine starts awaiting,    B = connect(callback)
// Before that `pre` listeners (0: none, 1: a coroutine, 2: a coroutine and a callback) are already waiting; afterwards a second value is
// emitted (pairs 0-3, 6) and all handles are destroyed. A listener that arrives concurrently with an emission may or may not see that value;
// everything else is fixed by the property: earlier listeners get every value exactly once and in order, the new listener gets every later
// value exactly once, the destruction of the last handle cancels every waiting coroutine and releases every callback, nobody is lost.
#include "vf_cocls.h"
#include <cocls/signal.h>
#include <cocls/async.h>
#include <optional>
using namespace cocls;

namespace {
constexpr int MAXV = 4;
struct Log { int n; int vals[MAXV]; int canceled; int finished; };

async<void> listener(signal<int>::emitter em, Log &log) {
    for (;;) {
        try {
            int &v = co_await em;
            if (log.n < MAXV) log.vals[log.n] = v;
            log.n++;
        } catch (const await_canceled_exception &) {
            log.canceled++;
            break;
        }
    }
    log.finished = 1;
}

struct Ctx {
    std::optional<signal<int>> sg;
    signal<int>::emitter em;
    Log pre[2], nw;
    int v1, v2, emitted1;
};
Ctx *cx;
int opB;

void op(int kind) {
    Ctx &c = *cx;
    switch (kind) {
    case 0: { c.emitted1 = 1; auto col = c.sg->get_collector(); col(int(c.v1)); break; }
    case 1: listener(c.em, c.nw).detach(); break;
    case 2: { Log *lp = &c.nw; c.sg->connect([lp](int &v) -> bool { if (lp->n < MAXV) lp->vals[lp->n] = v; lp->n++; return true; }); break; }
    default: c.sg.reset(); break;
    }
}
void injected() { vf_other_thread other; op(opB); }        // the other thread has its own (normal-mode) coroutine-queue state
}

extern "C" void h_sig_conc() {
    vf_warmup();
    const int pair = vf_choice(7);
    const int pre = vf_choice(3);
    const int k = 1 + vf_choice(14);
    static const int A_OF[7] = {0, 0, 1, 2, 3, 1, 1}, B_OF[7] = {1, 2, 0, 0, 1, 3, 2};
    long base = vf_live_allocs();
    {
        Ctx c{}; cx = &c;
        c.v1 = nondet_int(); c.v2 = nondet_int();
        VF_ASSUME(c.v1 != c.v2);
        c.sg.emplace();
        c.em = c.sg->get_emitter();
        if (pre >= 1) listener(c.sg->get_emitter(), c.pre[0]).detach();
        if (pre >= 2) { Log *lp = &c.pre[1]; c.sg->connect([lp](int &v) -> bool { if (lp->n < MAXV) lp->vals[lp->n] = v; lp->n++; return true; }); }
        opB = B_OF[pair];
        vf_ainject_arm(&injected, k);
        op(A_OF[pair]);
        if (vf_ainject_pending()) { vf_ainject_disarm(); injected(); }       // B after A
        const bool new_is_coro = pair != 1 && pair != 3;
        // ---- after A || B
        if (pair == 4 || pair == 5) {
            VF_ASSERT(c.nw.finished && c.nw.canceled == 1 && c.nw.n == 0, "C15 a coroutine that awaits while the last handle goes away is cancelled, not left waiting");
        } else {
            if (pair != 6) {
                for (int i = 0; i < pre; i++) VF_ASSERT(c.pre[i].n == 1 && c.pre[i].vals[0] == c.v1, "C15 a listener waiting at an emission receives it exactly once with that value");
                VF_ASSERT(c.nw.n <= 1 && (c.nw.n == 0 || c.nw.vals[0] == c.v1), "C15 a listener arriving during an emission receives that value at most once");
            }
            const int seen1 = c.nw.n;
            { auto col = c.sg->get_collector(); int lv = c.v2; col(lv); }
            for (int i = 0; i < pre; i++)
                VF_ASSERT(c.pre[i].n == (pair == 6 ? 1 : 2) && c.pre[i].vals[c.pre[i].n - 1] == c.v2, "C15 a listener that only re-awaits the emitter misses no value");
            if (pair != 6) {
                VF_ASSERT(c.nw.n == seen1 + 1 && c.nw.vals[seen1] == c.v2, "C15 a listener that subscribed on another thread is on the list: it receives the next value exactly once (no lost listener)");
            } else {
                // pair 6: nw is shared by the coroutine (A) and the callback (B): both receive v2
                VF_ASSERT(c.nw.n == 2 && c.nw.vals[0] == c.v2 && c.nw.vals[1] == c.v2, "C15 two listeners subscribing concurrently are both on the list (no lost listener)");
            }
            VF_ASSERT(!c.nw.finished && !c.pre[0].finished, "C15 no cancellation while a strong handle is alive");
            c.sg.reset();
            if (new_is_coro) VF_ASSERT(c.nw.finished && c.nw.canceled == 1, "C15 last handle gone: the awaiting coroutine gets await_canceled_exception");
        }
        if (pre >= 1) VF_ASSERT(c.pre[0].finished && c.pre[0].canceled == 1, "C15 last handle gone: the awaiting coroutine gets await_canceled_exception");
        vf_out(c.nw.n * 10 + c.nw.canceled); vf_out(c.pre[0].n * 10 + c.pre[1].n);
    }
    VF_ASSERT(vf_live_allocs() == base, "C15 callback awaiters, coroutine frames and the shared state are all released (allocation balance)");
    vf_choice_end();
    vf_witness();
}
