// C12 - scheduler: never early, in deadline order, cancel hits exactly its target.
// Unit h_manual: manual-mode histories over sleep_until/schedule(tp,id), cancel(id[,e]), remove(id), get_expired(now),
// then destruction, against a reference multiset model (tp, id, state) kept per issued sleep.
// Operation kinds and the identifier used by each operation are skeleton inputs; time points and `now` are symbolic (0..7).
// One translation unit per unit (-DC12_MANUAL / -DC12_INTERVAL / -DC12_START) keeps the goto binaries small.
#if !defined(C12_MANUAL) && !defined(C12_INTERVAL) && !defined(C12_START)
#define C12_ALL
#endif
#include "vf.h"
#include "vf_cocls.h"
#include <cocls/scheduler.h>
using namespace cocls;

namespace {
using tp_t = std::chrono::system_clock::time_point;
inline tp_t TP(int v) { return tp_t(std::chrono::system_clock::duration(v)); }

constexpr int MAXS = 8;          // sleeps per history
constexpr int NIDS = 3;
const char idtab[NIDS + 1] = {0, 0, 0, 0};
inline scheduler::ident ID(int k) { return &idtab[k]; }

// expected / observed state of a sleep's future
enum { S_NONE = 0, S_PENDING = 1, S_VALUE = 2, S_CANCELED = 3, S_NOVALUE = 4, S_OTHER = 5, S_TAG = 100 };

struct Slot {
    future<void> f;
    int st = S_NONE;
    int tp = 0;
    int id = 0;
};

// what the future shows (no blocking call is made: value() is only used on ready futures)
int observe(future<void> &f) {
    if (f.pending()) return S_PENDING;
    if (!f.ready()) return S_NONE;
    bool hv = f.has_value();
    try {
        f.value();
        return S_VALUE;
    } catch (const vf_tag_exc &e) {
        return S_TAG + e.tag;
    } catch (const await_canceled_exception &) {
        return hv ? S_CANCELED : S_NOVALUE;
    } catch (...) {
        return S_OTHER;
    }
}

struct Model {
    Slot s[MAXS];
    int n = 0;

    bool has_pending_id(int id) const {
        bool r = false;
        for (int i = 0; i < n; ++i) r = r || (s[i].st == S_PENDING && s[i].id == id);
        return r;
    }
    bool any_pending() const {
        bool r = false;
        for (int i = 0; i < n; ++i) r = r || (s[i].st == S_PENDING);
        return r;
    }
    int min_pending_tp() const {      // only meaningful when any_pending()
        int m = 1 << 30;
        for (int i = 0; i < n; ++i) if (s[i].st == S_PENDING && s[i].tp < m) m = s[i].tp;
        return m;
    }
    // futures the model keeps pending but which are not pending any more: count and (last) index
    int changed(int &which) {
        int c = 0;
        for (int i = 0; i < n; ++i) if (s[i].st == S_PENDING && !s[i].f.pending()) { ++c; which = i; }
        return c;
    }
    void check_quiet() {
        for (int i = 0; i < n; ++i) {
            VF_ASSERT(s[i].f.pending() == (s[i].st == S_PENDING), "C12 every sleep is pending exactly as long as the model keeps it pending (no early, lost or duplicate completion)");
        }
    }
};
}

#if defined(C12_MANUAL) || defined(C12_ALL)
// skeleton: api (0 sleep_until, 1 schedule(id, promise, tp)), nops, then per op: kind [, id]
//   kind 0 sleep(tp,id)  1 cancel(id)  2 cancel(id, e)  3 remove(id)  4 get_expired(now)
extern "C" void h_manual() {
    vf_warmup();
    const int api = vf_choice(2);
    const int nops = vf_choice(MAXS + 5);
    long base = vf_live_allocs();
    {
        Model m;
        {
            scheduler sch;
            for (int step = 0; step < nops; ++step) {
                const int op = vf_choice(5);
                if (op == 0) {
                    const int id = vf_choice(NIDS);
                    const int tp = vf_choice(8);
                    VF_ASSERT(m.n < MAXS, "VF_SPEC too many sleeps in one history");
                    Slot &sl = m.s[m.n];
                    sl.tp = tp; sl.id = id;
                    if (api == 0) {
                        sl.f << [&] { return sch.sleep_until(TP(tp), ID(id)); };
                    } else {
                        sch.schedule(ID(id), sl.f.get_promise(), TP(tp));
                    }
                    sl.st = S_PENDING;
                    ++m.n;
                    int w = -1;
                    VF_ASSERT(m.changed(w) == 0, "C12 scheduling a sleep completes nothing (also with a past time point)");
                } else if (op == 1 || op == 2) {
                    const int id = vf_choice(NIDS);
                    const bool expect = m.has_pending_id(id);
                    const int tag = 10 + step;
                    bool r;
                    if (op == 1) r = sch.cancel(ID(id));
                    else r = sch.cancel(ID(id), vf_make_exc(tag));
                    VF_ASSERT(r == expect, "C12 cancel/remove(id) finds a sleep iff a pending sleep carries that id");
                    int w = -1;
                    int c = m.changed(w);
                    if (r) {
                        VF_ASSERT(c == 1, "C12 a successful cancel completes exactly one pending sleep");
                        if (c == 1) {
                            VF_ASSERT(m.s[w].id == id, "C12 cancel(id) completes a sleep that carries that id");
                            m.s[w].st = (op == 1) ? (int)S_CANCELED : S_TAG + tag;
                        }
                    } else {
                        VF_ASSERT(c == 0, "C12 a cancel that reports false has no effect");
                    }
                    vf_out(r);
                } else if (op == 3) {
                    const int id = vf_choice(NIDS);
                    const bool expect = m.has_pending_id(id);
                    scheduler::promise p = sch.remove(ID(id));
                    const bool r = (bool)p;
                    VF_ASSERT(r == expect, "C12 cancel/remove(id) finds a sleep iff a pending sleep carries that id");
                    int w = -1;
                    VF_ASSERT(m.changed(w) == 0, "C12 remove(id) itself completes nothing");
                    if (r) {
                        p();                 // the caller owns the removed promise; resolve it with a value
                        int c = m.changed(w);
                        VF_ASSERT(c == 1, "C12 the promise returned by remove(id) belongs to exactly one pending sleep");
                        if (c == 1) {
                            VF_ASSERT(m.s[w].id == id, "C12 remove(id) returns the promise of a sleep that carries that id");
                            m.s[w].st = S_VALUE;
                        }
                    }
                    vf_out(r);
                } else {
                    const int now = vf_choice(8);
                    const bool anyp = m.any_pending();
                    const int mn = m.min_pending_tp();
                    scheduler::expired e = sch.get_expired(TP(now));
                    int w = -1;
                    VF_ASSERT(m.changed(w) == 0, "C12 get_expired itself completes nothing");
                    if (std::holds_alternative<scheduler::promise>(e)) {
                        scheduler::promise &p = std::get<scheduler::promise>(e);
                        VF_ASSERT((bool)p, "C12 get_expired never hands out an empty (cancelled) promise");
                        p();
                        int c = m.changed(w);
                        VF_ASSERT(c == 1, "C12 an expired promise belongs to exactly one pending sleep");
                        if (c == 1) {
                            VF_ASSERT(m.s[w].tp <= now, "C12 a sleep never completes before its time point");
                            VF_ASSERT(m.s[w].tp == mn, "C12 sleeps complete in time-point order (earliest pending first)");
                            m.s[w].st = S_VALUE;
                        }
                        vf_out(1);
                    } else {
                        VF_ASSERT(!anyp || mn > now, "C12 a due sleep is handed out by get_expired (not left waiting)");
                        tp_t t = std::get<tp_t>(e);
                        if (anyp) {
                            VF_ASSERT(t <= TP(mn), "C12 with nothing due get_expired reports a wake-up time not later than the earliest pending time point");
                        }
                        vf_out(anyp ? (long)t.time_since_epoch().count() : -1);
                    }
                }
                m.check_quiet();
            }
            // destroying the scheduler cancels whatever is still pending (no-value), nothing else changes
            for (int i = 0; i < m.n; ++i) if (m.s[i].st == S_PENDING) m.s[i].st = S_NOVALUE;
        }
        for (int i = 0; i < m.n; ++i) {
            int o = observe(m.s[i].f);
            VF_ASSERT(o != S_PENDING, "C12 sleeps still pending when the scheduler is destroyed are cancelled, not left hanging");
            VF_ASSERT(o == m.s[i].st, "C12 every sleep ends in the state the model predicts (value / the given exception / await_canceled / no-value)");
            vf_out(o);
        }
    }
    VF_ASSERT(vf_live_allocs() == base, "C12 nothing leaked");
    vf_choice_end();
    vf_witness();
}
#endif

// ---------------------------------------------------------------------------------------------------------------------
#if defined(C12_INTERVAL) || defined(C12_ALL)
// Unit h_interval: the interval() generator driven through its future interface with a std::stop_token.
// skeleton: nops, then per op  0 = call gen()   1 = fire the timer (get_expired(max), resolve)   2 = request_stop()
// The plan only issues gen() while the generator is idle (not started / parked at co_yield) - its documented precondition.
namespace {
enum { G_IDLE = 0, G_SLEEPING = 1, G_DONE = 2 };
enum { F_PENDING = 1, F_VALUE = 2, F_NOVALUE = 3 };
constexpr int MAXF = 6;

int observe_sz(future<std::size_t> &f) {
    if (f.pending()) return F_PENDING;
    if (!f.ready()) return 0;
    bool hv = f.has_value();
    return hv ? F_VALUE : F_NOVALUE;
}
}

extern "C" void h_interval() {
    vf_warmup();
    const int nops = vf_choice(MAXF + 1);
    long base = vf_live_allocs();
    {
        future<std::size_t> f[MAXF];
        int fexp[MAXF];
        int nf = 0;
        int state = G_IDLE;
        bool stop = false;
        std::stop_source src;
        std::optional<scheduler> sch;
        sch.emplace();
        std::optional<generator<std::size_t> > gen;
        gen.emplace(sch->interval(std::chrono::milliseconds(10), src.get_token()));
        for (int step = 0; step < nops; ++step) {
            const int op = vf_choice(3);
            if (op == 0) {
                VF_ASSERT(state == G_IDLE && nf < MAXF, "VF_SPEC gen() is only issued while the generator is idle");
                f[nf] << [&] { return (*gen)(); };
                if (stop) { fexp[nf] = F_NOVALUE; state = G_DONE; }     // stop already requested: the generator finishes
                else { fexp[nf] = F_PENDING; state = G_SLEEPING; }      // sleeps until the next tick
                ++nf;
            } else if (op == 1) {
                scheduler::expired e = sch->get_expired(tp_t::max());
                bool got = std::holds_alternative<scheduler::promise>(e);
                VF_ASSERT(got == (state == G_SLEEPING), "C12 interval(): exactly one sleep is scheduled while the generator waits for its tick, none otherwise (a cancelled sleep is gone)");
                if (got) {
                    std::get<scheduler::promise>(e)();
                    if (state == G_SLEEPING) { fexp[nf - 1] = F_VALUE; state = G_IDLE; }
                }
            } else {
                bool r = src.request_stop();
                VF_ASSERT(r == !stop, "VF_SPEC request_stop reports the first request");
                if (!stop) {
                    stop = true;
                    if (state == G_SLEEPING) { fexp[nf - 1] = F_NOVALUE; state = G_DONE; }   // the pending sleep is cancelled, the generator ends
                }
            }
            for (int i = 0; i < nf; ++i) {
                VF_ASSERT(observe_sz(f[i]) == fexp[i], "C12 interval(): tick delivered after its sleep expires; stop request cancels the pending sleep and ends the generator (no value)");
            }
            VF_ASSERT(gen->done() == (state == G_DONE), "C12 interval(): the generator is finished exactly after a stop request took effect");
            vf_out(state * 10 + (nf ? observe_sz(f[nf - 1]) : 0));
        }
        if (state == G_SLEEPING) {
            // the generator must not be destroyed while it sleeps; destroying the scheduler cancels the sleep and the generator ends
            sch.reset();
            fexp[nf - 1] = F_NOVALUE;
            VF_ASSERT(observe_sz(f[nf - 1]) == F_NOVALUE, "C12 sleeps still pending when the scheduler is destroyed are cancelled, not left hanging");
            VF_ASSERT(gen->done(), "C12 interval(): the generator ends when its sleep is cancelled by the scheduler's destruction");
            gen.reset();
        } else {
            gen.reset();
            sch.reset();
        }
        for (int i = 0; i < nf; ++i) {
            VF_ASSERT(observe_sz(f[i]) == fexp[i], "C12 interval(): futures keep their outcome after the generator and the scheduler are gone");
            vf_out(observe_sz(f[i]));
        }
    }
    VF_ASSERT(vf_live_allocs() == base, "C12 nothing leaked");
    vf_choice_end();
    vf_witness();
}
#endif

// ---------------------------------------------------------------------------------------------------------------------
#if defined(C12_START) || defined(C12_ALL)
// Unit h_start: single-thread start(awaitable) under the virtual clock (rt/rt.h: system_clock::now() reads it, a timed
// condition-variable wait advances it to the deadline; waiting without deadline = blocks forever).
// skeleton: rel (0 sleep_until(tp), 1 sleep_for(tp - t0)), t0 (initial clock), n (sleepers), per sleeper: tp, action after wake-up (0 none, 1..n cancel sleeper k-1,
//           n+1 cancel an id nobody uses), work (clock ticks the sleeper burns after waking = a busy scheduling thread)
extern "C" {
long vf_clock_now(void);
void vf_clock_set(long ns);
long vf_clock_waits(void);
}
namespace {
constexpr int MAXN = 3;
enum { W_NONE = 0, W_EXPIRED = 1, W_CANCELED = 2, W_OTHER = 3 };
struct Ctx {
    scheduler *sch = nullptr;
    int n = 0, rel = 0, t0 = 0;
    int tp[MAXN] = {}, act[MAXN] = {}, work[MAXN] = {};
    long woke[MAXN] = {};          // virtual time at wake-up
    int how[MAXN] = {};
    int cnt[MAXN] = {};
    int seq[MAXN] = {};
    int nseq = 0;
    int cres[MAXN] = {-1, -1, -1}; // result of the cancel issued by sleeper i
};

async<void> sleeper(Ctx &c, int i) {
    try {
        if (c.rel) co_await c.sch->sleep_for(std::chrono::system_clock::duration(c.tp[i] - c.t0), ID(i));   // = now() + d: all sleepers start at clock t0
        else co_await c.sch->sleep_until(TP(c.tp[i]), ID(i));
        c.how[i] = W_EXPIRED;
    } catch (const await_canceled_exception &) {
        c.how[i] = W_CANCELED;
    } catch (...) {
        c.how[i] = W_OTHER;
    }
    c.woke[i] = vf_clock_now();
    c.cnt[i]++;
    c.seq[i] = ++c.nseq;
    if (c.how[i] == W_EXPIRED) {      // script after a regular wake-up: burn time, then optionally cancel somebody
        if (c.work[i]) vf_clock_set(vf_clock_now() + c.work[i]);
        if (c.act[i] > 0) {
            bool r = c.sch->cancel(ID(c.act[i] - 1));
            c.cres[i] = r;
        }
    }
    co_return;
}

future<int> mainco(Ctx &c) {
    future<void> f[MAXN];
    for (int i = 0; i < c.n; ++i) f[i] << [&] { return sleeper(c, i).start(); };
    for (int i = 0; i < c.n; ++i) co_await f[i];
    co_return 42;
}
}

extern "C" void h_start() {
    vf_warmup();
    Ctx c;
    c.rel = vf_choice(2);
    const int t0 = c.t0 = vf_choice(8);
    c.n = vf_choice(MAXN + 1);
    for (int i = 0; i < c.n; ++i) {
        c.tp[i] = vf_choice(8);
        c.act[i] = vf_choice(c.n + 2);
        c.work[i] = vf_choice(4);
    }
    vf_clock_set(t0);
    long base = vf_live_allocs();
    {
        scheduler sch;
        c.sch = &sch;
        int r = sch.start(mainco(c));
        VF_ASSERT(r == 42, "C12 start(awaitable) returns the awaitable's value");
        // reference run of a single scheduling thread under the virtual clock: pending sleeps wake in time-point order; the
        // clock at a wake-up is max(time point, time the thread became free); a cancel resumes its target immediately.
        bool pend[MAXN];
        for (int i = 0; i < c.n; ++i) pend[i] = true;
        long clk = t0;
        for (int round = 0; round < c.n; ++round) {
            // the real code decides which of several equal time points goes first: follow its choice, but check it is a minimal one
            int w = -1;
            for (int i = 0; i < c.n; ++i) if (pend[i] && c.how[i] == W_EXPIRED && (w < 0 || c.seq[i] < c.seq[w])) w = i;
            if (w < 0) break;
            for (int i = 0; i < c.n; ++i) {
                if (pend[i] && i != w) {
                    VF_ASSERT(c.tp[w] <= c.tp[i], "C12 sleepers complete in time-point order (virtual clock)");
                }
            }
            if (c.tp[w] > clk) clk = c.tp[w];
            VF_ASSERT(c.woke[w] >= c.tp[w], "C12 a sleep never completes before its time point (virtual clock)");
            VF_ASSERT(c.woke[w] == clk, "C12 an otherwise idle scheduling thread wakes a sleeper at its time point, not later (virtual clock)");
            pend[w] = false;
            clk += c.work[w];
            if (c.act[w] > 0) {
                const int k = c.act[w] - 1;
                const bool target_pending = (k < c.n) && pend[k];
                VF_ASSERT(c.cres[w] == (target_pending ? 1 : 0), "C12 cancel(id) from a running coroutine reports true iff a pending sleep carries that id");
                if (target_pending) {
                    VF_ASSERT(c.how[k] == W_CANCELED, "C12 a cancelled sleeper observes await_canceled_exception");
                    VF_ASSERT(c.woke[k] == clk, "C12 a cancelled sleeper is resumed by the cancel");
                    pend[k] = false;
                }
            }
        }
        for (int i = 0; i < c.n; ++i) {
            VF_ASSERT(c.cnt[i] == 1, "C12 every sleeper is resumed exactly once");
            VF_ASSERT(!pend[i], "C12 every sleeper is accounted for by the reference run");
            vf_out(c.how[i] * 1000 + c.woke[i]);
            vf_out(c.cres[i]);
        }
        vf_out(vf_clock_now());
    }
    VF_ASSERT(vf_live_allocs() == base, "C12 nothing leaked");
    vf_choice_end();
    vf_witness();
}

// Unit h_start_mt: the scheduling thread against another thread that schedules a sleep (thread / pool mode reduced to two parties): the worker loop of
// start(awaitable) runs under the virtual clock with one local sleeper (deadline D); the complete sleep_until(e) of another thread is placed
//   place 0: in front of the k-th acquisition of the scheduler mutex made by the scheduling thread (vf_inject_arm), k = 1..K
//   place 1: while the scheduling thread sits in its timed wait (vf_cwait_arm): schedule() must wake it when the new entry is the earliest
// The late sleep is observed through a callback awaiter that records the virtual time of its resolution.
namespace {
struct LateCb : awaiter {
    long woke = -1; int cnt = 0; int how = W_NONE;
    future<void> *f = nullptr; promise<void> done;
    static suspend_point<void> fn(awaiter *a, void *) noexcept {
        LateCb *self = static_cast<LateCb *>(a);
        self->woke = vf_clock_now(); self->cnt++;
        try { self->f->value(); self->how = W_EXPIRED; } catch (const await_canceled_exception &) { self->how = W_CANCELED; } catch (...) { self->how = W_OTHER; }
        return self->done();
    }
    LateCb() { set_resume_fn(&fn); }
};
struct MtCtx {
    scheduler *sch = nullptr;
    int D = 0, e = 0;
    long woke_local = -1; int how_local = W_NONE;
    int scheduled = 0; long inj_clk = -1;
    int main_done = 0, after_main = 0;   // the other thread may come when the awaitable has already finished: its sleep is then cancelled by the scheduler's destruction
    future<void> late, late_done;
    LateCb cb;
};
MtCtx *mt;
void other_thread_schedules() {
    MtCtx &c = *mt;
    c.scheduled = 1; c.inj_clk = vf_clock_now(); c.after_main = c.main_done;
    c.late << [&] { return c.sch->sleep_until(TP(c.e), ID(2)); };
    c.cb.f = &c.late;
    if (!co_awaiter<future<void>>(c.late).subscribe(&c.cb)) LateCb::fn(&c.cb, nullptr);
}
async<void> local_sleeper(MtCtx &c) {
    try { co_await c.sch->sleep_until(TP(c.D), ID(0)); c.how_local = W_EXPIRED; } catch (...) { c.how_local = W_OTHER; }
    c.woke_local = vf_clock_now();
}
future<int> mainco_mt(MtCtx &c) {
    if (c.D) { future<void> f; f << [&] { return local_sleeper(c).start(); }; co_await f; }
    else co_await c.late_done;            // (place 1 only: the heap is empty until the other thread schedules)
    if (c.scheduled && c.cb.cnt == 0) co_await c.late_done;
    c.main_done = 1;
    co_return 42;
}
}
extern "C" void h_start_mt() {
    vf_warmup();
    MtCtx c; mt = &c;
    const int place = vf_choice(2);
    c.D = 4 * vf_choice(3);               // 0 = no local sleeper (place 1 only), 4, 8
    c.e = 2 + 2 * vf_choice(5);           // 2, 4, 6, 8, 10
    const int k = 1 + vf_choice(8);
    vf_clock_set(1);
    long base = vf_live_allocs();
    {
        scheduler sch; c.sch = &sch;
        c.late_done << [&] { return future<void>([&](promise<void> p) { c.cb.done = std::move(p); }); };
        if (place == 0) vf_inject_arm(&other_thread_schedules, k); else vf_cwait_arm(&other_thread_schedules);
        int r = sch.start(mainco_mt(c));
        VF_ASSERT(r == 42, "C12 start(awaitable) returns the awaitable's value");
        if (place == 0) vf_inject_disarm(); else vf_cwait_disarm();
        if (c.D) {
            VF_ASSERT(c.how_local == W_EXPIRED && c.woke_local >= c.D, "C12 a sleep never completes before its time point (virtual clock)");
            VF_ASSERT(c.woke_local == c.D, "C12 an otherwise idle scheduling thread wakes a sleeper at its time point, not later (virtual clock)");
        }
        if (c.scheduled && !c.after_main) {
            VF_ASSERT(c.cb.cnt == 1 && c.cb.how == W_EXPIRED, "C12 a sleep scheduled from another thread completes exactly once");
            VF_ASSERT(c.cb.woke >= c.e, "C12 a sleep never completes before its time point (virtual clock)");
            VF_ASSERT(c.cb.woke == (c.e > c.inj_clk ? c.e : c.inj_clk),
                      "C12 a sleep scheduled from another thread is woken at its time point although the scheduling thread had already decided to wait for a later one");
        }
        vf_out(c.scheduled); vf_out(c.cb.woke); vf_out(c.woke_local);
        if (!c.scheduled) c.cb.done(drop);
    }
    if (c.after_main) VF_ASSERT(c.cb.cnt == 1 && c.cb.how == W_CANCELED, "C12 sleeps still pending when the scheduler is destroyed are cancelled rather than left hanging");
    VF_ASSERT(vf_live_allocs() == base, "C12 nothing leaked");
    vf_choice_end();
    vf_witness();
}
#endif
