// C16 (publisher thread against a subscriber thread, interleaved at lock-region granularity).
// A caught-up subscriber awaits next() from a coroutine; an operation of the publisher's thread (publish one, publish a batch,
// close, kick) is injected in front of the k-th mutex acquisition of that next() (await_ready / await_suspend / await_resume
// each take the queue mutex), k = 1..3, or happens after next() has parked. The received sequence must satisfy the property
// statement for every such interleaving.
#include "vf_cocls.h"
#include <cocls/publisher.h>
#include <cocls/async.h>
using namespace cocls;

namespace {
constexpr int MAXS = 8, MAXL = 8;
constexpr long END = -1;
struct Ctx {
    publisher<long> *pub; subscriber<long> *sub;
    long stream[MAXS]; int nstream = 0;
    long log[MAXL]; int nlog = 0;
    int closed = 0, kicked = 0;
    long vals[MAXS]; int nv = 0;
    int reading = 0;
};
Ctx *cx;
int bkind;

void pub_op(int kind) {
    Ctx &c = *cx;
    if (kind == 0) { long v = c.vals[c.nv++]; c.stream[c.nstream++] = v; c.pub->publish(v); }
    else if (kind == 1) { long v[2] = {c.vals[c.nv], c.vals[c.nv + 1]}; c.nv += 2; c.stream[c.nstream++] = v[0]; c.stream[c.nstream++] = v[1]; c.pub->publish(&v[0], &v[2]); }
    else if (kind == 2) { c.closed = 1; c.pub->close(); }
    else { c.kicked = 1; c.pub->kick(c.sub); }
}
void injected() { vf_other_thread other; pub_op(bkind); }     // the publisher thread has its own (normal-mode) coroutine-queue state

async<void> reader() {
    Ctx &c = *cx;
    c.reading = 1;
    bool b = co_await c.sub->next();
    c.log[c.nlog++] = b ? c.sub->value() : END;
    c.reading = 0;
}
}

bool g_ahead = false;      // entry h_pub_conc_ahead: one published value is still unread when next() is awaited (await_ready() moves onto it, await_resume() fetches it)
void pub_conc();
extern "C" void h_pub_conc() { g_ahead = false; pub_conc(); }
extern "C" void h_pub_conc_ahead() { g_ahead = true; pub_conc(); }
void pub_conc() {
    vf_warmup();
    const int mode = vf_choice(3);
    const int cfg = vf_choice(3);
    const int n0 = vf_choice(3);
    long base = vf_live_allocs();
    {
        Ctx c; cx = &c;
        for (int i = 0; i < MAXS; i++) { c.vals[i] = nondet_long(); VF_ASSUME(c.vals[i] != END); }
        for (int i = 0; i < MAXS; i++) for (int j = i + 1; j < MAXS; j++) VF_ASSUME(c.vals[i] != c.vals[j]);
        const std::size_t maxq = cfg == 0 ? std::numeric_limits<std::size_t>::max() : cfg == 1 ? 1 : 2;
        {
            publisher<long> pub(maxq, 1); c.pub = &pub;
            {
                subscriber<long> sub(pub, (subscribtion_type)mode); c.sub = &sub;
                // prefix: n0 values published and consumed one by one (the subscriber is caught up)
                for (int i = 0; i < n0; i++) {
                    pub_op(0);
                    bool r = sub.next_ready();
                    c.log[c.nlog++] = r ? sub.value() : END;
                }
                if (g_ahead) pub_op(0);
                bkind = vf_choice(4);
                const int k = 1 + vf_choice(4);
                vf_inject_arm(&injected, k);
                reader().detach();                      // runs until it finishes or parks in next()
                if (vf_inject_pending()) { vf_inject_disarm(); injected(); }     // the publisher acts after the reader parked
                VF_ASSERT(!c.reading, "C16 a subscriber parked in next() was not woken by publish / close / kick");
                // read on: two more polls, unless the subscriber has already been told that the stream ended
                // (what next() does after an end indication is outside the property)
                for (int i = 0; i < 2; i++) {
                    bool ended = false;
                    for (int j = 0; j < c.nlog; j++) if (c.log[j] == END) ended = true;
                    if (ended) break;
                    bool r = sub.next_ready();
                    if (r) c.log[c.nlog++] = sub.value();
                    else if (c.closed || c.kicked) { c.log[c.nlog++] = END; }
                }
                // ---- the property, on the received sequence
                int firstend = -1;
                for (int i = 0; i < c.nlog; i++) if (c.log[i] == END && firstend < 0) firstend = i;
                int upto = firstend < 0 ? c.nlog : firstend;
                int last = -1;
                for (int i = 0; i < upto; i++) {
                    int p = -1;
                    for (int s = 0; s < c.nstream; s++) if (c.stream[s] == c.log[i]) p = s;
                    VF_ASSERT(p >= 0, "C16 a subscriber received a value that was never published");
                    if (mode == 0) VF_ASSERT(p == last + 1, "C16 all_values subscriber: received values are not a contiguous, duplicate-free, in-order run of the stream");
                    else VF_ASSERT(p > last, "C16 skipping subscriber: positions are not strictly increasing");
                    last = p;
                }
                if (firstend >= 0 && mode == 0) {
                    // justified only if closed and drained, kicked, or more than max behind
                    bool drained = c.closed && last == c.nstream - 1;
                    bool lagging = (std::size_t)(c.nstream - 1 - last) > maxq;
                    VF_ASSERT(drained || c.kicked || lagging, "C16 all_values subscriber: end of stream without close-and-drained, kick or lag beyond the maximum");
                }
                vf_out(c.nlog * 100 + (firstend < 0 ? 99 : firstend));
            }
        }
    }
    VF_ASSERT(vf_live_allocs() == base, "C16 nothing leaked");
    vf_choice_end();
    vf_witness();
}
