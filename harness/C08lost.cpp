// C08 - no lost request while several requests pile up around a release (E2 scenario, 3 threads).
// The owner (vf_setup) releases in thread 1 and comes straight back as a requester; threads 2 and 3 request as well. Requests use
// the awaiter protocol (ready() / subscribe(callback awaiter)) and nobody releases afterwards, so at the end exactly one party owns the
// mutex and every other request must still be registered where the next unlock() will find it (request stack or FIFO queue) -
// a request that is on neither list can never be granted. The lists are read through a subclass for observation only.
#include "vf2.h"
#include <cocls/mutex.h>
using namespace cocls;

struct M : mutex {
    using mutex::ready; using mutex::subscribe; using mutex::_requests; using mutex::_queue; using mutex::doorman;
};
static M mx;
static mutex::ownership own0;
struct Cb : awaiter {
    int resumed = 0;
    static suspend_point<void> fn(awaiter *a, void *) noexcept { static_cast<Cb *>(a)->resumed++; return {}; }
    Cb() { set_resume_fn(&fn); }
};
static Cb cb[4];
static int owns[4], queued[4];

static __attribute__((always_inline)) inline void request(int me) {
    if (mx.ready()) { owns[me] = 1; return; }
    if (mx.subscribe(&cb[me])) queued[me] = 1; else owns[me] = 1;
}
extern "C" void vf_setup() { own0 = mx.try_lock(); }
extern "C" void vf_thread_1() { own0.release(); request(1); }
extern "C" void vf_thread_2() { request(2); }
extern "C" void vf_thread_3() { request(3); }

static __attribute__((noinline)) bool reachable(awaiter *w) {
    awaiter *p = mx._requests.load();
    for (int i = 0; i < 4 && p && p != M::doorman(); i++) { if (p == w) return true; p = p->_next; }
    p = mx._queue;
    for (int i = 0; i < 4 && p; i++) { if (p == w) return true; p = p->_next; }
    return false;
}
extern "C" void vf_check() {
    int owners = 0;
    for (int i = 1; i <= 3; i++) {
        vf_assert(owns[i] + queued[i] == 1, "C08 a request neither acquired the mutex nor was queued");
        vf_assert(cb[i].resumed <= 1, "C07 a queued request was resumed more than once");
        vf_assert(!(owns[i] && cb[i].resumed), "C07 a request that acquired the mutex directly was resumed as well");
        owners += owns[i] + cb[i].resumed;
    }
    vf_assert(owners == 1, "C07 not exactly one party owns the mutex after one release and three requests");
    for (int i = 1; i <= 3; i++)
        if (queued[i] && !cb[i].resumed)
            vf_assert(reachable(&cb[i]), "C08 a registered lock request is on neither the request stack nor the FIFO queue (it can never be granted)");
    vf_reach("C08 lost3 check reached");
}
