// C09 - awaitable queue: each item delivered exactly once, in order.
// History harness: a skeleton vector selects the operation kinds (push / pop / unblock_pop), then the queue is
// destroyed; pushed values and exception identities are symbolic. A reference model (item FIFO, waiting-pop FIFO)
// predicts the state of every pop future after every step; the real cocls::queue must agree.
// Every pop that has to wait additionally carries a counting callback awaiter (completion is signalled exactly once).
// Variants: queue<int>, queue<void> (counting semaphore), queue<int> with single_item_queue as consumer queue,
// and a real coroutine as the single consumer.
#include "vf_cocls.h"
#include <cocls/queue.h>
#include <cocls/async.h>
#include <type_traits>
using namespace cocls;

namespace {
constexpr int MAXN = 8;

enum Expect { E_NONE = 0, E_PENDING, E_VALUE, E_EXC, E_CANCELED };
enum Got { G_VALUE = 0, G_TAG, G_CANCELED, G_OTHER };

// callback awaiter: counts how many times it has been resumed
struct CountAwaiter : awaiter {
    int hits = 0;
    CountAwaiter() { set_resume_fn(&on_resume, nullptr); }
    static suspend_point<void> on_resume(awaiter *me, void *) noexcept {
        ++static_cast<CountAwaiter *>(me)->hits;
        return {};
    }
};

template<typename T> struct PopSlot {
    future<T> f;
    CountAwaiter aw;
    bool subscribed = false;
    int exp = E_NONE;
    int val = 0;           // expected value (E_VALUE) or exception tag (E_EXC)
};

// what a ready future carries: value / tagged exception / await_canceled_exception / anything else
template<typename T> int classify(future<T> &f, int &payload) {
    try {
        if constexpr (std::is_void_v<T>) { f.value(); payload = 0; }
        else payload = f.value();
        return G_VALUE;
    } catch (const vf_tag_exc &e) { payload = e.tag; return G_TAG; }
    catch (const await_canceled_exception &) { return G_CANCELED; }
    catch (...) { return G_OTHER; }
}

template<typename T> void check_slot(PopSlot<T> &s) {
    int payload = 0;
    switch (s.exp) {
    case E_NONE: break;
    case E_PENDING:
        VF_ASSERT(s.f.pending(), "C09 a pop on an empty queue stays pending until push / unblock_pop / destruction");
        VF_ASSERT(s.aw.hits == 0, "C09 a waiting pop is not signalled early");
        break;
    case E_VALUE:
        VF_ASSERT(s.f.ready(), "C09 a pop the model completed is ready (no lost item / lost wake-up)");
        VF_ASSERT(classify(s.f, payload) == G_VALUE, "C09 completed pop carries a value");
        if constexpr (!std::is_void_v<T>)
            VF_ASSERT(payload == s.val, "C09 pop delivers exactly the oldest undelivered item (order, no loss, no duplicate)");
        VF_ASSERT(s.aw.hits == (s.subscribed ? 1 : 0), "C09 a waiting pop is signalled exactly once");
        break;
    case E_EXC:
        VF_ASSERT(s.f.ready(), "C09 unblocked pop is ready");
        VF_ASSERT(classify(s.f, payload) == G_TAG && payload == s.val, "C09 unblock_pop delivers exactly the given exception to the oldest waiting pop");
        VF_ASSERT(s.aw.hits == 1, "C09 unblocked pop is signalled exactly once");
        break;
    case E_CANCELED:
        VF_ASSERT(s.f.ready(), "C09 destruction of the queue resolves waiting pops");
        VF_ASSERT(classify(s.f, payload) == G_CANCELED, "C09 destruction reports await_canceled_exception");
        VF_ASSERT(s.aw.hits == 1, "C09 cancelled pop is signalled exactly once");
        break;
    }
}

// read-only view of the two protected containers (no behaviour added)
template<typename Q> struct Peek : Q {
    bool items_empty() { return this->_queue.empty(); }
    bool waiters_empty() { return this->_awaiters.empty(); }
    std::size_t waiters() { return this->_awaiters.size(); }
};

// kinds: 0 push(v) 1 pop 2 unblock_pop(e)
template<typename T, typename Q, bool single> void run_history() {
    const int nops = vf_choice(MAXN + 1);
    vf_warmup();
    long base = vf_live_allocs();
    {
        PopSlot<T> pops[MAXN];
        int npop = 0;
        int mq[MAXN], mqn = 0;     // model: undelivered items (values; for void only the count matters)
        int mw[MAXN], mwn = 0;     // model: waiting pops (index into pops[]), oldest first
        int pushed = 0, delivered = 0;
        {
            Peek<Q> q;
            for (int step = 0; step < nops; ++step) {
                int op = vf_choice(3);
                if (op == 0) {
                    int v = 0;
                    if constexpr (std::is_void_v<T>) q.push(); else { v = nondet_int(); q.push(v); }
                    ++pushed;
                    if (mwn > 0) {
                        PopSlot<T> &w = pops[mw[0]];
                        w.exp = E_VALUE; w.val = v; ++delivered;
                        for (int i = 1; i < mwn; ++i) mw[i - 1] = mw[i];
                        --mwn;
                    } else {
                        mq[mqn++] = v;
                    }
                } else if (op == 1) {
                    if (single && mwn > 0) {
                        // single_item_queue documents exactly one awaiting consumer; the plan never asks for a second one
                        VF_ASSERT(false, "VF_SPEC second concurrent waiter requested for the single_item_queue variant");
                        continue;
                    }
                    PopSlot<T> &s = pops[npop];
                    s.f << [&] { return q.pop(); };
                    if (mqn > 0) {
                        s.exp = E_VALUE; s.val = mq[0]; ++delivered;
                        for (int i = 1; i < mqn; ++i) mq[i - 1] = mq[i];
                        --mqn;
                    } else {
                        mw[mwn++] = npop;
                        s.exp = E_PENDING;
                        VF_ASSERT(s.f.pending(), "C09 a pop on an empty queue stays pending until push / unblock_pop / destruction");
                        s.subscribed = s.f.subscribe(&s.aw);
                        VF_ASSERT(s.subscribed, "C09 a pop on an empty queue stays pending until push / unblock_pop / destruction");
                    }
                    ++npop;
                } else {
                    int tag = nondet_int();
                    bool r = q.unblock_pop(vf_make_exc(tag));
                    VF_ASSERT(r == (mwn > 0), "C09 unblock_pop reports whether a waiting pop existed");
                    if (mwn > 0) {
                        PopSlot<T> &w = pops[mw[0]];
                        w.exp = E_EXC; w.val = tag;
                        for (int i = 1; i < mwn; ++i) mw[i - 1] = mw[i];
                        --mwn;
                    }
                }
                // observe everything after every step
                VF_ASSERT((int)q.size() == mqn, "C09 size() equals the number of pushed, undelivered items (count conserved)");
                VF_ASSERT((int)q.size() == pushed - delivered, "C09 size() equals the number of pushed, undelivered items (count conserved)");
                VF_ASSERT(q.empty() == (mqn == 0), "C09 empty() consistent with the model");
                VF_ASSERT(q.items_empty() || q.waiters_empty(), "C09 item queue and waiting-consumer queue are never both non-empty");
                VF_ASSERT((int)q.waiters() == mwn, "C09 every waiting pop is parked exactly once");
                for (int i = 0; i < npop; ++i) check_slot(pops[i]);
                vf_out((long)q.size() * 16 + (long)q.waiters());
            }
            for (int i = 0; i < mwn; ++i) pops[mw[i]].exp = E_CANCELED;
        }
        for (int i = 0; i < npop; ++i) {
            check_slot(pops[i]);
            int payload = 0;
            int g = classify(pops[i].f, payload);
            vf_out(pops[i].exp * 100000 + g * 1000 + (payload & 0xff));
        }
    }
    VF_ASSERT(vf_live_allocs() == base, "C09 nothing leaked (queue nodes, parked promises)");
    vf_choice_end();
    vf_witness();
}

// ---- coroutine consumer: one coroutine pops in a loop; the driver pushes / unblocks / destroys
struct ConsLog {
    int got[MAXN]; int kind[MAXN]; int n = 0;
    bool finished = false;
};

template<typename Q> async<void> consumer(Q &q, ConsLog &log, int want) {
    for (int i = 0; i < want; ++i) {
        int k = G_VALUE, v = 0;
        try { v = co_await q.pop(); }
        catch (const vf_tag_exc &e) { k = G_TAG; v = e.tag; }
        catch (const await_canceled_exception &) { k = G_CANCELED; }
        catch (...) { k = G_OTHER; }
        log.kind[log.n] = k; log.got[log.n] = v; ++log.n;
        if (k == G_CANCELED) break;
    }
    log.finished = true;
}

// kinds: 0 push(v) 1 unblock_pop(e); the consumer is started before (choice 0) or after (choice 1) the first `pre` pushes
template<typename Q> void run_coro() {
    const int want = 1 + vf_choice(MAXN - 1);      // how many pops the consumer performs
    const int pre = vf_choice(MAXN);               // pushes done before the consumer starts
    const int nops = vf_choice(MAXN + 1);          // operations after it has started
    vf_warmup();
    long base = vf_live_allocs();
    {
        ConsLog log;
        int ek[2 * MAXN], ev[2 * MAXN], en = 0;    // model: what the consumer must observe, in order
        int mq[2 * MAXN], mqh = 0, mqt = 0;        // model: undelivered items
        int popsdone = 0;                          // pops the consumer has completed (model)
        bool waiting = false;
        {
            Peek<Q> q;
            for (int i = 0; i < pre; ++i) { int v = nondet_int(); q.push(v); mq[mqt++] = v; }
            consumer(q, log, want).detach();
            // the consumer runs until it has to wait
            while (popsdone < want && mqh < mqt) { ek[en] = G_VALUE; ev[en] = mq[mqh++]; ++en; ++popsdone; }
            waiting = popsdone < want;
            for (int step = 0; step < nops; ++step) {
                int op = vf_choice(2);
                if (op == 0) {
                    int v = nondet_int();
                    q.push(v);
                    if (waiting) { ek[en] = G_VALUE; ev[en] = v; ++en; ++popsdone; waiting = popsdone < want; }
                    else mq[mqt++] = v;
                } else {
                    int tag = nondet_int();
                    bool r = q.unblock_pop(vf_make_exc(tag));
                    VF_ASSERT(r == waiting, "C09 unblock_pop reports whether a waiting pop existed");
                    if (waiting) { ek[en] = G_TAG; ev[en] = tag; ++en; ++popsdone; waiting = popsdone < want; }
                }
                VF_ASSERT(log.n == en, "C09 the consumer coroutine is resumed exactly when the model completes its pop");
                VF_ASSERT((int)q.size() == mqt - mqh, "C09 size() equals the number of pushed, undelivered items (count conserved)");
                VF_ASSERT(q.items_empty() || q.waiters_empty(), "C09 item queue and waiting-consumer queue are never both non-empty");
                VF_ASSERT((int)q.waiters() == (waiting ? 1 : 0), "C09 every waiting pop is parked exactly once");
                vf_out((long)q.size() * 16 + log.n);
            }
            if (waiting) { ek[en] = G_CANCELED; ev[en] = 0; ++en; }
        }
        VF_ASSERT(log.n == en, "C09 single consumer: number of completed pops equals the model");
        for (int i = 0; i < en && i < MAXN; ++i) {
            VF_ASSERT(log.kind[i] == ek[i], "C09 single consumer: each pop completes the way the model says (value / given exception / canceled)");
            if (ek[i] != G_CANCELED)
                VF_ASSERT(log.got[i] == ev[i], "C09 single consumer receives items in exactly the order they were pushed");
            vf_out(log.kind[i] * 1000 + (log.got[i] & 0xff));
        }
        VF_ASSERT(log.finished, "C09 consumer coroutine ran to completion (no lost wake-up)");
    }
    VF_ASSERT(vf_live_allocs() == base, "C09 nothing leaked (queue nodes, parked promises, coroutine frame)");
    vf_choice_end();
    vf_witness();
}
}

using SingleQ = queue<int, primitives::std_queue, primitives::single_item_queue>;

// One entry per translation unit build (-DVF_UNIT_x, see C09.py): the per-query load cost grows with the size of the
// goto binary, so each unit is compiled on its own. Without a define, everything is compiled.
#if !defined(VF_UNIT_QINT) && !defined(VF_UNIT_QVOID) && !defined(VF_UNIT_QSINGLE) && !defined(VF_UNIT_CORO) && !defined(VF_UNIT_CORO_SINGLE)
#define VF_UNIT_ALL
#endif
#if defined(VF_UNIT_ALL) || defined(VF_UNIT_QINT)
extern "C" void h_qint() { run_history<int, queue<int>, false>(); }
#endif
#if defined(VF_UNIT_ALL) || defined(VF_UNIT_QVOID)
extern "C" void h_qvoid() { run_history<void, queue<void>, false>(); }
#endif
#if defined(VF_UNIT_ALL) || defined(VF_UNIT_QSINGLE)
extern "C" void h_qsingle() { run_history<int, SingleQ, true>(); }
#endif
#if defined(VF_UNIT_ALL) || defined(VF_UNIT_CORO)
extern "C" void h_coro() { run_coro<queue<int>>(); }
#endif
#if defined(VF_UNIT_ALL) || defined(VF_UNIT_CORO_SINGLE)
extern "C" void h_coro_single() { run_coro<SingleQ>(); }
#endif
