// Helpers shared by harnesses that use cocls types. Not cocls code.
#pragma once
#include "vf.h"
#include <cocls/coro_queue.h>
#include <coroutine>
#include <deque>
#include <exception>

// Force the one-time allocations of the per-thread ready queue (std::deque map + first node) so that
// allocation baselines taken afterwards are stable. Stated in DESIGN.md (C20 exclusion).
inline void vf_warmup() {
    cocls::coro_queue::install_queue_and_call([] {});
}

// Exception type with a tag, to check "exactly the given exception".
struct vf_tag_exc { int tag; };
inline std::exception_ptr vf_make_exc(int tag) { return std::make_exception_ptr(vf_tag_exc{tag}); }
template<typename Fn> int vf_exc_tag(Fn &&fn) {      // -1: no exception, -2: other exception, >=0: tag
    try { fn(); } catch (const vf_tag_exc &e) { return e.tag; } catch (...) { return -2; }
    return -1;
}

// Counted RAII probe (exactly-once construction/destruction).
struct vf_probe_counts { int constructed = 0, destroyed = 0, moved = 0; };
struct vf_probe {
    vf_probe_counts *c; int v;
    vf_probe(vf_probe_counts &cc, int vv = 0) : c(&cc), v(vv) { ++c->constructed; }
    vf_probe(const vf_probe &o) : c(o.c), v(o.v) { ++c->constructed; }
    vf_probe(vf_probe &&o) noexcept : c(o.c), v(o.v) { ++c->constructed; ++c->moved; }
    vf_probe &operator=(const vf_probe &o) { v = o.v; return *this; }
    ~vf_probe() { ++c->destroyed; }
};

// Fake coroutine handles: a {resume, destroy} pair is all coroutine_handle<>::resume()/destroy() read (Itanium ABI).
extern "C" inline void vf_fake_resume(vf_fake_coro *f);
inline int vf_fake_seq = 0;
extern "C" inline void vf_fake_resume(vf_fake_coro *f) { f->resumed++; f->order = ++vf_fake_seq; }
extern "C" inline void vf_fake_destroy(vf_fake_coro *f) { f->destroyed++; }
inline std::coroutine_handle<> vf_fake_handle(vf_fake_coro &f, int id) {
    f.resume_fn = &vf_fake_resume; f.destroy_fn = &vf_fake_destroy; f.id = id; f.resumed = 0; f.destroyed = 0; f.order = 0;
    return std::coroutine_handle<>::from_address(&f);
}

// An operation that the harness performs on behalf of ANOTHER thread (injection hooks, vf.h) must see that thread's thread-local coroutine-queue state, not the
// state of the thread it interrupts: a fresh thread is in normal mode and has an empty ready queue of its own. RAII: swap the state out for the scope.
struct vf_other_thread {
    cocls::coro_queue::queue_impl *saved_inst;
    std::deque<std::coroutine_handle<> > saved_q;
    vf_other_thread() : saved_inst(cocls::coro_queue::instance) {
        cocls::coro_queue::instance = nullptr;
        saved_q.swap(cocls::coro_queue::queue_impl::instance._queue);
    }
    ~vf_other_thread() {
        __CPROVER_assert(cocls::coro_queue::instance == nullptr && cocls::coro_queue::queue_impl::instance._queue.empty(),
                         "C05 when the outermost activation returns no ready coroutine is left un-run (the other thread's operation)");
        cocls::coro_queue::queue_impl::instance._queue.swap(saved_q);
        cocls::coro_queue::instance = saved_inst;
    }
    vf_other_thread(const vf_other_thread &) = delete;
};
