// C06 - a suspend point never loses or duplicates a ready coroutine.
// Two complementary checks (DESIGN.md section 5, C06):
//  (1) h_step1 / h_step2 / h_typed: ONE operation from an ARBITRARY VALID representation state that a harness subclass
//      builds directly (count, inline or heap block of capacity 6/12/24/48, distinct fake handles), for one or two objects.
//  (2) h_hist: bounded operation histories from empty objects (so that the states of (1) are shown reachable and the
//      invariant not too weak), in normal mode and in coroutine mode, ending with everything destroyed.
// Handles are fake coroutine frames (vf_fake_coro): "resumed exactly once" is a counter per handle.
#include "vf_cocls.h"
#include <cocls/suspend_point.h>
using namespace cocls;

namespace {

constexpr int MAXH = 112;          // pool of fake coroutine frames
vf_fake_coro g_fc[MAXH];
int g_given[MAXH];                 // handed back to the caller by pop()/await_suspend (caller resumes it)

// Access to the protected representation. No behaviour is added: every operation under test is the base class's.
struct SP : suspend_point<void> {
    using B = suspend_point<void>;
    SP() = default;
    SP(SP &&o) : B(static_cast<B &&>(o)) {}
    using B::operator=;
    unsigned cf() const { return _count_flag; }
    bool heap() const { return (_count_flag & 1) != 0; }
    void **slots() { return heap() ? _ext._handles : _local._handles; }
    std::size_t cap() const { return heap() ? _ext._capacity : (std::size_t)inline_count; }
    // put the object into the state (rep, count): rep 0 = inline, 1..4 = heap block of 6,12,24,48 slots.
    // slot i gets the handle with id first_id+i: slots [0,count) are the handles the object owns, the remaining slots
    // of the block hold *decoy* handles (distinct valid frames that the object does not own and that therefore must
    // never be resumed).
    void build(int rep, int count, int first_id) {
        int c = rep == 0 ? 3 : (3 << rep);
        void **s;
        if (rep == 0) {
            s = _local._handles;
            _count_flag = (unsigned)count << 1;
        } else {
            s = new void *[c];
            _ext._handles = s;
            _ext._capacity = (std::size_t)c;
            _count_flag = ((unsigned)count << 1) | 1u;
        }
        for (int i = 0; i < c; ++i) {
            int id = first_id + i;
            s[i] = vf_fake_handle(g_fc[id], id).address();
        }
    }
};

struct TSP : suspend_point<int> {
    using suspend_point<int>::suspend_point;
    unsigned cf() const { return _count_flag; }
    bool heap() const { return (_count_flag & 1) != 0; }
    void **slots() { return heap() ? _ext._handles : _local._handles; }
    std::size_t cap() const { return heap() ? _ext._capacity : (std::size_t)inline_count; }
};

inline int cap_of(int rep) { return rep == 0 ? 3 : (3 << rep); }

// representation invariant: flag <=> heap block in use; count <= capacity; the block really has `capacity` slots
template<typename S> __attribute__((noinline)) void check_inv(S &s) {
    unsigned n = s.cf() >> 1;
    if (s.heap()) {
        std::size_t c = s.cap();
        VF_ASSERT(c >= 1 && n <= c, "C06 invariant: heap-backed suspend point has count <= capacity");
        void **p = s.slots();
        VF_ASSERT(p != nullptr, "C06 invariant: heap-backed suspend point owns a block");
        void *volatile first = p[0]; void *volatile last = p[c - 1];     // the block is live and has `capacity` slots (guarded access)
        (void)first; (void)last;
    } else {
        VF_ASSERT(n <= 3, "C06 invariant: inline suspend point holds at most 3 handles");
    }
    VF_ASSERT(s.size() == n && s.empty() == (n == 0), "C06 size()/empty() agree with the stored count");
}

int g_held[MAXH];
void held_reset(int nh) { for (int i = 0; i < nh; ++i) g_held[i] = 0; }
template<typename S> __attribute__((noinline)) void held_add(S &s, int nh) {
    unsigned n = s.cf() >> 1;
    void **p = s.slots();
    for (unsigned i = 0; i < n; ++i) {
        vf_fake_coro *f = static_cast<vf_fake_coro *>(p[i]);
        int id = f->id;
        VF_ASSERT(id >= 0 && id < nh && f == &g_fc[id], "C06 a suspend point holds only handles it was given");
        g_held[id]++;
    }
}
__attribute__((noinline)) void held_add_queue(int nh) {
    if (!coro_queue::is_active()) return;
    for (std::coroutine_handle<> h : coro_queue::instance->_queue) {
        vf_fake_coro *f = static_cast<vf_fake_coro *>(h.address());
        int id = f->id;
        VF_ASSERT(id >= 0 && id < nh && f == &g_fc[id], "C06 the ready queue holds only handles it was given");
        g_held[id]++;
    }
}
// every real handle is in exactly one place: held by an object (or the ready queue), given to the caller, or resumed
__attribute__((noinline)) void check_conserved(int nh) {
    for (int i = 0; i < nh; ++i) {
        VF_ASSERT(g_fc[i].resumed <= 1, "C06 no handle is resumed twice");
        VF_ASSERT(g_held[i] + g_given[i] + g_fc[i].resumed == 1, "C06 handle conserved: held + handed out + resumed == 1 (none lost, none duplicated)");
        VF_ASSERT(g_fc[i].destroyed == 0, "C06 a suspend point never destroys a coroutine");
    }
}
void check_decoys(int from, int to) {
    for (int i = from; i < to; ++i)
        VF_ASSERT(g_fc[i].resumed == 0 && g_fc[i].destroyed == 0, "C06 a handle the suspend point does not own is never resumed");
}
void check_all_resumed_once(int nh) {
    for (int i = 0; i < nh; ++i)
        VF_ASSERT(g_fc[i].resumed == 1, "C06 every handle handed to a suspend point is resumed exactly once");
}
void give(std::coroutine_handle<> h, int nh) {      // the caller received h and resumes it (symmetric transfer / pop user)
    vf_fake_coro *f = static_cast<vf_fake_coro *>(h.address());
    int id = f->id;
    VF_ASSERT(id >= 0 && id < nh && f == &g_fc[id], "C06 pop/await_suspend hands out a handle the suspend point was given");
    g_given[id]++;
}
void take_and_resume(std::coroutine_handle<> h) {
    vf_fake_coro *f = static_cast<vf_fake_coro *>(h.address());
    g_given[f->id]--;
    h.resume();
}
bool is_fake(std::coroutine_handle<> h, int nh) {     // is h one of the first nh fake frames?
    for (int i = 0; i < nh; ++i) if (h.address() == &g_fc[i]) return true;
    return false;
}
int pick_count(int cap) {
    // the count is a skeleton input: with a symbolic count the flag bit of the count+flag word is no longer a constant
    // for the solver's symbolic executor and every handle load fans out (measured: > 200 s against 3 s)
    return vf_choice(cap + 1);
}
} // namespace

enum Op1 { O_ADD = 0, O_MOVE, O_POP, O_CLEAR, O_DTOR, O_AWAIT, O_CLEAR_CM, O_DTOR_CM, O_AWAIT_CM, O_TYPED, O_NOPS1 };

// (1a) one operation on one object from an arbitrary valid state. Every operation is a separate non-inlined function (the
// solver front end is much faster on several small functions than on one big one).
#define NOINL __attribute__((noinline))
namespace {
struct St1 {
    int op, rep, cap, count;
    int X;                      // id of the extra handle (added handle / awaiting coroutine)
    int nh_all;                 // ids [0,count) owned, [count,cap) decoys, cap = extra
    long base, live1;
};

NOINL void op_add(SP &s, const St1 &c) {
    const int count = c.count, X = c.X, nh_all = c.nh_all;
    s << vf_fake_handle(g_fc[X], X);
    check_inv(s);
    VF_ASSERT((int)s.size() == count + 1, "C06 operator<<(handle) adds exactly one handle");
    held_reset(nh_all); held_add(s, nh_all);
    for (int i = 0; i < count; ++i) { VF_ASSERT(g_held[i] == 1 && g_fc[i].resumed == 0, "C06 operator<<(handle) keeps every handle already held, resumes nothing"); }
    VF_ASSERT(g_held[X] == 1 && g_fc[X].resumed == 0, "C06 operator<<(handle) holds the new handle exactly once");
    // allocation: a block is live iff the object is heap-backed; growth replaces, never accumulates
    VF_ASSERT(vf_live_allocs() == c.base + (s.heap() ? 1 : 0), "C06 growth frees the block it replaces (allocation balance)");
    vf_out(s.cf()); vf_out((long)s.cap());
}
NOINL void op_move(SP &s, const St1 &c) {
    const int count = c.count, nh_all = c.nh_all;
    SP t(std::move(s));
    check_inv(t); check_inv(s);
    VF_ASSERT(s.cf() == 0, "C06 moved-from suspend point is empty");
    VF_ASSERT((int)t.size() == count, "C06 move construction transfers every handle");
    held_reset(nh_all); held_add(t, nh_all); held_add(s, nh_all);
    for (int i = 0; i < count; ++i) VF_ASSERT(g_held[i] == 1 && g_fc[i].resumed == 0, "C06 move construction neither loses, duplicates nor resumes a handle");
    VF_ASSERT(vf_live_allocs() == c.live1, "C06 move construction does not allocate or free");
    vf_out(t.cf());
}                               // t destroyed: resumes everything (checked by the caller)
NOINL void op_pop(SP &s, const St1 &c) {
    const int count = c.count, nh_all = c.nh_all;
    std::coroutine_handle<> h = s.pop();
    check_inv(s);
    if (count == 0) {
        VF_ASSERT(!is_fake(h, nh_all) && h, "C06 pop() on an empty suspend point returns a no-op handle");
        VF_ASSERT(s.size() == 0, "C06 pop() on an empty suspend point leaves it empty");
        h.resume();             // must be harmless
    } else {
        give(h, count);
        VF_ASSERT((int)s.size() == count - 1, "C06 pop() removes exactly one handle");
        held_reset(nh_all); held_add(s, nh_all);
        for (int i = 0; i < count; ++i) VF_ASSERT(g_held[i] + g_given[i] == 1 && g_fc[i].resumed == 0, "C06 pop() hands out one held handle, keeps the others, resumes nothing");
        take_and_resume(h);
    }
    VF_ASSERT(vf_live_allocs() == c.live1, "C06 pop() does not allocate or free");
    vf_out(s.cf());
}
NOINL void op_clear(SP &s, const St1 &c) {
    s.clear();
    check_inv(s);
    VF_ASSERT(s.cf() == 0, "C06 clear() leaves the suspend point empty");
    check_all_resumed_once(c.count);
    VF_ASSERT(vf_live_allocs() == c.base, "C06 clear() frees the heap block");
}
NOINL void op_await(SP &s, const St1 &c) {      // co_await outside coroutine mode: everything runs inside the call, then the awaiting coroutine
    const int X = c.X;
    std::coroutine_handle<> r = s.await_suspend(vf_fake_handle(g_fc[X], X));
    check_inv(s);
    VF_ASSERT(s.cf() == 0, "C06 await_suspend leaves the suspend point empty");
    VF_ASSERT(!is_fake(r, c.nh_all) && r, "C06 await_suspend outside coroutine mode returns a no-op handle");
    r.resume();
    check_all_resumed_once(c.count);
    VF_ASSERT(g_fc[X].resumed == 1, "C06 the awaiting coroutine is resumed exactly once");
    VF_ASSERT(!coro_queue::is_active(), "C06 coroutine mode left");
    VF_ASSERT(vf_live_allocs() == c.base, "C06 await_suspend frees the heap block");
}
NOINL void op_coroutine_mode(SP &s, const St1 &c) {
    const int op = c.op, count = c.count, X = c.X, nh_all = c.nh_all;
    coro_queue::install_queue_and_call([&] {
        if (op == O_CLEAR_CM) {
            s.clear();
        } else if (op == O_DTOR_CM) {
            SP t(std::move(s));
            (void)t;            // destroyed here, in coroutine mode
        } else {
            std::coroutine_handle<> r = s.await_suspend(vf_fake_handle(g_fc[X], X));
            give(r, count);
            VF_ASSERT(g_fc[static_cast<vf_fake_coro *>(r.address())->id].resumed == 0, "C06 the handle returned for symmetric transfer was not resumed by await_suspend");
        }
        check_inv(s);
        VF_ASSERT(s.cf() == 0, "C06 consumed suspend point is empty");
        VF_ASSERT(vf_live_allocs() == c.base, "C06 consuming a suspend point frees the heap block");
        held_reset(nh_all); held_add(s, nh_all); held_add_queue(nh_all);
        for (int i = 0; i < count; ++i) VF_ASSERT(g_held[i] + g_given[i] + g_fc[i].resumed == 1, "C06 handle conserved in coroutine mode: queued + handed out + resumed == 1");
        if (op == O_AWAIT_CM) {
            VF_ASSERT(g_held[X] == 1 && g_fc[X].resumed == 0, "C06 the awaiting coroutine is queued exactly once");
            for (int i = 0; i < count; ++i) if (g_given[i]) { take_and_resume(std::coroutine_handle<>::from_address(&g_fc[i])); }
        }
    });
    check_all_resumed_once(count);
    if (op == O_AWAIT_CM) VF_ASSERT(g_fc[X].resumed == 1, "C06 the awaiting coroutine is resumed exactly once");
}
NOINL void op_typed(SP &s, const St1 &c) {
    const int count = c.count, nh_all = c.nh_all;
    int v = nondet_int();
    TSP t(std::move(s), v);
    check_inv(t); check_inv(s);
    VF_ASSERT(s.cf() == 0, "C06 suspend_point<X>(suspend_point<void>&&, v) empties the source");
    VF_ASSERT(static_cast<int>(t) == v, "C06 typed suspend point carries the value its producer supplied");
    TSP u(std::move(t));
    check_inv(u); check_inv(t);
    VF_ASSERT(t.cf() == 0, "C06 moved-from typed suspend point is empty");
    VF_ASSERT(u.await_resume() == v && static_cast<int>(u) == v, "C06 moving a typed suspend point preserves its value");
    VF_ASSERT((int)u.size() == count, "C06 typed suspend point carries every handle");
    held_reset(nh_all); held_add(u, nh_all); held_add(t, nh_all); held_add(s, nh_all);
    for (int i = 0; i < count; ++i) VF_ASSERT(g_held[i] == 1 && g_fc[i].resumed == 0, "C06 typed construction/move neither loses, duplicates nor resumes a handle");
    VF_ASSERT(vf_live_allocs() == c.live1, "C06 typed construction/move does not allocate or free");
    vf_out(v & 0xff);
}
NOINL void step1_final(const St1 &c) {
    const int op = c.op, count = c.count, cap = c.cap, X = c.X;
    // everything destroyed: owned handles resumed exactly once, decoys never, extra handle according to the operation
    check_all_resumed_once(count);
    check_decoys(count, cap);
    if (op == O_ADD || op == O_AWAIT || op == O_AWAIT_CM) VF_ASSERT(g_fc[X].resumed == 1, "C06 the added/awaiting handle is resumed exactly once");
    else VF_ASSERT(g_fc[X].resumed == 0, "C06 unrelated handle untouched");
    for (int i = 0; i < c.nh_all; ++i) VF_ASSERT(g_fc[i].destroyed == 0, "C06 a suspend point never destroys a coroutine");
    VF_ASSERT(vf_live_allocs() == c.base, "C06 nothing leaked once the suspend point is gone (allocation balance)");
    VF_ASSERT(!coro_queue::is_active(), "C06 coroutine mode left");
}
} // namespace

extern "C" void h_step1() {
    vf_warmup();
    St1 c;
    c.op = vf_choice(O_NOPS1);
    c.rep = vf_choice(5);
    c.cap = cap_of(c.rep);
    c.count = pick_count(c.cap);
    if (c.op == O_AWAIT || c.op == O_AWAIT_CM) VF_ASSUME(c.count >= 1);     // co_await calls await_suspend only when !await_ready()
    c.X = c.cap;
    c.nh_all = c.cap + 1;
    for (int i = 0; i < c.nh_all; ++i) g_given[i] = 0;
    c.base = vf_live_allocs();
    const long total0 = vf_total_allocs();
    {
        SP s;
        s.build(c.rep, c.count, 0);
        check_inv(s);
        vf_fake_handle(g_fc[c.X], c.X);
        c.live1 = vf_live_allocs();
        VF_ASSERT(c.live1 == c.base + (c.rep ? 1 : 0), "VF_SPEC state builder allocation");
        switch (c.op) {
        case O_ADD: op_add(s, c); break;
        case O_MOVE: op_move(s, c); break;
        case O_POP: op_pop(s, c); break;
        case O_CLEAR: op_clear(s, c); break;
        case O_DTOR: break;              // destruction at scope end
        case O_AWAIT: op_await(s, c); break;
        case O_CLEAR_CM: case O_DTOR_CM: case O_AWAIT_CM: op_coroutine_mode(s, c); break;
        case O_TYPED: op_typed(s, c); break;
        }
    }
    step1_final(c);
    vf_out(c.count); vf_out(vf_total_allocs() - total0);
    vf_out(g_fc[0].order); vf_out(g_fc[c.X].order);
    vf_choice_end();
    vf_witness();
}

// (1b) one merging operation on two objects from arbitrary valid states: a << std::move(b) (op 0), a = std::move(b) (op 1)
extern "C" void h_step2() {
    vf_warmup();
    const int op = vf_choice(2);
    const int repa = vf_choice(5);
    const int capa = cap_of(repa);
    const int na = pick_count(capa);
    const int repb = vf_choice(5);
    const int capb = cap_of(repb);
    const int nb = pick_count(capb);
    VF_ASSUME(na + nb <= 48);
    // ids: a owns [0,na), a's decoys [na,capa); b owns capa+[0,nb), b's decoys capa+[nb,capb)
    const int nh_all = capa + capb;
    for (int i = 0; i < nh_all; ++i) g_given[i] = 0;
    const long base = vf_live_allocs();
    {
        SP a; a.build(repa, na, 0);
        SP b; b.build(repb, nb, capa);
        check_inv(a); check_inv(b);
        if (op == 0) a << std::move(b); else a = static_cast<suspend_point<void> &&>(b);
        check_inv(a); check_inv(b);
        VF_ASSERT(b.cf() == 0, "C06 merged-from suspend point is empty");
        VF_ASSERT((int)a.size() == na + nb, "C06 merge transfers every handle");
        held_reset(nh_all); held_add(a, nh_all); held_add(b, nh_all);
        for (int i = 0; i < na; ++i) VF_ASSERT(g_held[i] == 1 && g_fc[i].resumed == 0, "C06 merge keeps every handle of the target, resumes nothing");
        for (int i = 0; i < nb; ++i) VF_ASSERT(g_held[capa + i] == 1 && g_fc[capa + i].resumed == 0, "C06 merge moves every handle of the source exactly once, resumes nothing");
        VF_ASSERT(vf_live_allocs() == base + (a.heap() ? 1 : 0), "C06 merge frees the source's block and every block it outgrows (allocation balance)");
        vf_out(a.cf()); vf_out((long)a.cap());
    }
    for (int i = 0; i < na; ++i) VF_ASSERT(g_fc[i].resumed == 1, "C06 every handle handed to a suspend point is resumed exactly once");
    for (int i = 0; i < nb; ++i) VF_ASSERT(g_fc[capa + i].resumed == 1, "C06 every handle handed to a suspend point is resumed exactly once");
    check_decoys(na, capa); check_decoys(capa + nb, capa + capb);
    VF_ASSERT(vf_live_allocs() == base, "C06 nothing leaked once the suspend points are gone (allocation balance)");
    vf_out(na); vf_out(nb);
    vf_choice_end();
    vf_witness();
}

// (1c) typed constructors that do not depend on a prior state
extern "C" void h_typed() {
    vf_warmup();
    const long base = vf_live_allocs();
    int v = nondet_int();
    int w = nondet_int();
    {
        TSP e(v);                                              // value only
        VF_ASSERT(e.cf() == 0 && static_cast<int>(e) == v, "C06 suspend_point<X>(v) is empty and carries v");
        TSP t(vf_fake_handle(g_fc[0], 0), w);                  // handle + value
        check_inv(t);
        VF_ASSERT(t.size() == 1 && t.slots()[0] == &g_fc[0], "C06 suspend_point<X>(h, v) holds exactly h");
        VF_ASSERT(t.await_resume() == w, "C06 suspend_point<X>(h, v) carries v");
        VF_ASSERT(g_fc[0].resumed == 0, "C06 construction resumes nothing");
        suspend_point<void> p(vf_fake_handle(g_fc[1], 1));    // untyped from handle
        VF_ASSERT(p.size() == 1 && !p.empty(), "C06 suspend_point(h) holds one handle");
        vf_out(t.size());
    }
    VF_ASSERT(g_fc[0].resumed == 1 && g_fc[1].resumed == 1, "C06 every handle handed to a suspend point is resumed exactly once");
    VF_ASSERT(vf_live_allocs() == base, "C06 nothing leaked");
    vf_choice_end();
    vf_witness();
}

// (1d) coro_queue::create_suspend_point(fn): the coroutines fn makes ready (they land in the ready queue) are moved into the
// returned suspend point - exactly those, each once - and the value fn returns is attached to it.
extern "C" void h_create() {
    vf_warmup();
    const int cm = vf_choice(2);            // 0: called from normal code, 1: called in coroutine mode
    const int k = vf_choice(9);             // handles fn makes ready
    const int k0 = vf_choice(3);            // handles already queued before the call (coroutine mode only)
    const int typed = vf_choice(2);
    const int v = nondet_int();
    const int nh = k0 + k;                  // ids [0,k0) queued before, [k0,k0+k) made ready by fn
    if (!cm) VF_ASSUME(k0 == 0);
    for (int i = 0; i < nh; ++i) { g_given[i] = 0; vf_fake_handle(g_fc[i], i); }
    const long base = vf_live_allocs();
    auto ready = [&] { for (int i = 0; i < k; ++i) coro_queue::resume(std::coroutine_handle<>::from_address(&g_fc[k0 + i])); };
    auto body = [&] {
        const bool in_cm = coro_queue::is_active();
        for (int i = 0; i < k0; ++i) coro_queue::resume(std::coroutine_handle<>::from_address(&g_fc[i]));
        if (typed) {
            suspend_point<int> sp = coro_queue::create_suspend_point([&] { ready(); return v; });
            TSP &t = static_cast<TSP &>(sp);
            check_inv(t);
            VF_ASSERT(static_cast<int>(sp) == v, "C06 create_suspend_point attaches the value the producer returned");
            VF_ASSERT((int)sp.size() == k, "C06 create_suspend_point collects every coroutine the function made ready");
            held_reset(nh); held_add(t, nh);
            for (int i = 0; i < k; ++i) VF_ASSERT(g_held[k0 + i] == 1 && g_fc[k0 + i].resumed == 0, "C06 create_suspend_point holds each readied coroutine exactly once, resumes nothing");
            for (int i = 0; i < k0; ++i) VF_ASSERT(g_held[i] == 0, "C06 create_suspend_point leaves coroutines queued earlier in the queue");
            if (in_cm) { held_reset(nh); held_add_queue(nh); for (int i = 0; i < nh; ++i) VF_ASSERT(g_held[i] == (i < k0 ? 1 : 0), "C06 after create_suspend_point the queue holds exactly what it held before"); }
            vf_out(sp.size());
        } else {
            suspend_point<void> sp = coro_queue::create_suspend_point([&] { ready(); });
            SP &t = static_cast<SP &>(sp);
            check_inv(t);
            VF_ASSERT((int)sp.size() == k, "C06 create_suspend_point collects every coroutine the function made ready");
            held_reset(nh); held_add(t, nh);
            for (int i = 0; i < k; ++i) VF_ASSERT(g_held[k0 + i] == 1 && g_fc[k0 + i].resumed == 0, "C06 create_suspend_point holds each readied coroutine exactly once, resumes nothing");
            for (int i = 0; i < k0; ++i) VF_ASSERT(g_held[i] == 0, "C06 create_suspend_point leaves coroutines queued earlier in the queue");
            if (in_cm) { held_reset(nh); held_add_queue(nh); for (int i = 0; i < nh; ++i) VF_ASSERT(g_held[i] == (i < k0 ? 1 : 0), "C06 after create_suspend_point the queue holds exactly what it held before"); }
            vf_out(sp.size());
        }
        // the suspend point is destroyed here: in normal mode everything runs now, in coroutine mode it is queued
    };
    if (cm) coro_queue::install_queue_and_call(body); else body();
    check_all_resumed_once(nh);
    for (int i = 0; i < nh; ++i) VF_ASSERT(g_fc[i].destroyed == 0, "C06 a suspend point never destroys a coroutine");
    VF_ASSERT(vf_live_allocs() == base, "C06 nothing leaked (allocation balance)");
    VF_ASSERT(!coro_queue::is_active(), "C06 coroutine mode left");
    for (int i = 0; i < nh; ++i) vf_out(g_fc[i].order);
    vf_choice_end();
    vf_witness();
}

// (2) bounded histories from empty objects A, B (+ move-constructed C's), then everything destroyed
enum HOp { H_ADD1_A = 0, H_ADD4_A, H_ADD1_B, H_ADD4_B, H_A_FROM_B, H_B_FROM_A, H_MOVE_C, H_POP_A, H_CLEAR_A, H_NOPS };
constexpr int HMAX = 4;

namespace {
struct Hist {
    int nops; int ops[HMAX]; int nh = 0;
    void add(SP &s, int k) {
        if (k == 1) {
            s << vf_fake_handle(g_fc[nh], nh); ++nh;
        } else {
            // a temporary built through the handle constructor and grown past the inline capacity, then merged
            suspend_point<void> t(vf_fake_handle(g_fc[nh], nh)); ++nh;
            for (int i = 1; i < k; ++i) { t << vf_fake_handle(g_fc[nh], nh); ++nh; }
            s << std::move(t);
            VF_ASSERT(t.empty(), "C06 merged-from suspend point is empty");
        }
    }
    void run(bool cm) {
        SP A, B;
        SP C[HMAX];
        int nc = 0;
        for (int step = 0; step < nops; ++step) {
            switch (ops[step]) {
            case H_ADD1_A: add(A, 1); break;
            case H_ADD4_A: add(A, 4); break;
            case H_ADD1_B: add(B, 1); break;
            case H_ADD4_B: add(B, 4); break;
            case H_A_FROM_B: A << std::move(B); VF_ASSERT(B.cf() == 0, "C06 merged-from suspend point is empty"); break;
            case H_B_FROM_A: B = static_cast<suspend_point<void> &&>(A); VF_ASSERT(A.cf() == 0, "C06 merged-from suspend point is empty"); break;
            case H_MOVE_C: { new (&C[nc]) SP(std::move(A)); ++nc; VF_ASSERT(A.cf() == 0, "C06 moved-from suspend point is empty"); break; }
            case H_POP_A: {
                std::size_t before = A.size();
                std::coroutine_handle<> h = A.pop();
                if (before == 0) { VF_ASSERT(!is_fake(h, 4 * HMAX) && h, "C06 pop() on an empty suspend point returns a no-op handle"); h.resume(); }
                else { give(h, nh); VF_ASSERT(A.size() == before - 1, "C06 pop() removes exactly one handle"); }
                break; }
            case H_CLEAR_A: A.clear(); VF_ASSERT(A.cf() == 0, "C06 clear() leaves the suspend point empty"); break;
            }
            check_inv(A); check_inv(B);
            held_reset(nh); held_add(A, nh); held_add(B, nh);
            for (int i = 0; i < nc; ++i) { check_inv(C[i]); held_add(C[i], nh); }
            held_add_queue(nh);
            check_conserved(nh);
            if (cm) for (int i = 0; i < nh; ++i) VF_ASSERT(g_fc[i].resumed == 0, "C06 in coroutine mode a discarded suspend point only queues");
            // a handle popped by the caller is resumed by the caller right away (as a symmetric transfer would)
            if (!cm) for (int i = 0; i < nh; ++i) if (g_given[i]) take_and_resume(std::coroutine_handle<>::from_address(&g_fc[i]));
            vf_out(A.cf() * 1000 + B.cf());
        }
        // A, B, C[..] destroyed here (C's reverse order, then B, then A)
    }
};
}

extern "C" void h_hist() {
    vf_warmup();
    Hist H;
    const int cm = vf_choice(2);
    H.nops = vf_choice(HMAX + 1);
    for (int i = 0; i < H.nops; ++i) H.ops[i] = vf_choice(H_NOPS);
    for (int i = 0; i < 4 * HMAX; ++i) g_given[i] = 0;
    const long base = vf_live_allocs();
    if (cm) {
        coro_queue::install_queue_and_call([&] {
            H.run(true);
            for (int i = 0; i < H.nh; ++i) if (g_given[i]) take_and_resume(std::coroutine_handle<>::from_address(&g_fc[i]));
        });
    } else {
        H.run(false);
    }
    check_all_resumed_once(H.nh);
    for (int i = 0; i < H.nh; ++i) VF_ASSERT(g_fc[i].destroyed == 0, "C06 a suspend point never destroys a coroutine");
    VF_ASSERT(vf_live_allocs() == base, "C06 nothing leaked when the count outgrew the inline capacity (allocation balance)");
    VF_ASSERT(!coro_queue::is_active(), "C06 coroutine mode left");
    vf_out(H.nh);
    for (int i = 0; i < H.nh; ++i) vf_out(g_fc[i].order);
    vf_choice_end();
    vf_witness();
}
