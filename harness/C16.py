"""C16 publisher/subscriber - plan of solver queries.

A skeleton vector is [mode, cfg, nops, op_1 .. op_nops] (see the op codes in C16.cpp).  The harness gives every op a
total meaning (an op that is not applicable in the current state is skipped and counted; a non-zero count is reported
as a harness/spec mismatch), so nothing here is trusted: the small model below only *selects* histories - it drops
the ones that would contain inapplicable operations and breaks the symmetry between the two subscriber slots.
"""

ALL, BEHIND, RECENT = 0, 1, 2
CFG = [(None, 1), (1, 1), (2, 1), (3, 2), (5, 5)]      # (max_queue_len or None=unlimited, min_queue_len)
PUB1, PUB2, CLOSE, SUBR, SUBAT, COPY, POLL, BLOCK, AWAIT, KICK, LEAVE, NOPS = 0, 1, 2, 3, 5, 9, 11, 13, 15, 17, 19, 21
MAXOPS = 9

# the confirmed defects of the unchanged tree are kept out of the broad enumeration and exercised by dedicated units,
# so that each of them shows up under one unit name with a handful of vectors (set to False to enumerate them too)
ISOLATE = False


def opname(op):
    if op == PUB1: return 'publish'
    if op == PUB2: return 'publish2'
    if op == CLOSE: return 'close'
    if op < SUBAT: return 'sub%d' % (op - SUBR)
    if op < COPY: return 'sub%d@-%d' % ((op - SUBAT) // 2, 1 + (op - SUBAT) % 2)
    if op < POLL: return 'copy->%d' % (op - COPY)
    if op < BLOCK: return 'poll%d' % (op - POLL)
    if op < AWAIT: return 'block%d' % (op - BLOCK)
    if op < KICK: return 'await%d' % (op - AWAIT)
    if op < LEAVE: return 'kick%d' % (op - KICK)
    return 'leave%d' % (op - LEAVE)


class Sub:
    __slots__ = ('active', 'kicked', 'parked', 'ended', 'c', 'hi')

    def __init__(s):
        s.active = s.kicked = s.parked = s.ended = False
        s.c = s.hi = 0

    def key(s):
        return (s.active, s.kicked, s.parked, s.ended, s.c, s.hi)


class Model:
    """what a correct publisher does, as far as it is determined by the property (used for selecting histories only)"""

    def __init__(m, mode, cfg, isolate=True):
        m.mode, m.cfg = mode, cfg
        m.maxq, m.minq = CFG[cfg]
        m.n = 0
        m.closed = False
        m.s = [Sub(), Sub()]
        m.isolate = isolate
        m.flags = set()          # which of the isolated situations the history went through

    def due(m, x):
        return x.kicked or m.closed or (x.c < m.n if m.mode == ALL else x.hi < m.n)

    def receive(m, x):
        """outcome of a next() that is due: 'value' or 'end' (a next() that is not due parks / returns nothing)"""
        if x.kicked:
            x.ended = True; return 'end'
        avail = x.c < m.n if m.mode == ALL else x.hi < m.n
        if not avail:
            x.ended = True; return 'end'          # closed and drained
        if m.mode == ALL:
            if m.maxq is not None and m.n - x.c > m.maxq:
                x.ended = True; return 'end'      # fell behind (the property allows the end here; the code takes it)
            x.c += 1
        elif m.mode == RECENT:
            x.c = m.n
        else:
            x.c += 1                              # lower bound only
        x.hi = m.n
        return 'value'

    def wake(m):
        for x in m.s:
            if x.active and x.parked:
                x.parked = False
                m.receive(x)

    def apply(m, op):
        """returns False when the harness would skip the operation (or the selection rules exclude it)"""
        if op in (PUB1, PUB2):
            if op == PUB2 and (m.mode == RECENT or (m.mode == BEHIND and m.maxq == 1)) and any(x.active and x.parked for x in m.s):
                m.flags.add('skip_parked_batch')
                if m.isolate: return False
            m.n += 1 if op == PUB1 else 2
            m.wake()
            return True
        if op == CLOSE:
            if m.closed: return False
            m.closed = True
            m.wake()
            return True
        if op < SUBAT:
            i = op - SUBR
            x = m.s[i]
            if x.active: return False
            if i == 1 and not m.s[0].active: return False       # slot symmetry
            x.__init__(); x.active = True; x.c = x.hi = m.n
            return True
        if op < COPY:
            i, k = (op - SUBAT) // 2, 1 + (op - SUBAT) % 2
            x = m.s[i]
            if x.active or k > m.n or k > m.minq: return False
            if i == 1 and not m.s[0].active: return False
            x.__init__(); x.active = True; x.c = x.hi = m.n - k
            return True
        if op < POLL:
            i = op - COPY; o = 1 - i
            x, y = m.s[i], m.s[o]
            if x.active or not y.active: return False
            if y.ended: return False                            # nothing is claimed about it: pointless
            if y.parked:
                m.flags.add('copy_parked')
                if m.isolate: return False
            x.__init__(); x.active = True; x.c = y.c; x.hi = y.hi
            return True
        if op < KICK:
            i = (op - POLL) % 2
            kind = POLL if op < BLOCK else BLOCK if op < AWAIT else AWAIT
            x = m.s[i]
            if not x.active or x.parked or x.ended: return False
            if m.mode == BEHIND and x.c < x.hi and x.hi == m.n and not (x.kicked or m.closed):
                # the position inside [c, hi] depends on what was retained: only a poll has a defined meaning
                if kind != POLL: return False
                x.c += 1
                return True
            if kind == BLOCK:
                if not m.due(x): return False
                if x.kicked:
                    m.flags.add('kick_blocking')
                    if m.isolate: return False
            if m.due(x):
                m.receive(x)
            elif kind == AWAIT:
                x.parked = True
            return True
        if op < LEAVE:
            x = m.s[op - KICK]
            if not x.active or x.kicked or x.ended: return False
            x.kicked = True
            if x.parked:
                x.parked = False
                m.receive(x)
            return True
        x = m.s[op - LEAVE]
        if not x.active or x.parked: return False
        x.active = False
        return True

    def key(m):
        return (m.n, m.closed, m.s[0].key(), m.s[1].key())


def replay(mode, cfg, ops, isolate=True):
    m = Model(mode, cfg, isolate)
    for op in ops:
        if not m.apply(op): return None
    return m


def histories(mode, cfg, maxlen, minlen=1, ops=None, after_close=False):
    """all selected histories with minlen <= length <= maxlen that subscribe at least once"""
    ops = list(range(NOPS)) if ops is None else ops
    out = []

    def rec(prefix, m):
        if len(prefix) >= minlen and any(SUBR <= o < POLL for o in prefix):
            out.append(list(prefix))
        if len(prefix) == maxlen: return
        for op in ops:
            if m.closed and op in (PUB1, PUB2) and not after_close: continue
            m2 = replay(mode, cfg, prefix + [op], ISOLATE)
            if m2 is None: continue
            rec(prefix + [op], m2)
    rec([], Model(mode, cfg, ISOLATE))
    return out


def vec(mode, cfg, ops):
    assert len(ops) <= MAXOPS
    return [mode, cfg, len(ops)] + list(ops)


S0, S1 = SUBR, SUBR + 1
AT0 = lambda k: SUBAT + (k - 1)
AT1 = lambda k: SUBAT + 2 + (k - 1)
C0, C1 = COPY, COPY + 1            # copy INTO slot 0 / 1
P0, P1, B0, B1, A0, A1, K0, K1, L0, L1 = POLL, POLL + 1, BLOCK, BLOCK + 1, AWAIT, AWAIT + 1, KICK, KICK + 1, LEAVE, LEAVE + 1

# hand-written longer histories (each is still decided for all published values); (modes, cfgs, ops)
FIXED = [
    # lag > max: the reader falls behind (an operation that does not apply in a mode/configuration is dropped, see sanitize)
    ((ALL, BEHIND, RECENT), (1,), [S0, PUB1, PUB1, PUB2, B0, B0, PUB1, B0]),
    ((ALL, BEHIND), (2,), [S0, PUB2, PUB2, P0, P0, P0, PUB1, P0]),
    ((ALL,), (4,), [S0, PUB2, PUB2, PUB1, B0, PUB1, B0, B0, B0]),
    ((ALL,), (3,), [S0, PUB2, PUB2, PUB2, A0, A0, PUB1, A0]),
    # exactly max behind: nothing may be lost
    ((ALL, BEHIND), (2,), [S0, PUB2, B0, B0, PUB2, A0, A0, A0, PUB1]),
    ((ALL,), (3,), [S0, PUB2, PUB1, B0, PUB1, B0, B0, B0, A0]),
    ((ALL,), (1,), [S0, PUB1, A0, PUB1, A0, A0, PUB1, P0, P0]),
    # closed and drained, close while parked, publish after close
    ((ALL, BEHIND, RECENT), (0,), [S0, PUB2, CLOSE, B0, B0, B0]),
    ((ALL, BEHIND, RECENT), (1,), [S0, S1, A0, A1, CLOSE]),
    ((ALL, RECENT), (2,), [S0, PUB1, CLOSE, PUB1, B0, B0, B0]),
    ((ALL,), (0,), [S0, A0, PUB1, A0, PUB1, A0, CLOSE]),
    # two readers at different speeds keep the window alive for the slower one
    ((ALL, BEHIND), (3,), [S0, S1, PUB1, B0, PUB1, B0, PUB1, B1, B1]),
    ((ALL,), (0, 2), [S0, PUB1, S1, PUB1, A0, A0, A0, A1, A1]),
    ((ALL, BEHIND, RECENT), (2,), [S0, S1, A0, A1, PUB1, A0, PUB1, B1, B0]),
    ((ALL,), (2, 3), [S0, S1, A0, PUB2, PUB1, P1, P1, P1, P0]),
    # kick: parked, not parked, the other one goes on
    ((ALL, BEHIND, RECENT), (0,), [S0, S1, A0, A1, K0, PUB1, A1, PUB1]),
    ((ALL, RECENT), (1,), [S0, S1, PUB1, K1, P1, B0, PUB1, A0, P1]),
    ((ALL,), (0,), [S0, PUB2, K0, A0, S1, PUB1, A1]),
    # copy then diverge
    ((ALL, BEHIND, RECENT), (0,), [S0, PUB2, C1, B0, B0, PUB1, A1, A1, A1]),
    ((ALL,), (3,), [S0, PUB1, B0, C1, PUB2, A1, L0, A1, A1]),
    ((ALL, BEHIND), (4,), [S0, PUB2, B0, C1, L0, C0, B0, B1, A1]),
    ((ALL,), (2,), [S0, PUB2, C1, PUB1, B1, B1, B1, P0]),
    ((ALL,), (0,), [S0, PUB1, K0, C1, PUB1, B1, B1, P0]),
    # subscribe at a retained position; slot reuse after leave
    ((ALL, BEHIND, RECENT), (3,), [PUB2, PUB1, S0, AT1(2), B1, B1, PUB1, A0, A1]),
    ((ALL,), (0, 2), [PUB2, AT0(1), B0, A0, PUB1]),
    ((ALL,), (4,), [PUB2, PUB2, AT0(2), PUB2, PUB1, B0, B0, B0]),
    ((ALL, BEHIND), (2,), [S0, S1, PUB1, L0, PUB1, S0, A0, A1, A1]),
    ((ALL,), (1,), [S0, A0, PUB1, L0, S0, S1, L0, S0, A0]),
    ((ALL, RECENT), (0,), [S0, S1, L1, L0, PUB1, S0, S1, PUB1, A1]),
    # a registration slot reused after its previous occupant was kicked (not read / read to its end / kicked while parked)
    ((ALL, BEHIND, RECENT), (0, 2), [S0, K0, L0, S0, PUB1, P0, PUB1, A0]),
    ((ALL,), (1,), [S0, S1, K1, P1, L1, S1, PUB1, B1, B0]),
    ((ALL, RECENT), (0,), [S0, A0, K0, L0, S0, A0, PUB1, P0]),
    ((ALL,), (2,), [S0, S1, K0, L0, L1, S0, S1, PUB1, P1]),
    # skipping readers, single publishes while parked
    ((BEHIND, RECENT), (1, 2), [S0, A0, PUB1, PUB2, PUB1, A0, A0, A0]),
    ((BEHIND, RECENT), (1, 3), [S0, PUB2, PUB2, P0, PUB2, P0, P0, P0]),
]

# the defects of the unchanged tree, one unit each
DEFECT_UNITS = [
    ('skip_parked_batch', 'a skipping subscriber parked in next() is resumed by a batch publish',
     [((RECENT,), (0, 2), [S0, A0, PUB2]), ((RECENT,), (0,), [S0, A0, PUB2, P0]), ((BEHIND,), (1,), [S0, A0, PUB2]),
      ((BEHIND,), (1,), [S0, A0, PUB2, P0])]),
    ('copy_parked', 'a subscriber is copied while it is parked in next()',
     [((ALL,), (0, 2), [S0, A0, C1, PUB1]), ((ALL,), (0,), [S0, A0, C1, PUB1, P1]), ((ALL,), (0,), [S0, A0, C1, PUB2, A1]),
      ((RECENT,), (0,), [S0, A0, C1, PUB1])]),
    ('kick_blocking', 'blocking next() (conversion of next() to bool) on a kicked subscriber',
     [((ALL,), (0, 2), [S0, PUB1, B0, K0, B0]), ((ALL,), (0,), [S0, PUB2, B0, K0, B0]), ((RECENT,), (0,), [S0, PUB1, B0, K0, B0])]),
]

CONCRETE = [
    (vec(ALL, 0, [S0, PUB1, P0, PUB1]), [5, 6]),
    (vec(ALL, 2, [S0, A0, PUB2, B0, CLOSE]), [7, 8]),
    (vec(ALL, 1, [S0, PUB1, PUB1, PUB2, B0, B0, PUB1, B0]), [1, 2, 3, 4, 5]),
    (vec(BEHIND, 2, [S0, S1, PUB2, PUB2, P0, P0, A1, K1]), [11, 12, 13, 14]),
    (vec(RECENT, 0, [S0, PUB2, C1, B0, PUB1, A1, A1, L0]), [21, 22, 23]),
    (vec(ALL, 3, [PUB2, PUB1, S0, AT1(2), B1, B1, PUB1, A0, A1]), [31, 32, 33, 34]),
    (vec(ALL, 0, [S0, PUB1, K0, C1, PUB1, B1, B1, P0]), [41, 42]),
]

EXTRA = ['--max-field-sensitivity-array-size', '1024']
ALPHABET = ('{publish one, publish a batch of 2, close, subscribe recent (slot i), subscribe at position n-1 / n-2 (while retained by '
            'min_queue_len), copy the other slot, next() polled / blocking (when it cannot block) / awaited by a coroutine, kick, leave}')


def unit(name, vectors, space, **kw):
    d = dict(engine='e1', name=name, tu='C16.cpp', entry='h_hist', unwind=24, timeout=300, vectors=vectors, concrete=[],
             cbmc_extra=EXTRA, space=space,
             data='every published value: unconstrained 64-bit integer (symbolic)',
             bounds='<= %d operations, <= 2 live subscribers, <= %d published values, value type long; every history ends with '
                    '~publisher and every live subscriber reading to its end' % (MAXOPS, 2 * MAXOPS),
             outside='longer histories; more than two live subscribers; publisher and subscribers on different threads (lock-region '
                     'reduction, C03); a next() that really blocks its thread; iterator interface; non-trivial value types')
    d.update(kw)
    return d


def sanitize(mode, cfg, ops, isolate):
    """the applicable part of a hand-written history: an operation that is not applicable in (mode, cfg) at its place is dropped
    (after the reader's first end indication nothing is claimed, so e.g. further reads of it disappear); where the position of a
    skip_if_behind reader is not determined, blocking / awaited reads become polls"""
    m = Model(mode, cfg, isolate)
    out = []
    for op in ops:
        for cand in (op, POLL + (op - POLL) % 2 if POLL <= op < KICK else None):
            if cand is None: continue
            m2 = replay(mode, cfg, out + [cand], isolate)
            if m2 is not None:
                out.append(cand)
                break
    return out


def fixed_vectors(entries, isolate):
    vs = []
    for modes, cfgs, ops in entries:
        for mo in modes:
            for cf in cfgs:
                v = vec(mo, cf, sanitize(mo, cf, ops, isolate))
                if v[2] >= 3 and v not in vs: vs.append(v)
    return vs


def npub(h):
    return sum(1 if o == PUB1 else 2 if o == PUB2 else 0 for o in h)


def has_at2(h):
    return any(SUBAT <= o < COPY and (o - SUBAT) % 2 == 1 for o in h)


# Which (history, configuration) pairs are run.  max_queue_len can only make a difference once more than max values have been
# published, min_queue_len only through "subscribe at position n-2"; pairs that cannot differ from an enumerated pair are not repeated:
#   (2,1): every history;  (1,1): histories publishing >= 2 values;  (3,2): histories using position n-2 or publishing >= 4 values;
#   unlimited and (5,5): short histories only (constructor path / position n-2).
def select(mode, tier):
    out = []
    L = 3 if (tier == 'quick' or mode != ALL) else 4
    lo = L if tier == 'quick' else 1
    ac = tier != 'quick'
    out += [vec(mode, 2, h) for h in histories(mode, 2, L, lo, after_close=ac)]
    L1 = L if (tier == 'quick' or mode == RECENT) else 4
    out += [vec(mode, 1, h) for h in histories(mode, 1, L1, lo, after_close=ac) if npub(h) >= 2]
    out += [vec(mode, 3, h) for h in histories(mode, 3, L, lo, after_close=ac) if has_at2(h) or npub(h) >= 4]
    if tier != 'quick':
        out += [vec(mode, 0, h) for h in histories(mode, 0, 3, 1, after_close=ac)]
        out += [vec(mode, 4, h) for h in histories(mode, 4, 3, 1, after_close=ac) if has_at2(h)]
    return out


def _akey(m, prev):
    cap = (m.maxq if m.maxq is not None else 3) + 2

    def sk(x):
        if not x.active: return ('-',)
        return (x.kicked, x.parked, x.ended, min(m.n - x.c, cap), min(m.n - x.hi, cap))
    return (min(m.n, 3), m.closed, sk(m.s[0]), sk(m.s[1]), tuple(prev))


def _run(mode, cfg, ops):
    """replay with slot-generation bookkeeping (what the previous occupant of a registration slot looked like when it left)"""
    m = Model(mode, cfg, False)
    prev = [None, None]
    for op in ops:
        info = None
        if op >= LEAVE:
            x = m.s[op - LEAVE]
            info = (x.kicked, x.ended)
        if not m.apply(op): return None
        if op >= LEAVE:
            prev[op - LEAVE] = info
    return m, prev


def cover_vectors(mode, cfg, max_prefix):
    """one step from every abstract state: breadth-first search over (published count capped at 3, closed, per subscriber slot: active /
    kicked / parked / ended / lag and skipped lag capped at max+2, how the previous occupant of the slot left); for every state its
    shortest history of <= max_prefix operations followed by every applicable single operation (selection device only)"""
    seen = {_akey(*_run(mode, cfg, [])): []}
    frontier = [[]]
    for d in range(max_prefix):
        nxt = []
        for pre in frontier:
            for op in range(NOPS):
                r = _run(mode, cfg, pre + [op])
                if r is None: continue
                k = _akey(*r)
                if k not in seen:
                    seen[k] = pre + [op]; nxt.append(pre + [op])
        frontier = nxt
    out = []
    for k, pre in seen.items():
        for op in range(NOPS):
            h = pre + [op]
            if _run(mode, cfg, h) is not None and any(SUBR <= o < POLL for o in h):
                out.append(vec(mode, cfg, h))
    return out, len(seen)


SELECTION = ('(max,min)=(2,1): every history; (1,1): the histories publishing >= 2 values; (3,2): those subscribing at position n-2 or '
             'publishing >= 4 values')


def plan(tier):
    units = []
    if tier == 'quick':
        units.append(unit('hist_all', select(ALL, tier), 'all_values x every history of exactly 3 operations over ' + ALPHABET +
                          ' that subscribes at least once (slot symmetry removed, inapplicable operations dropped) x ' + SELECTION,
                          concrete=CONCRETE[:3]))
    else:
        units.append(unit('hist_all', select(ALL, tier), 'all_values x every history of 1..4 operations over ' + ALPHABET +
                          ' that subscribes at least once (slot symmetry removed, inapplicable operations dropped; publishing after close '
                          'included) x ' + SELECTION + '; unlimited: the histories of <= 3 operations; (5,5): those of <= 3 operations '
                          'subscribing at position n-2', concrete=CONCRETE[:3]))
        units.append(unit('hist_skip', select(BEHIND, tier) + select(RECENT, tier),
                          'skip_if_behind, skip_to_recent x every history of 1..3 operations (skip_if_behind with (1,1): 1..4) over ' + ALPHABET + ' x ' + SELECTION +
                          '; unlimited: all; (5,5): those subscribing at position n-2', concrete=CONCRETE[3:5]))
    units.append(unit('fixed', fixed_vectors(FIXED, ISOLATE), '%d hand-written histories of 5..9 operations x the modes and configurations listed in C16.py '
                      '(lag > max, lag == max, closed-and-drained, close/kick while parked, copy then diverge, subscribe at a retained position, '
                      'slot reuse, skipping readers)' % len(FIXED), concrete=CONCRETE[3:]))
    if tier != 'quick':
        cv = []; ns = 0
        for mode in (ALL, BEHIND, RECENT):
            for cfg in (1, 2, 3):
                v, n = cover_vectors(mode, cfg, 3)
                cv += v; ns += n
        have = set(tuple(v) for u in units for v in u['vectors'])
        cv = [v for v in cv if tuple(v) not in have]
        units.append(unit('cover', cv, 'one step from every abstract state: 3 modes x configurations (1,1),(2,1),(3,2) x breadth-first search over the abstraction (published count capped at 3, closed, '
                          'per subscriber slot: active / kicked / parked / ended / lag capped at max+2, how the previous occupant of the slot left) to depth 3: %d states; for each its shortest '
                          'history followed by every applicable single operation over ' % ns + ALPHABET))
    for name, what, entries in DEFECT_UNITS:
        units.append(unit(name, fixed_vectors(entries, False), 'situation kept out of the enumerated units: ' + what))
    # publisher thread against subscriber thread at lock-region granularity (harness/C16conc.cpp)
    # (a batch publish on top of earlier items makes std::deque grow at the front inside the injected operation: those queries do not terminate within 15 min and are left out)
    conc = [[m, cfg, n0, b, k] for m in (0, 1, 2) for cfg in (0, 1, 2) for n0 in (0, 1, 2) for b in (0, 1, 2, 3) for k in (0, 1, 2, 3) if not (b == 1 and n0 > 0)]
    if tier == 'quick':
        conc = [v for v in conc if (v[0] == 0 and v[1] != 1 and v[2] <= 1) or (v[0] == 0 and v[1] == 1 and v[2] == 1 and v[4] in (1, 2)) or (v[0] != 0 and (v[1] + v[2] + v[3] + v[4]) % 6 == 1)]
    units.append(dict(engine='e1', name='pub_conc', tu='C16conc.cpp', entry='h_pub_conc', unwind=12, vectors=conc, timeout=900,
                      concrete=[([0, 0, 1, 0, 1], list(range(1, 9))), ([0, 1, 2, 2, 1], list(range(1, 9))), ([2, 2, 0, 1, 3], list(range(1, 9)))],
                      space=('QUICK TIER SLICE (all_values: unlimited and (2,1) with 0..1 consumed values in full, (1,1) with one consumed value and k = 2..3; skipping modes: every sixth combination) of: ' if tier == 'quick' else '') + 'mode x configuration {unlimited,(1,1),(2,1)} x caught-up subscriber after 0..2 consumed values x awaited next() with a publisher-thread operation '
                            '{publish, publish batch (only on an empty stream), close, kick} injected in front of its k-th mutex acquisition (k = 1..4; beyond the last = after it parked), then two more polls',
                      data='published values symbolic 64-bit, pairwise distinct', bounds='one subscriber operation overlapped by one publisher operation, interleaved at lock-region granularity',
                      outside='three or more overlapping operations; pre-emption inside a critical section', cbmc_extra=('--max-field-sensitivity-array-size', '1024')))
    ahead = [[m, cfg, n0, b, k] for m in (0, 1, 2) for cfg in (0, 1, 2) for n0 in (0, 1) for b in (0, 2, 3) for k in (0, 1, 2)]
    if tier == 'quick':
        ahead = [v for v in ahead if (v[0] == 0 and (v[1] != 1 or v[4] == 1)) or (v[0] != 0 and (v[1] + v[2] + v[3] + v[4]) % 6 == 1)]
    units.append(dict(engine='e1', name='pub_conc_ahead', tu='C16conc.cpp', entry='h_pub_conc_ahead', unwind=12, vectors=ahead, timeout=900,
                      concrete=[([0, 0, 1, 0, 1], list(range(1, 9))), ([0, 1, 0, 2, 1], list(range(1, 9))), ([2, 2, 1, 3, 0], list(range(1, 9)))],
                      space=('QUICK TIER SLICE (all_values: unlimited and (2,1) in full, (1,1) with k = 2; skipping modes: every sixth combination) of: ' if tier == 'quick' else '') + 'as pub_conc, but one published value is still unread when next() is awaited (await_ready() moves the subscriber onto it, await_resume() fetches it): mode x configuration x 0..1 consumed values x '
                            'publisher-thread operation {publish, close, kick} in front of the k-th mutex acquisition of that next() (k = 1..3), then two more polls',
                      data='published values symbolic 64-bit, pairwise distinct', bounds='one subscriber operation overlapped by one publisher operation, interleaved at lock-region granularity',
                      outside='batch publish onto a non-empty stream (std::deque growth at the front does not terminate in the encoding)', cbmc_extra=('--max-field-sensitivity-array-size', '1024')))
    return units


if __name__ == '__main__':
    import sys
    for t in ('quick', 'thorough'):
        us = plan(t)
        print(t, [(u['name'], len(u['vectors'])) for u in us], sum(len(u['vectors']) for u in us))
