# E2 scenarios for one future shared by resolver and waiter threads (C01 exactly-one-winner, C02 wake-ups)
KIND = {0: 'value', 1: 'drop', 2: 'exc', 3: 'destroy', 10: 'cb', 11: 'wait', 12: 'coro', 13: 'hasvalue', 14: 'poll'}


def scen(*kinds):
    d = ['NT=%d' % len(kinds)] + ['T%d_KIND=%d' % (i + 1, k) for i, k in enumerate(kinds)]
    return dict(name='_'.join(KIND[k] for k in kinds), nthreads=len(kinds), defines=d)


def resolver_scenarios(tier):
    out = []
    rs = (0, 1, 2, 3)
    for i, a in enumerate(rs):
        for b in rs[i:]:
            out.append(scen(a, b))
    if tier != 'quick':
        for a, b, c in ((0, 0, 0), (0, 1, 3), (0, 2, 3), (1, 3, 3), (0, 0, 14), (0, 1, 14), (0, 3, 10), (2, 3, 11), (0, 0, 12)):
            out.append(scen(a, b, c))
    else:
        out.append(scen(0, 0, 14))
    return out


def waiter_scenarios(tier):
    out = []
    for r in (0, 1, 2, 3):
        for w in (10, 11, 12, 13):
            out.append(scen(r, w))
    out.append(scen(0, 14))
    if tier != 'quick':
        for r, w1, w2 in ((0, 10, 10), (0, 10, 11), (0, 11, 12), (1, 12, 12), (3, 10, 12), (2, 11, 13), (0, 12, 13), (3, 11, 11)):
            out.append(scen(r, w1, w2))
    else:
        out.append(scen(0, 10, 11))
        out.append(scen(1, 12, 10))
    return out


BOUNDS = ('2 threads (quick) / 3 threads (thorough), one operation per thread plus the final promise destruction in vf_check; CAS retries and chain walks <= 3 iterations '
          '(a reachable bound-exceeded event is reported as "bound insufficient"); sequentially consistent interleavings at instruction granularity; payloads symbolic and pairwise distinct')


def plan(tier):
    return [dict(engine='e2', name='resolvers', tu='C01.cpp', mode='sc', scenarios=resolver_scenarios(tier), opts={'loop_bound': 3, 'rec_bound': 2}, timeout_s=600,
                 space='every pair (thorough: selected triples) of resolver kinds {set_value(v), set_value(drop), set_exception(e), promise destruction} on one promise object, plus a polling reader',
                 bounds=BOUNDS, outside='more than 3 threads; value types other than int (the sequential E1 half covers void / move-only / reference / counted types); weak-memory executions (C03)')]
