// Scenario interface for the E2 (multi-threaded) engine: a scenario TU defines
//   extern "C" void vf_setup();  extern "C" void vf_thread_1(); ... vf_thread_k();  extern "C" void vf_check();
// over global objects of real cocls types. Nothing here is cocls code.
#pragma once
extern "C" {
void vf_assert(int cond, const char *msg);   // property assertion (may appear in any thread and in vf_check)
void vf_reach(const char *msg);              // reachability witness: the solver must find an execution that gets here
void vf_join(void);                          // merge point: thread paths arriving with the same live state share one continuation
int nondet_int(void);
unsigned nondet_uint(void);
void __CPROVER_assume(int cond);
}
