"""helpers for harness/<ID>.py plan() functions"""
import itertools


def histories(alphabet, max_len, min_len=0):
    """all sequences over range(alphabet) with min_len <= length <= max_len"""
    for n in range(min_len, max_len + 1):
        for t in itertools.product(range(alphabet), repeat=n):
            yield list(t)
