"""C14 generator aggregator: plan of solver queries.

Skeleton vector layout (see C14.cpp run()):
  [pmode, nsrc, {n_k, kind_k0.., (first_null_k: argument variant only)} for each source, nacc, style_0..style_{nacc-1}]
"""
import itertools, random

# source script entry kinds
Y, AP, TH, RET, FOREVER = range(5)
# consumer access styles
S_NEXT, S_ITER, S_FORALL, S_FUT_HV, S_CO_NEXT, S_CO_CALL = range(6)
STYLE_NAMES = ['next()/value()', 'iterator begin/++/*', 'range-for to the end', 'gen() future + has_value()/wait()', 'co_await gen.next()', 'co_await gen()']
VOID_STYLES = [S_NEXT, S_ITER, S_FORALL, S_FUT_HV, S_CO_NEXT, S_CO_CALL]
ARG_STYLES = [S_NEXT, S_FUT_HV, S_CO_NEXT, S_CO_CALL]
ASYNC = [S_FUT_HV, S_CO_NEXT, S_CO_CALL]
MAXA, MAXIDX, MAXE = 10, 8, 4


def nvalues(script):
    n = 0
    for k in script:
        if k == Y:
            n += 1
        elif k == FOREVER:
            return None
        elif k in (TH, RET):
            break
    return n


def total_events(srcs):
    """number of accesses that reads everything including the end / the exception; None with an infinite source"""
    vals = [nvalues(s) for s in srcs]
    if any(v is None for v in vals):
        return None
    return sum(vals) + 1


class Plan:
    def __init__(self, arg):
        self.arg = arg
        self.vecs = []
        self.seen = set()
        self.n = 0

    def add(self, srcs, styles, first_null=None, pmode=None, drop=False):
        self.n += 1
        if pmode is None:
            pmode = self.n % 2
        if first_null is None:
            first_null = [(self.n + i) % 2 for i in range(len(srcs))]
        assert len(srcs) <= 4 and all(len(s) <= MAXE for s in srcs) and len(styles) <= MAXA
        v = [pmode, len(srcs)]
        for i, s in enumerate(srcs):
            v += [len(s)] + list(s) + ([first_null[i]] if self.arg else [])
        v += [len(styles)] + list(styles)
        t = tuple(v)
        if t not in self.seen:
            self.seen.add(t)
            if not drop:            # (dropped vectors still advance the alternation counters: the kept ones do not change)
                self.vecs.append(v)

    def read(self, srcs, pattern, upto=None, **kw):
        """read with the styles of `pattern` (cycled) until the end (or `upto` accesses)"""
        tot = total_events(srcs)
        n = upto if upto is not None else tot
        if tot is not None:
            n = min(n, tot)
        n = min(n, MAXA)
        styles = []
        for i in range(n):
            s = pattern[i % len(pattern)]
            styles.append(s)
            if s == S_FORALL:
                assert tot is not None
                break
        self.add(srcs, styles, **kw)


def build(arg, tier):
    P = Plan(arg)
    quick = tier == 'quick'
    styles = ARG_STYLES if arg else VOID_STYLES
    mixed_async = [S_FUT_HV, S_CO_NEXT, S_CO_CALL]
    mixed_all = [S_CO_CALL, S_NEXT, S_FUT_HV] if arg else [S_CO_CALL, S_ITER, S_FUT_HV, S_NEXT]
    # -- A. 0..3 (thorough 0..4) synchronous sources read to the end in one style
    for nsrc in range(0, 4 if quick else 5):
        if arg and quick and nsrc > 0:
            continue            # the argument variant concentrates on routing (E); source counts are swept by the other unit
        for st in styles:
            P.read([[Y, Y] if nsrc <= 2 else [Y]] * nsrc, [st], drop=quick and nsrc == 3 and st in (S_ITER, S_FORALL, S_CO_CALL))
    # -- B. two sources: every kind of script against a synchronous and an asynchronous neighbour
    variety = [[], [Y, RET], [AP, Y], [Y, AP, Y], [Y, TH], [TH], [AP, TH], [AP], [FOREVER], [Y, AP, FOREVER]]
    if not quick:
        variety += [[Y, Y, Y], [AP, AP, Y], [Y, Y, TH], [Y, AP, TH], [AP, Y, RET], [Y, AP], [AP, FOREVER], [Y, Y, FOREVER]]
    if arg and quick:
        variety = [[], [AP, Y], [Y, TH], [AP, TH], [FOREVER]]
    neighbours = [[Y, Y], [AP, Y]] if quick else [[Y, Y], [AP, Y], [Y, AP, Y], [Y, TH]] if not arg else [[Y, Y], [AP, Y], [Y, TH]]
    patterns = [mixed_async, [S_NEXT]] if quick else [mixed_async, [S_NEXT], mixed_all]
    for s0 in variety:
        for s1 in neighbours:
            for pat in patterns:
                inf = total_events([s0, s1]) is None
                P.read([s0, s1], pat, upto=4 if inf else None, drop=quick and s0 in ([AP], [Y, AP, FOREVER]))
                if not quick and not arg:
                    P.read([s1, s0], pat, upto=4 if inf else None)
    # -- C. destruction while parked, with sources in flight, after 0..k accesses
    cfgs = [[[Y, AP, Y, Y], [AP, Y, Y], [Y, Y]]] if quick else [[[Y, AP, Y, Y], [AP, Y, Y], [Y, Y]], [[AP, Y, AP, Y], [Y, AP, TH]], [[FOREVER], [AP, FOREVER], [Y, AP]],
                                                             [[Y, Y], [Y, Y], [Y, Y], [AP, Y]]]
    for cfg in cfgs:
        tot = total_events(cfg) or 7
        for k in range(0, min(tot, 5 if quick else 7)):
            for pm in ((0,) if arg and quick else (0, 1)):
                P.read(cfg, mixed_async, upto=k, pmode=pm)
            if not quick:
                P.read(cfg, [S_NEXT], upto=k)
                P.read(cfg, mixed_all, upto=k)
    # -- D. three / four sources, mixed
    three = [[[Y, TH], [AP, Y, Y], []], [[AP, Y], [AP, Y], [AP, Y]], [[Y, Y], [TH], [Y, AP, TH]], [[Y], [Y, Y, Y], [AP]]]
    if not quick:
        three += [[[Y, AP, Y], [Y, TH], [AP, Y], [Y]], [[AP], [AP], [AP], [AP]], [[Y, Y], [Y, Y], [Y, Y], [Y, Y]], [[TH], [TH], [Y], []],
                  [[Y, RET], [AP, Y, TH], [Y, Y, Y], [AP, AP, Y]]]
    for cfg in three:
        for pat in ([mixed_async] if arg and quick else [mixed_async, mixed_all] if quick else [mixed_async, mixed_all, [S_NEXT], [S_CO_NEXT], [S_FUT_HV]] + ([[S_FORALL], [S_ITER]] if not arg else [])):
            P.read(cfg, pat)
    # -- E. argument routing (argument variant): both first_null settings, every style pair around a yield
    if arg:
        for fn in ([0, 0], [1, 1], [1, 0]):
            for pat in ([[S_NEXT], mixed_async] if quick else [[s] for s in ARG_STYLES] + [mixed_async, mixed_all]):
                P.read([[Y, Y, Y], [Y, Y]], pat, first_null=fn)
                P.read([[Y, AP, Y], [AP, Y]], pat, first_null=fn)
    # -- F. thorough: seeded random configurations
    if not quick:
        rnd = random.Random(1414 + (1 if arg else 0))
        for _ in range(220 if not arg else 200):
            nsrc = rnd.randint(1, 4)
            srcs = []
            for _k in range(nsrc):
                n = rnd.randint(0, 3)
                sc = [rnd.choice([Y, Y, AP]) for _i in range(n)]
                t = rnd.choice([None, None, TH, RET, FOREVER])
                if t is not None and len(sc) < MAXE:
                    sc.append(t)
                srcs.append(sc)
            tot = total_events(srcs)
            if tot is not None and tot > MAXA:
                continue
            n = rnd.randint(0, tot if tot is not None else 6)
            pool = [s for s in styles if not (s == S_FORALL and tot is None)]
            st = []
            pos = 0
            while pos < n:
                s = rnd.choice(pool)
                st.append(s)
                pos = n if s == S_FORALL else pos + 1
            P.add(srcs, st, first_null=[rnd.randint(0, 1) for _k in srcs], pmode=rnd.randint(0, 1))
    return P.vecs


def build_dtor(arg, tier):
    """destruction of a parked aggregate while sources are still in flight: another thread completes them while the destructor blocks"""
    P = Plan(arg)
    quick = tier == 'quick'
    mixed_async = [S_FUT_HV, S_CO_NEXT, S_CO_CALL]
    cfgs = [[[Y, AP, Y, Y], [AP, Y, Y], [Y, Y]], [[Y, Y], [AP, Y]], [[Y, Y], [AP, TH], [AP]]]
    if not quick:
        cfgs += [[[AP, Y, AP, Y], [Y, AP, TH]], [[FOREVER], [AP, FOREVER], [Y, AP]], [[Y, Y], [Y, Y], [Y, Y], [AP, Y]], [[Y, AP, Y], [AP, AP, Y], [AP, RET]]]
    for cfg in cfgs:
        tot = total_events(cfg) or 7
        for k in range(0, min(tot, 4 if quick else 7)):
            for pm in (0, 1):
                for rot in ((0,) if quick else (0, 1, 2)):
                    P.read(cfg, mixed_async[rot:] + mixed_async[:rot], upto=k, pmode=pm, first_null=[(i + pm) % 2 for i in range(len(cfg))])
    return P.vecs


def plan(tier):
    units = []
    for arg in (False, True):
        vecs = build(arg, tier)
        if not arg:
            conc = [([0, 2, 2, Y, Y, 3, Y, AP, Y, 5, S_NEXT, S_NEXT, S_NEXT, S_NEXT, S_NEXT], [1, 2, 3, 4, 5]),
                    ([0, 2, 2, Y, Y, 3, Y, AP, Y, 5, S_FUT_HV, S_CO_NEXT, S_CO_CALL, S_FUT_HV, S_CO_NEXT], [1, 2, 3, 4, 5]),
                    ([1, 3, 2, Y, TH, 3, AP, Y, Y, 0, 4, S_CO_CALL, S_CO_NEXT, S_FUT_HV, S_FORALL], [1, 2, 3, 4, 5]),
                    ([1, 2, 3, Y, AP, Y, 3, AP, Y, Y, 1, S_CO_NEXT], [1, 2, 3, 4, 5, 6]),
                    ([0, 0, 1, S_ITER], []),
                    ([1, 2, 1, FOREVER, 2, AP, Y, 3, S_FUT_HV, S_ITER, S_ITER], [7, 8, 9])]
            name, entry, defines = 'h_aggr', 'h_aggr', []
            what = 'generator_aggregator over generator<const Item*> sources'
            styles = VOID_STYLES
        else:
            conc = [([0, 2, 2, Y, Y, 1, 3, Y, AP, Y, 0, 5, S_NEXT, S_FUT_HV, S_CO_NEXT, S_CO_CALL, S_NEXT], [1, 2, 3, 4, 5, 100, 200, 300, 400, 500]),
                    ([1, 2, 3, Y, Y, Y, 1, 2, Y, Y, 1, 6, S_CO_CALL, S_CO_CALL, S_NEXT, S_NEXT, S_FUT_HV, S_FUT_HV], [1, 2, 3, 4, 5, 10, 20, 30, 40, 50, 60]),
                    ([0, 2, 2, Y, TH, 0, 2, AP, Y, 1, 3, S_CO_NEXT, S_FUT_HV, S_NEXT], [1, 2, 3, 4, 11, 12, 13])]
            name, entry, defines = 'h_aggr_arg', 'h_aggr_arg', ['VF_C14_ARG']
            what = 'generator_aggregator over generator<const Item*, int> sources (each source echoes the received argument into its next item)'
            styles = ARG_STYLES
        units.append(dict(
            engine='e1', name=name, tu='C14.cpp', entry=entry, defines=defines, unwind=40, vectors=vecs, concrete=conc, timeout=900,
            space=('%s: 0..%d scripted sources (each <= 3 entries from {yield, await pending future, throw, return, yield forever} + terminator) '
                   'x consumer access sequence (styles: %s) x which in-flight source completes first x early destruction after 0..k accesses; %d vectors'
                   % (what, 3 if tier == 'quick' else 4, '; '.join(STYLE_NAMES[s] for s in styles), len(vecs))),
            data='payloads of the items, results of the awaited futures and call arguments: unconstrained 32-bit ints (symbolic); (source, index) tags concrete',
            bounds='<= %d sources, <= 4 script entries per source, <= 10 accesses, <= 8 items per source' % (3 if tier == 'quick' else 4),
            outside=('5 sources; a synchronous read or the destruction of the aggregate while every remaining source is still in flight (blocks until another '
                     'thread completes a source: here in-flight sources are completed first); sources completing on another OS thread; '
                     'the interleaving between sources is not constrained (the statement fixes only per-source order)')))
        dv = build_dtor(arg, tier)
        units.append(dict(
            engine='e1', name='destroy_inflight' + ('_arg' if arg else ''), tu='C14.cpp', entry=entry + '_dtor', defines=defines, unwind=40, vectors=dv, timeout=900,
            concrete=[(v, [1, 2, 3, 4, 5, 6, 7, 8, 9, 10, 11, 12]) for v in (dv[1], dv[len(dv) // 2], dv[-1])],
            space=('%s: the aggregate is destroyed while it is parked and sources are still in flight; another thread completes them while the destructor is blocked in its drain '
                   '(wait hook, rt.h vf_wait_arm): %d configurations of 2..%d sources x destruction after 0..k asynchronous accesses x which in-flight source completed first; %d vectors'
                   % (what, 3 if tier == 'quick' else 7, 3 if tier == 'quick' else 4, len(dv))),
            data='payloads of the items, results of the awaited futures and call arguments: unconstrained 32-bit ints (symbolic)',
            bounds='<= 4 sources, <= 6 accesses before the destruction; the other thread completes every in-flight source in one step while the destructor waits',
            outside='completion of in-flight sources interleaved with the destructor at a finer granularity; destruction while the consumer itself is still waiting for a value'))
    return units
