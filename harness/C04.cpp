// C04 - an async coroutine runs once, delivers to its bound party, frees once.
// One scripted coroutine body (template over the result type) is started in every way async<T> offers and completes in
// every way the skeleton selects; counters and RAII probes observe body executions, argument/local/value lifetimes, the
// value/exception seen by the bound party, and the allocation balance (frames).
// The result type is selected per translation unit: -DVF_T=0 int, 1 void, 2 counted RAII type (vf_probe).
#include "vf_cocls.h"
#include <cocls/async.h>
#include <cocls/future.h>
using namespace cocls;

#ifndef VF_T
#define VF_T 0
#endif

namespace {

#if VF_T == 0
using T = int;
#elif VF_T == 1
using T = void;
#else
using T = vf_probe;
#endif
constexpr int MAXD = 3;            // nesting depth of co_await chains

struct Ctx {
    // script
    int depth = 0;                 // levels 0..depth; level `depth` is the innermost coroutine
    bool suspend = false;          // innermost coroutine awaits the pending future `gate`
    bool throws = false;           // innermost coroutine throws instead of returning
    // observations
    int runs[MAXD + 1] = {0, 0, 0, 0};      // body entered, per level
    int done[MAXD + 1] = {0, 0, 0, 0};      // body reached its co_return / throw, per level
    int void_result = 0;           // what the top-level body computed (side channel for T = void)
    vf_probe_counts pc_arg, pc_local, pc_val;
    int parent_runs = 0, parent_done = 0;
    int obs_kind = 0, obs = 0;     // what the awaiting parent saw: 1 value, 2 vf_tag_exc
    int resolver_runs = 0, resolver_done = 0;
    bool resolver_ok = false;
    // the pending future the innermost coroutine may wait for
    future<int> gate;
    promise<int> gate_p;
};

template<typename X> struct Mk;
template<> struct Mk<int> { static int mk(Ctx *, int v) { return v; } static int val(int &x) { return x; } };
template<> struct Mk<vf_probe> { static vf_probe mk(Ctx *cx, int v) { return vf_probe(cx->pc_val, v); } static int val(vf_probe &x) { return x.v; } };

// The scripted body. R is async<X> or future<X> ("returned as future<T>"). Level 0 is the coroutine under test,
// deeper levels are async<int> children awaited with co_await.
template<typename R, typename X>
R coro(Ctx *cx, vf_probe arg, int level, int v) {
    cx->runs[level]++;
    vf_probe local(cx->pc_local, v);
    int r = local.v + arg.v;
    if (level < cx->depth) {
        r += co_await coro<async<int>, int>(cx, vf_probe(cx->pc_arg, 1), level + 1, v);
    } else {
        if (cx->suspend) r += co_await cx->gate;
        if (cx->throws) { cx->done[level]++; throw vf_tag_exc{r}; }
    }
    cx->done[level]++;
    if constexpr (std::is_void_v<X>) { cx->void_result = r; co_return; }
    else co_return Mk<X>::mk(cx, r);
}

enum Start { S_NEVER = 0, S_DETACH_N, S_DETACH_C, S_DETACH_AWAIT, S_START_N, S_START_C, S_PROMISE_N, S_PROMISE_C,
             S_CLAIMED, S_CLAIMED_THEN_START, S_CO_AWAIT, S_JOIN, S_FUTCTOR_N, S_FUTCTOR_C, S_RETURNED_N, S_RETURNED_C, S_NSTART };
enum Compl { K_VALUE = 0, K_THROW, K_SUSP_VALUE, K_SUSP_THROW, K_SUSP_VALUE_CM, K_SUSP_VALUE_CORO, K_SUSP_THROW_CORO, K_NCOMPL };

// parent coroutine for the two start modes that need an awaiting coroutine
template<typename X>
async<int> parent(Ctx *cx, int start, int v) {
    cx->parent_runs++;
    async<X> c = coro<async<X>, X>(cx, vf_probe(cx->pc_arg, 1), 0, v);
    if (start == S_CO_AWAIT) {
        try {
            if constexpr (std::is_void_v<X>) { co_await c; cx->obs = cx->void_result; }
            else cx->obs = Mk<X>::val(co_await c);
            cx->obs_kind = 1;
        } catch (const vf_tag_exc &e) {
            cx->obs_kind = 2; cx->obs = e.tag;
        }
    } else {
        co_await c.detach();
    }
    cx->parent_done++;
    co_return 7;
}

// a coroutine that resolves the gate and awaits the resulting suspend point (completion "from inside another coroutine")
async<void> resolver(Ctx *cx, int g) {
    cx->resolver_runs++;
    cx->resolver_ok = co_await cx->gate_p(g);
    cx->resolver_done++;
    co_return;
}

__attribute__((noinline)) void resolve_gate(Ctx &cx, int how, int g) {
    if (how == K_SUSP_VALUE || how == K_SUSP_THROW) {
        bool ok = cx.gate_p(g);                       // normal mode: the discarded suspend point resumes the waiter now
        VF_ASSERT(ok, "VF_SPEC gate resolved once");
    } else if (how == K_SUSP_VALUE_CM) {
        coro_queue::install_queue_and_call([&] { (void)cx.gate_p(g); });      // coroutine mode: waiter queued, runs at exit
    } else {
        (void)resolver(&cx, g).detach();             // from inside another coroutine, suspend point awaited
        VF_ASSERT(cx.resolver_runs == 1 && cx.resolver_done == 1 && cx.resolver_ok, "VF_SPEC resolver coroutine ran to completion");
    }
}

// what the bound party holding future<T> f must see
template<typename X>
void check_future(Ctx &cx, future<X> &f, bool throws, int expect) {
    VF_ASSERT(f.ready() && !f.pending(), "C04 the bound future is resolved when the coroutine has finished");
    if (throws) {
        VF_ASSERT(vf_exc_tag([&] { f.value(); }) == expect, "C04 the exception thrown by the body reaches the bound future");
    } else {
        bool ok = false;
        try {
            if constexpr (std::is_void_v<X>) { f.value(); ok = cx.void_result == expect; }
            else ok = Mk<X>::val(f.value()) == expect;
        } catch (...) { ok = false; }
        VF_ASSERT(ok, "C04 the value returned by the body reaches the bound future");
    }
}

#define NOINL __attribute__((noinline))

// One scenario = one start mode x completion mode x depth. The start modes are separate non-inlined functions so that the
// solver front end does not have to digest one huge function for every query.
template<typename T>
struct Scn {
    static constexpr bool T_void = std::is_void_v<T>;
    Ctx &cx;
    future<T> &f;                 // the bound party for the start modes that have one
    future<int> &pf;              // future of the parent coroutine
    int start, v;
    bool has_f = false;
    int seen_kind = 0, seen = 0;  // what join() returned / threw

    async<T> make() { return coro<async<T>, T>(&cx, vf_probe(cx.pc_arg, 1), 0, v); }

    NOINL void s_never() {
        async<T> c = make();
        VF_ASSERT(cx.runs[0] == 0, "C04 a coroutine object that is not started does not run");
    }                                             // ~async destroys the frame and the captured argument
    NOINL void s_detach_n() {
        async<T> c = make();
        (void)c.detach();
        VF_ASSERT(cx.runs[0] == 1, "C04 detach() with a discarded suspend point starts the coroutine at once in normal mode");
    }
    NOINL void s_detach_c() {
        coro_queue::install_queue_and_call([&] {
            async<T> c = make();
            (void)c.detach();
            VF_ASSERT(cx.runs[0] <= 1, "C04 body runs at most once");
        });
        VF_ASSERT(cx.runs[0] == 1, "C04 a detached coroutine queued in coroutine mode has been started when the queue was drained");
    }
    NOINL void s_parent() {                       // S_DETACH_AWAIT, S_CO_AWAIT
        pf << [&] { return parent<T>(&cx, start, v).start(); };
        VF_ASSERT(cx.parent_runs == 1 && cx.runs[0] == 1, "C04 co_await starts the coroutine");
    }
    NOINL void s_start_n() {
        async<T> c = make();
        f << [&] { return c.start(); };
        has_f = true;
    }
    NOINL void s_start_c() {
        coro_queue::install_queue_and_call([&] {
            async<T> c = make();
            f << [&] { return c.start(); };
        });
        has_f = true;
    }
    NOINL void s_promise_n() {
        async<T> c = make();
        promise<T> p = f.get_promise();
        {
            suspend_point<bool> sp = c.start(p);
            bool ok = sp;
            VF_ASSERT(ok, "C04 start(promise) on a live promise reports success");
            VF_ASSERT(!p, "C04 start(promise) claims the promise");
        }
        has_f = true;
    }
    NOINL void s_promise_c() {
        promise<T> p = f.get_promise();
        coro_queue::install_queue_and_call([&] {
            async<T> c = make();
            bool ok = c.start(p);
            VF_ASSERT(ok, "C04 start(promise) on a live promise reports success");
        });
        has_f = true;
    }
    NOINL void s_claimed() {                      // S_CLAIMED, S_CLAIMED_THEN_START
        async<T> c = make();
        future<T> other;
        promise<T> p = other.get_promise();
        (void)p.set_value(drop);                  // the promise is used up
        {
            suspend_point<bool> sp = c.start(p);
            bool ok = sp;
            VF_ASSERT(!ok, "C04 start(promise) on an already claimed promise reports failure");
            VF_ASSERT(sp.empty(), "C04 start(promise) on an already claimed promise schedules nothing");
        }
        VF_ASSERT(cx.runs[0] == 0, "C04 start(promise) on an already claimed promise leaves the coroutine unstarted");
        VF_ASSERT(other.ready() && vf_exc_tag([&] { other.value(); }) == -2, "C04 the future of the claimed promise is unaffected");
        if (start == S_CLAIMED_THEN_START) {
            f << [&] { return c.start(); };       // still startable
            has_f = true;
        }
    }                                             // S_CLAIMED: ~async frees the unstarted frame
    NOINL void s_join() {
        async<T> c = make();
        try {
            if constexpr (T_void) { c.join(); seen = cx.void_result; }
            else { T r = c.join(); seen = Mk<T>::val(r); }
            seen_kind = 1;
        } catch (const vf_tag_exc &e) { seen_kind = 2; seen = e.tag; }
    }
    NOINL void s_futctor_n() {
        async<T> c = make();
        f << [&] { return future<T>(c); };
        has_f = true;
    }
    NOINL void s_futctor_c() {
        coro_queue::install_queue_and_call([&] {
            async<T> c = make();
            f << [&] { return future<T>(c); };
        });
        has_f = true;
    }
    NOINL void s_returned_n() {
        f << [&] { return coro<future<T>, T>(&cx, vf_probe(cx.pc_arg, 1), 0, v); };
        has_f = true;
    }
    NOINL void s_returned_c() {
        coro_queue::install_queue_and_call([&] {
            f << [&] { return coro<future<T>, T>(&cx, vf_probe(cx.pc_arg, 1), 0, v); };
        });
        has_f = true;
    }
    void do_start() {
        switch (start) {
        case S_NEVER: s_never(); break;
        case S_DETACH_N: s_detach_n(); break;
        case S_DETACH_C: s_detach_c(); break;
        case S_DETACH_AWAIT: case S_CO_AWAIT: s_parent(); break;
        case S_START_N: s_start_n(); break;
        case S_START_C: s_start_c(); break;
        case S_PROMISE_N: s_promise_n(); break;
        case S_PROMISE_C: s_promise_c(); break;
        case S_CLAIMED: case S_CLAIMED_THEN_START: s_claimed(); break;
        case S_JOIN: s_join(); break;
        case S_FUTCTOR_N: s_futctor_n(); break;
        case S_FUTCTOR_C: s_futctor_c(); break;
        case S_RETURNED_N: s_returned_n(); break;
        case S_RETURNED_C: s_returned_c(); break;
        }
    }
    // between start and completion: the chain has been entered, nothing has been delivered while the innermost body waits
    NOINL void check_started(int depth, bool susp) {
        for (int l = 0; l <= depth; ++l) VF_ASSERT(cx.runs[l] == 1, "C04 every body of the co_await chain has been entered exactly once");
        if (susp) {
            VF_ASSERT(cx.done[depth] == 0, "C04 a body waiting for a pending future has not finished");
            if (has_f) VF_ASSERT(f.pending() && !f.ready(), "C04 the bound future stays pending while the coroutine is suspended");
            if (start == S_CO_AWAIT) VF_ASSERT(pf.pending() && cx.parent_done == 0, "C04 the awaiting coroutine stays suspended while the awaited coroutine is suspended");
            vf_out(cx.runs[0] * 10 + cx.done[0]);
        }
    }
    NOINL void check_completed(int depth, bool throws, int expect) {
        for (int l = 0; l <= depth; ++l) VF_ASSERT(cx.runs[l] == 1, "C04 no body is executed twice");
        VF_ASSERT(cx.done[depth] == 1, "C04 the innermost body ran to its end exactly once");
        VF_ASSERT(cx.done[0] == ((throws && depth > 0) ? 0 : 1), "C04 the body under test ran to its end exactly once (left by the exception of its child otherwise)");
        if (has_f) check_future(cx, f, throws, expect);
        if (start == S_JOIN) {
            VF_ASSERT(seen_kind == (throws ? 2 : 1) && seen == expect, "C04 join() returns the value / rethrows the exception of the body");
        }
        if (start == S_CO_AWAIT) {
            VF_ASSERT(cx.parent_done == 1 && pf.ready(), "C04 the awaiting coroutine is resumed when the awaited coroutine finishes");
            VF_ASSERT(cx.obs_kind == (throws ? 2 : 1) && cx.obs == expect, "C04 co_await delivers the value / exception of the body to the awaiting coroutine");
        }
        if (start == S_DETACH_AWAIT) {
            VF_ASSERT(cx.parent_done == 1 && pf.ready(), "C04 a coroutine awaiting the suspend point of detach() continues");
        }
        if (start == S_CO_AWAIT || start == S_DETACH_AWAIT) {
            bool ok = false; try { ok = pf.value() == 7; } catch (...) {}
            VF_ASSERT(ok, "VF_SPEC parent coroutine result");
        }
    }
};

template<typename T>
void scenario() {
    constexpr bool T_void = std::is_void_v<T>;
    const int start = vf_choice(S_NSTART);
    const int compl_ = vf_choice(K_NCOMPL);
    const int depth = vf_choice(MAXD + 1);
    const int v = nondet_int();
    const int g = nondet_int();
    VF_ASSUME(v > -10000 && v < 10000 && g > -10000 && g < 10000);
    const bool susp = compl_ >= K_SUSP_VALUE;
    const bool throws = compl_ == K_THROW || compl_ == K_SUSP_THROW || compl_ == K_SUSP_THROW_CORO;
    const bool runs_body = !(start == S_NEVER || start == S_CLAIMED);
    if (start == S_JOIN) VF_ASSUME(!susp);           // join() blocks the only thread: meaningful only with synchronous completion
    // every level adds v + 1 (its local + its argument) to what its child returned; the innermost adds g when it waited for the gate.
    // An exception is thrown by the innermost body and carries what that body had computed.
    const int expect = (throws ? 1 : depth + 1) * (v + 1) + (susp ? g : 0);
    const long base = vf_live_allocs();
    Ctx cx;                                           // (allocates nothing)
    cx.depth = depth; cx.suspend = susp; cx.throws = throws;
    if (susp && runs_body) cx.gate_p = cx.gate.get_promise();
    {
        future<T> f;
        future<int> pf;
        Scn<T> S{cx, f, pf, start, v};
        S.do_start();
        if (runs_body) {
            S.check_started(depth, susp);
            if (susp) resolve_gate(cx, compl_, g);
            S.check_completed(depth, throws, expect);
        } else {
            VF_ASSERT(cx.runs[0] == 0, "C04 a coroutine that was not started never runs");
        }
        vf_out(cx.runs[0]); vf_out(cx.done[0]); vf_out(cx.void_result & 0xffff); vf_out(S.seen_kind); vf_out(cx.obs_kind);
        if (S.has_f && !throws && runs_body) { if constexpr (!T_void) vf_out(Mk<T>::val(f.value()) & 0xffff); }
    }
    // every frame and every future is gone
    VF_ASSERT(cx.pc_arg.constructed == cx.pc_arg.destroyed, "C04 every coroutine argument is destroyed exactly once");
    VF_ASSERT(cx.pc_arg.constructed >= 1, "VF_SPEC argument probes were created");
    VF_ASSERT(cx.pc_local.constructed == cx.pc_local.destroyed && cx.pc_local.constructed == (runs_body ? depth + 1 : 0),
              "C04 every local of a body is constructed and destroyed exactly once (never for an unstarted coroutine)");
    VF_ASSERT(cx.pc_val.constructed == cx.pc_val.destroyed, "C04 the result value (and every temporary of it) is destroyed exactly once");
    vf_out(cx.pc_arg.constructed); vf_out(cx.pc_val.constructed);
    VF_ASSERT(vf_live_allocs() == base, "C04 every coroutine frame is freed exactly once (allocation balance)");
    VF_ASSERT(!coro_queue::is_active(), "C04 coroutine mode left");
}
} // namespace

extern "C" void h_async() {
    vf_warmup();
    scenario<T>();
    vf_choice_end();
    vf_witness();
}
