# C02: no lost, early or duplicate wake-up - resolver thread against waiter threads of every kind (scenarios live in C01.cpp)
import C01


def plan(tier):
    return [dict(engine='e2', name='waiters', tu='C01.cpp', mode='sc', scenarios=C01.waiter_scenarios(tier), opts={'loop_bound': 3, 'rec_bound': 2}, timeout_s=600,
                 space='resolver kind {set_value(v), set_value(drop), set_exception(e), promise destruction} x waiter kind {callback awaiter, blocking wait()/sync(), '
                       'coroutine protocol await_ready/await_suspend/await_resume, has_value()} (+ poller); thorough adds two waiters of mixed kinds against one resolver',
                 bounds=C01.BOUNDS, outside='3 waiters at once; completion of a real async coroutine as resolver (its final_awaiter path is covered sequentially by C04); spurious wake-ups of atomic wait; weak-memory executions (C03)')]
