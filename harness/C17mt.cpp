// C17 (resolver thread against threads that drop / copy / await handles) - E2 scenarios.
// KIND2: what thread 2 does with the handles while thread 1 resolves:
//   0 drop both handles | 1 copy a handle, drop all three | 2 subscribe a callback awaiter on a handle, then drop both handles
//   3 CONSTRUCT the shared_future (the init function publishes the promise to thread 1, which may resolve while the constructor is still running), then drop it
// RES: 0 value | 1 promise dropped.  A counted value type records construction / destruction of the stored value.
#include "vf2.h"
#include <cocls/future.h>
#include <cocls/shared_future.h>
#include <new>
using namespace cocls;
#ifndef KIND2
#define KIND2 0
#endif
#ifndef RES
#define RES 0
#endif
struct Counted { int v; static int ctor, dtor; Counted(int x) : v(x) { ++ctor; } Counted(const Counted &o) : v(o.v) { ++ctor; } ~Counted() { ++dtor; } };
int Counted::ctor, Counted::dtor;
using SF = shared_future<Counted>;
alignas(SF) static unsigned char buf[3][sizeof(SF)];
static SF *h[3];
static promise<Counted> prom;
static int resumed, seen;
#include <atomic>
static std::atomic<int> published;
struct Cb : awaiter {
    SF *keep;
    static suspend_point<void> fn(awaiter *a, void *) noexcept { Cb *self = static_cast<Cb *>(a); resumed++; (void)self; return {}; }
    Cb() { set_resume_fn(&fn); }
};
static Cb cb;
extern "C" void vf_setup() {
#if KIND2 != 3
    h[0] = new (buf[0]) SF([&](promise<Counted> p) { prom = std::move(p); });
    h[1] = new (buf[1]) SF(*h[0]);
#endif
}
extern "C" void vf_thread_1() {
#if KIND2 == 3
    if (!published.load()) return;          // the promise is resolved (or dropped) by vf_check instead
#endif
#if RES == 0
    prom(7);
#else
    prom(drop);
#endif
}
extern "C" void vf_thread_2() {
#if KIND2 == 3
    h[0] = new (buf[0]) SF([&](promise<Counted> p) { prom = std::move(p); published.store(1); });
    h[0]->~SF();
    return;
#endif
#if KIND2 == 1
    h[2] = new (buf[2]) SF(*h[1]);
#elif KIND2 == 2
    if (!h[0]->ready()) { if (!h[0]->operator co_await().subscribe(&cb)) seen = 1; } else seen = 1;
#endif
    h[0]->~SF(); h[1]->~SF();
#if KIND2 == 1
    h[2]->~SF();
#endif
}
extern "C" void vf_check() {
#if KIND2 == 3
    { promise<Counted> last(std::move(prom)); }          // an unresolved state is resolved to no-value here and must then go away
#endif
    vf_assert(Counted::ctor == Counted::dtor, "C17 the stored value was not destroyed exactly as often as it was constructed");
#if RES == 0 && KIND2 != 3
    vf_assert(Counted::ctor >= 1, "C17 the value was never stored");
#endif
#if KIND2 == 2
    vf_assert(resumed + seen == 1, "C17 an awaiter of a shared_future copy was not resumed exactly once");
#endif
    vf_reach("C17 mt check reached");
}
