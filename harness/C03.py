# C03(a): data-race freedom and safe publication of the lock-free core, C++20 happens-before over all SC interleavings (E2, mode hb)
import C01, C07
from speclib import histories
import itertools


def plan(tier):
    fut = [C01.scen(0, 14), C01.scen(0, 10), C01.scen(0, 11), C01.scen(0, 12), C01.scen(2, 13), C01.scen(3, 12), C01.scen(0, 0),
           C01.scen(0, 10, 14), C01.scen(0, 11, 13)]     # a waiter registered early, the resolver, and a third thread that learns readiness by polling
    if tier != 'quick':
        fut += [C01.scen(1, 10), C01.scen(1, 11), C01.scen(2, 14), C01.scen(0, 10, 11), C01.scen(0, 12, 14), C01.scen(0, 0, 14)]
    mtx = [s for s in C07.scenarios('quick') if s['name'] in ('own_dtor_vs_wait', 'own_release_vs_try', 'free_try_wait', 'free_wait_wait', 'own_release_vs_coro', 'own_preq_vs_wait', 'own_preq_vs_try')]
    if tier != 'quick':
        mtx = [s for s in C07.scenarios('quick')]
    units = [dict(engine='e2', name='future_hb', tu='C01.cpp', mode='hb', scenarios=fut, opts={'loop_bound': 3, 'rec_bound': 2}, timeout_s=900,
                  space='resolver (value / exception / drop / destruction) against poller (ready() then read), callback subscriber, blocking wait(), coroutine protocol, has_value(); two resolvers',
                  bounds='2 threads (thorough: 3); all SC interleavings; happens-before = sequenced-before + synchronizes-with (release/acquire accesses, release sequences through RMWs, fences) computed per execution as vector clocks',
                  outside='executions that are not sequentially consistent (only reachable through relaxed atomics whose values the code does not branch on); consume ordering'),
             dict(engine='e2', name='mutex_hb', tu='C07.cpp', mode='hb', scenarios=mtx, opts={'loop_bound': 3, 'rec_bound': 2}, timeout_s=900,
                  space='the C07 contention scenarios: the critical section writes plain shared cells (owner, grant counter, statistics), so mutual exclusion must be backed by happens-before',
                  bounds='2 threads; all SC interleavings', outside='as above')]
    sto = [dict(name='mtsafe_16_16', nthreads=2, defines=['SZ1=16', 'SZ2=16']), dict(name='mtsafe_16_32', nthreads=2, defines=['SZ1=16', 'SZ2=32'])]
    if tier != 'quick':
        sto += [dict(name='mtsafe_32_16', nthreads=2, defines=['SZ1=32', 'SZ2=16']), dict(name='mtsafe_2rounds', nthreads=2, defines=['SZ1=16', 'SZ2=16', 'ROUNDS=2'])]
    units.append(dict(engine='e2', name='storage_hb', tu='C19mt.cpp', mode='hb', scenarios=sto, opts={'loop_bound': 6, 'rec_bound': 2}, timeout_s=600,
                      space='two threads each allocating a frame on one reusable_storage_mtsafe, writing and re-reading it, and releasing it (equal and different sizes; thorough: two rounds)',
                      bounds='2 threads; all SC interleavings; happens-before as vector clocks', outside='address reuse by the heap (blocks get fresh addresses)'))
    chn = [dict(name='chain_1sub', nthreads=2, defines=['SUBS=1'])] + ([dict(name='chain_2sub', nthreads=3, defines=['SUBS=2'])])
    units.append(dict(engine='e2', name='chain_hb', tu='C03chain.cpp', mode='hb', scenarios=chn, opts={'loop_bound': 4, 'rec_bound': 2}, timeout_s=600,
                      space='the generic awaiter chain (awaiter::subscribe against awaiter::resume_chain, used by signal and the generator aggregator): one or two registering threads, one collecting thread',
                      bounds='2..3 threads; all SC interleavings; happens-before as vector clocks', outside='as above'))
    # (b) lock discipline of the mutex-protected components (E1, -DVF_DISCIPLINE)
    L = 3 if tier == 'quick' else 4
    def hist(alpha, extra=()):
        out = []
        for h in histories(alpha, L, L):
            out.append(list(extra) + [len(h)] + h)
        return out
    qv = hist(5)
    lqv = [[lim] + v for lim in (0, 1) for v in hist(6)] if tier != 'quick' else [[lim] + v for lim in (0, 1) for v in hist(6) if sum(v) % 3 == lim]
    sv = []
    for n in range(1, (3 if tier == 'quick' else 4)):
        for ks in itertools.product(range(4), repeat=n):
            if 0 not in ks: continue
            for var in range(3 if tier == 'quick' else 6):
                v = [n]
                for j, k in enumerate(ks): v += [k, (j + var) % 3 if k != 0 else (j * (var + 1)) % 3, (j + 2 * var) % 4]
                sv.append(v)
    pv = [v for v in hist(8) if tier != 'quick' or (sum(v) % 4 == 1) or v[1:3] == [0, 0]]      # quick: a quarter of the histories + all that start with two publishes
    def unit(name, part, entry, vectors, space, conc):
        return dict(engine='e1', name=name, tu='C03.cpp', defines=['C03_PART=%d' % part, 'VF_DISCIPLINE'], entry=entry, unwind=12, vectors=vectors, concrete=conc,
                    space=space + (' -- quick tier: disc_lqueue decides a third and disc_pub a quarter of these histories (selected by the sum of their operation codes) plus all that start with two publishes, the thorough tier all' if tier == 'quick' and part in (2, 4) else ''),
                    data='pushed / published values symbolic', bounds='histories of %d operations' % L,
                    outside='thread_pool (its std::thread / condition_variable use is modelled in C11); accesses made by user callbacks',
                    cbmc_extra=('--max-field-sensitivity-array-size', '1024') if part == 4 else ())
    units += [unit('disc_queue', 1, 'h_disc_queue', qv, 'queue<int>: every history over {push, pop, unblock_pop, size, empty}: every access to the queue object and to heap blocks it allocated under its lock happens with the lock held', [([2, 0, 1], [5]), ([3, 1, 0, 3], [7])]),
              unit('disc_lqueue', 2, 'h_disc_lqueue', lqv, 'limited_queue<int>, limits 1..2: {push, pop, unblock_pop, unblock_push, size, empty}', [([0, 3, 0, 0, 1], [1, 2]), ([1, 2, 1, 0], [3])]),
              unit('disc_sched', 3, 'h_disc_sched', sv, 'scheduler in manual mode: {sleep_until, cancel, remove, get_expired} over 3 ids and 4 time points', [([2, 0, 0, 1, 1, 0, 2], []), ([1, 0, 1, 3], [])]),
              unit('disc_pub', 4, 'h_disc_pub', pv, 'publisher<long>(2,1) with a subscriber and its copy: {publish, publish batch, next_ready, copy, kick, position, close}', [([2, 0, 2], [9]), ([3, 0, 3, 4], [4])])]
    return units


# ---------------------------------------------------------------- (b) lock discipline of the thread pool (harness/C11.cpp, h_disc_pool)
def _pool_histories(n, L):
    """histories over {submit run_detached job with action k, submit coroutine job with action k, run worker t, stop(), state queries};
    a tiny simulation of the pool only makes sure that `run worker t` is issued for a runnable worker (the harness checks it again)"""
    SUBS = [(0, 0), (0, 1), (0, 2), (0, 4), (1, 0), (1, 3)]
    out = []

    def run(st, t):
        q, thr, ex = st
        q = list(q); thr = list(thr)
        while True:
            if ex: thr[t] = 'F'; break
            if not q: thr[t] = 'P'; break
            kind, k = q.pop(0)
            if k in (3, 4) and not ex:      # co_await current() re-schedules the coroutine; action 4 submits another job
                q.append((0, 0))
                for i in range(1, n + 1):
                    if thr[i] == 'P': thr[i] = 'W'; break
        return (tuple(q), tuple(thr), ex)

    def rec(h, st):
        if h: out.append(list(h))
        if len(h) >= L: return
        q, thr, ex = st
        for (kind, k) in SUBS:
            q2 = q; thr2 = list(thr)
            if not ex:
                q2 = q + ((kind, k),)
                for i in range(1, n + 1):
                    if thr2[i] == 'P': thr2[i] = 'W'; break
            rec(h + [(kind, k)], (q2, tuple(thr2), ex))
        for t in range(1, n + 1):
            if thr[t] in 'RW':
                rec(h + [(2, t - 1)], run(st, t))
        if not ex:
            rec(h + [(3,)], ((), tuple('F' if i else '-' for i in range(n + 1)), True))
        rec(h + [(4,)], st)
    rec([], ((), tuple('R' if i else '-' for i in range(n + 1)), False))
    return out


def pool_vectors(tier):
    vs = []
    for n, L in ((1, 3), (2, 3)) if tier == 'quick' else ((1, 4), (2, 4)):
        for h in _pool_histories(n, L):
            if len(h) < (3 if tier == 'quick' else 1): continue
            if not any(o[0] == 2 for o in h): continue                  # some worker runs
            if n == 2 and not any(o == (2, 1) for o in h): continue     # two workers: the second one takes part
            if tier == 'quick' and h[0][0] > 1: continue                # starts with a submission
            if tier == 'quick' and n == 2 and h[0] not in ((0, 1), (1, 3)): continue   # two workers: the submissions that query / re-schedule through thread_pool::current
            v = [n - 1, len(h)]
            for o in h: v += list(o)
            vs.append(v)
    return vs


_plan_without_pool = plan


def plan(tier):
    units = _plan_without_pool(tier)
    units.append(dict(engine='e1', name='disc_pool', tu='C11.cpp', defines=['VF_DISCIPLINE'], entry='h_disc_pool', unwind=12, vectors=pool_vectors(tier),
                      concrete=[([0, 3, 0, 1, 2, 0, 4], []), ([0, 4, 1, 3, 2, 0, 4, 2, 0], []), ([1, 3, 0, 4, 2, 1, 3], [])],
                      space='thread_pool (cooperative thread model of C11): pools of 1..2 workers x every history of %s operations over {run_detached job whose body does nothing / asks '
                            'thread_pool::current::is_stopped() / current::any_enqueued() / submits another job, coroutine job (co_await pool) that then does nothing / co_await thread_pool::current(), '
                            'run worker t (when runnable), stop(), is_stopped() + any_enqueued() from the submitting thread} in which a worker runs; then stop(): every access to the pool object '
                            '(queue header, worker list, exit flag) happens with the pool mutex held' % ('3' if tier == 'quick' else '1..4'),
                      data='none symbolic', bounds='<= %d operations, <= 2 workers' % (3 if tier == 'quick' else 4),
                      outside='heap blocks of the task queue (stop() takes them over under the lock and releases them outside it); constructor and destructor (no other thread can hold the pool); '
                              'pre-emption inside a worker between unlock and the job call',
                      assumptions=['C11 cooperative thread model: std::thread = table entry run by the harness until it returns or parks in condition_variable::wait']))
    return units
