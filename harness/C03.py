# C03(a): data-race freedom and safe publication of the lock-free core, C++20 happens-before over all SC interleavings (E2, mode hb)
import C01, C07


def plan(tier):
    fut = [C01.scen(0, 14), C01.scen(0, 10), C01.scen(0, 11), C01.scen(0, 12), C01.scen(2, 13), C01.scen(3, 12), C01.scen(0, 0)]
    if tier != 'quick':
        fut += [C01.scen(1, 10), C01.scen(1, 11), C01.scen(2, 14), C01.scen(0, 10, 11), C01.scen(0, 12, 14), C01.scen(0, 0, 14)]
    mtx = [s for s in C07.scenarios('quick') if s['name'] in ('own_dtor_vs_wait', 'own_release_vs_try', 'free_try_wait', 'free_wait_wait', 'own_release_vs_coro')]
    if tier != 'quick':
        mtx = [s for s in C07.scenarios('quick')]
    units = [dict(engine='e2', name='future_hb', tu='C01.cpp', mode='hb', scenarios=fut, opts={'loop_bound': 3, 'rec_bound': 2}, timeout_s=900,
                  space='resolver (value / exception / drop / destruction) against poller (ready() then read), callback subscriber, blocking wait(), coroutine protocol, has_value(); two resolvers',
                  bounds='2 threads (thorough: 3); all SC interleavings; happens-before = sequenced-before + synchronizes-with (release/acquire accesses, release sequences through RMWs, fences) computed per execution as vector clocks',
                  outside='executions that are not sequentially consistent (only reachable through relaxed atomics whose values the code does not branch on); consume ordering'),
             dict(engine='e2', name='mutex_hb', tu='C07.cpp', mode='hb', scenarios=mtx, opts={'loop_bound': 3, 'rec_bound': 2}, timeout_s=900,
                  space='the C07 contention scenarios: the critical section writes plain shared cells (owner, grant counter, statistics), so mutual exclusion must be backed by happens-before',
                  bounds='2 threads; all SC interleavings', outside='as above')]
    return units
