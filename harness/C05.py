import itertools, os

OPS = ['spawn child (detach, suspend point discarded)', 'spawn child and co_await the suspend point', 'co_await pause()',
       'resolve promise 0, discard suspend point', 'resolve promise 1, discard suspend point',
       'resolve promise 0 and co_await the suspend point', 'resolve promise 1 and co_await the suspend point',
       'co_await future 0', 'co_await future 1']
NOPS = len(OPS)
SPAWNS = (0, 1)
MAXC = 4


def programs(total, entries, exact=False, ops=range(NOPS)):
    """every program (entry, scripts) with <= total scripted steps; a coroutine exists iff it is a root or is spawned"""
    out = []
    for e in entries:
        m = 1 if e == 0 else e

        def rec(i, n, left, scripts):
            if i == n:
                yield list(scripts)
                return
            for L in range(0, min(left, 4) + 1):
                for o in itertools.product(ops, repeat=L):
                    ns = sum(1 for x in o if x in SPAWNS)
                    if n + ns > MAXC:
                        continue
                    yield from rec(i + 1, n + ns, left - L, scripts + [list(o)])
        for sc in rec(0, m, total, []):
            if exact and sum(len(s) for s in sc) != total:
                continue
            out.append((e, sc))
    return out


def canonical(p):
    """the two gates are interchangeable: the first one mentioned is gate 0"""
    for s in p[1]:
        for o in s:
            if o >= 3:
                return (o - 3) % 2 == 0
    return True


def one_gate(p):
    return all(o < 3 or (o - 3) % 2 == 0 for s in p[1] for o in s)


def vec(p):
    v = [p[0]]
    for s in p[1]:
        v.append(len(s))
        v += s
    return v


def rr_programs(quick):
    """pause-only round-robin: m roots queued from a coroutine-mode context, coroutine i pauses p_i times"""
    out = []
    if quick:
        sets = [(1,), (4,), (1, 1), (2, 2), (4, 4), (1, 3), (3, 0), (1, 1, 1), (2, 2, 2), (4, 4, 4), (1, 2, 3), (3, 0, 2), (1, 1, 1, 1), (2, 2, 2, 2), (4, 4, 4, 4),
                (1, 2, 3, 4), (4, 0, 2, 1), (0, 0, 0, 3)]
    else:
        sets = [t for m in (1, 2, 3, 4) for t in itertools.product(range(5), repeat=m)]
    for t in sets:
        out.append((len(t), [[2] * k for k in t]))
    return out


def plan(tier):
    quick = tier == 'quick'
    if quick:
        progs = [p for p in programs(2, (0, 1)) if canonical(p)] + \
                [p for p in programs(3, (0,), exact=True) if one_gate(p) and p[1][0] and p[1][0][0] in SPAWNS]
        space = ('every program of <= 2 scripted steps in total, started from normal code or from a coroutine-mode context; every program of exactly 3 steps that uses '
                 'one promise/future pair and whose root begins by spawning a child, started from normal code')
    else:
        progs = [p for p in programs(3, (0, 1)) if canonical(p)] + [p for p in programs(4, (0,), exact=True) if one_gate(p)]
        space = ('every program of <= 3 scripted steps in total, started from normal code or from a coroutine-mode context; every program of exactly 4 steps that uses one '
                 'promise/future pair, started from normal code')
    rr = rr_programs(quick)
    conc = [([0, 2, 0, 2, 1, 2], [5, 6]), ([1, 3, 7, 0, 3, 1, 7], [9, 9]), ([0, 3, 1, 5, 2, 1, 7], [1, 2]), ([3, 2, 2, 2, 1, 2, 0], [0, 0]),
            ([0, 2, 0, 0, 1, 7, 1, 7], [4, 4]), ([0, 3, 0, 0, 5, 1, 7, 1, 7], [3, 3]), ([0, 1, 7], [8, 8]), ([2, 1, 8, 2, 7, 4], [1, 7])]
    common = dict(engine='e1', tu='C05.cpp', entry='h_prog', unwind=70,
                  data='values delivered through the two futures: unconstrained ints (they do not influence scheduling)',
                  outside='longer programs; more than 4 coroutines; normal-mode resolution of a promise with several waiters (direct resumption order is not part of the '
                          'property); start()/co_await of async<T> (C04); mutex, queue, signal as wake-up sources (C07-C09, C15: they reach the ready queue through the '
                          'same discarded/awaited suspend point); >= 64 queue pushes')
    extra = []
    if os.environ.get('VF_C05_NESTED'):
        # Opt-in probe, outside the property's program alphabet: step 9 = the running coroutine calls coro_queue::install_queue_and_call([]{}) itself.
        # The documentation promises a separate nested queue; the implementation shares the one thread-local deque, so a child queued before the call
        # runs inside it, before its creator has suspended (native trace 1 3 4 2 5). Expected to FAIL on the current tree.
        extra.append(dict(common, name='nested_install', vectors=[[0, 2, 0, 9, 0]], concrete=[([0, 2, 0, 9, 0], [0, 0])],
                          space='root: spawn child (discarded suspend point); install_queue_and_call([]{}); finish', bounds='-'))
    sf = [[0, 2, 0, 10, 0, 0], [0, 3, 1, 3, 10, 1, 7, 0], [1, 2, 0, 10, 0, 0], [0, 3, 0, 0, 10, 0, 0, 0], [0, 2, 10, 0, 0, 0], [0, 3, 0, 10, 2, 0, 0], [2, 1, 10, 1, 0, 0, 0],
          [0, 3, 1, 5, 10, 1, 7, 0], [0, 1, 10, 0]]
    extra.append(dict(common, name='start_future', vectors=sf, concrete=[(sf[0], [0, 0]), (sf[1], [3, 3])],
                      space='hand-written programs in which a running coroutine starts a child as a future (async::start(), step 10; the child finishes at once) after having made other coroutines ready '
                            'by detach / promise resolution: %s' % sf, bounds='9 programs'))
    uw = [vec(p) for p in progs if any(o in (7, 8) for s in p[1] for o in s)]
    if quick: uw = uw[::3]
    extra.append(dict(common, name='unwind_resolve', entry='h_prog_unwind', vectors=uw, concrete=[([0, 1, 7], [8, 8]), ([0, 2, 0, 0, 1, 7, 1, 7], [4, 4])],
                      space='the programs of unit `programs` that await a future%s; the harness resolves the promises still pending at the end from ordinary code WHILE AN EXCEPTION IS PROPAGATING '
                            '(a scope guard resolving during stack unwinding): still normal mode, the waiter must run at once and nothing may be left in the queue' % (' (every third)' if quick else ''),
                      bounds='as unit programs'))
    extra.append(dict(engine='e1', tu='C05raw.cpp', entry='h_raw_mode', unwind=20, name='raw_mode', vectors=[[h, m, n] for h in (0, 1) for m in (0, 1) for n in (0, 1)],
                      concrete=[([0, 0, 0], [7]), ([1, 1, 1], [8]), ([0, 1, 1], [9])],
                      space='a producer coroutine parked on a foreign awaitable and resumed by a plain handle.resume() (no coroutine queue active) or through coro_queue; it resolves the promises 1..2 consumer '
                            'coroutines wait for and co_awaits / discards the suspend points, then parks on a gate only the harness opens; full product',
                      data='delivered value (16 bit): symbolic', bounds='<= 3 coroutines', outside='see unit programs'))
    return extra + [
        dict(common, name='programs', vectors=[vec(p) for p in progs], concrete=conc,
             space=space + '. Steps: %s; a script ends with the coroutine finishing; promises still pending at the end are resolved by the harness (each a new outermost activation)' % (OPS,),
             bounds='<= %d scripted steps in total, <= 4 coroutines, 2 promise/future pairs (first mentioned is pair 0)' % (3 if quick else 4)),
        dict(common, name='round_robin', vectors=[vec(p) for p in rr], concrete=[([3, 2, 2, 2, 1, 2, 0], [0, 0]), ([4, 1, 2, 1, 2, 1, 2, 1, 2], [0, 0])],
             space='pause-only programs: m roots queued from a coroutine-mode context, coroutine i performs p_i pauses: %s' %
                   ('pause vectors %s' % [tuple(len(s) for s in p[1]) for p in rr] if quick else 'every (p_1..p_m) in {0..4}^m, m = 1..4'),
             bounds='<= 4 coroutines x <= 4 pauses'),
    ]
