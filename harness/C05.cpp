// C05 - coroutine-mode scheduling: run-to-suspension, FIFO ready queue, pause() round-robin, full drain.
// Scripted coroutine programs: the skeleton vector is a program (an entry context and one script per coroutine); real
// async<void> coroutines interpret the scripts against the real ready queue, futures, promises and suspend points.
// A reference model kept in lock-step (ghost FIFO of coroutine ids, "running" marker, waiter lists) is consulted at every
// point where a scripted coroutine gains or gives up control:
//   * a coroutine starts/resumes only while no other scripted coroutine (and no coroutine-mode entry context) is running;
//   * the coroutine that resumes is the oldest one queued (coroutines queued by ONE operation form a group whose internal
//     order the property does not fix; the target of an awaited suspend point may overtake the queue - symmetric transfer);
//   * pause() / an awaited suspend point re-queue the caller at the tail; nobody is resumed who was not made ready;
//   * when the outermost activation returns the ghost FIFO and the real queue are empty and coroutine mode is left.
#include "vf_cocls.h"
#include <cocls/async.h>
#include <cocls/future.h>
using namespace cocls;

namespace {
constexpr int MAXC = 4, MAXL = 4, NG = 2, ENTRY = 8;
enum Op { SPAWN = 0, SPAWN_AWAIT, PAUSE, RES0_D, RES1_D, RES0_A, RES1_A, AWAIT0, AWAIT1, NEST_CALL, START_FUT, NOPS };

struct Prog {
    // program
    int n = 0;                                  // number of coroutines the program creates
    int len[MAXC] = {0, 0, 0, 0};
    int ops[MAXC][MAXL];
    int gval[NG];
    // real objects
    future<int> gate[NG];
    promise<int> gate_p[NG];
    // reference model
    int created = 0;
    int gq[64], gg[64]; int gn = 0; int grp = 0;     // ghost FIFO: coroutine id, group
    unsigned direct = 0;                             // candidates for an immediate symmetric transfer
    int running = -1;
    bool active[MAXC] = {false, false, false, false};
    int resumes[MAXC] = {0, 0, 0, 0};
    int finished[MAXC] = {0, 0, 0, 0};
    int waiters[NG][MAXC]; int nw[NG] = {0, 0}; bool resolved[NG] = {false, false};

    void push(int id, int g) { gq[gn] = id; gg[gn] = g; ++gn; }
    void push1(int id) { push(id, ++grp); }
    // promise k is being resolved: its waiters become ready (one group); returns how many
    int model_resolve(int k, bool awaited) {
        if (resolved[k]) return 0;
        resolved[k] = true;
        int w = nw[k];
        if (w) { ++grp; for (int i = 0; i < w; ++i) { push(waiters[k][i], grp); if (awaited) direct |= 1u << waiters[k][i]; } }
        nw[k] = 0;
        return w;
    }
    void on_resume(int id) {
        VF_ASSERT(running == -1, "C05 a coroutine made ready does not run before the running coroutine suspends or finishes");
        VF_ASSERT(!active[id], "C05 a coroutine is never resumed while it is already running");
        int p = -1;
        for (int i = 0; i < gn; ++i) if (gq[i] == id && p < 0) p = i;
        VF_ASSERT(p >= 0, "C05 only a coroutine that was made ready is resumed, and only once");
        if (p >= 0) {
            if (!((direct >> id) & 1u)) {
                bool head = true;
                for (int i = 0; i < p; ++i) if (gg[i] != gg[p]) head = false;
                VF_ASSERT(head, "C05 queued coroutines are resumed in the order they were queued (FIFO; pause()/awaited suspend point re-queue at the tail)");
            }
            for (int i = p; i + 1 < gn; ++i) { gq[i] = gq[i + 1]; gg[i] = gg[i + 1]; }
            --gn;
        }
        direct = 0;
        running = id; active[id] = true; resumes[id]++;
        vf_out(id);
    }
    void on_suspend(int id) {
        VF_ASSERT(running == id, "VF_SPEC suspending coroutine is the running one");
        running = -1; active[id] = false;
    }
    void on_finish(int id) {
        VF_ASSERT(running == id, "VF_SPEC finishing coroutine is the running one");
        running = -1; active[id] = false; finished[id]++;
        vf_out(100 + id);
    }
    void outermost_returned() {
        VF_ASSERT(running == -1, "VF_SPEC nobody running in normal code");
        VF_ASSERT(gn == 0, "C05 when the outermost activation returns no ready coroutine is left un-run");
        VF_ASSERT(!coro_queue::is_active(), "C05 coroutine mode is left when the outermost activation returns");
        VF_ASSERT(coro_queue::queue_impl::instance._queue.empty(), "C05 the ready queue is fully drained when the outermost activation returns");
    }
};

bool g_unwinding = false;
struct UnwindResolve { Prog *P; int k; ~UnwindResolve() { (void)P->gate_p[k](P->gval[k]); } };

async<void> script(Prog *P, int id) {
    P->on_resume(id);
    for (int pc = 0; pc < P->len[id]; ++pc) {
        const int op = P->ops[id][pc];
        switch (op) {
        case SPAWN: {               // detach a child, discard the suspend point: the child is only queued
            int c = P->created++;
            P->push1(c);
            (void)script(P, c).detach();
            VF_ASSERT(P->resumes[c] == 0, "C05 a detached child whose suspend point is discarded does not start before its creator suspends");
            break; }
        case SPAWN_AWAIT: {         // detach a child and co_await the suspend point: child runs now, creator re-queued at the tail
            int c = P->created++;
            P->push1(c); P->direct |= 1u << c;
            P->push1(id);
            P->on_suspend(id);
            co_await script(P, c).detach();
            P->on_resume(id);
            break; }
        case PAUSE:
            P->push1(id);
            P->on_suspend(id);
            co_await cocls::pause();
            P->on_resume(id);
            break;
        case RES0_D: case RES1_D: { // resolve a promise, discard the suspend point: waiters are only queued
            int k = op - RES0_D;
            P->model_resolve(k, false);
            (void)P->gate_p[k](P->gval[k]);
            break; }
        case RES0_A: case RES1_A: { // resolve a promise and co_await the suspend point
            int k = op - RES0_A;
            int w = P->model_resolve(k, true);
            if (w) {
                P->push1(id);
                P->on_suspend(id);
                co_await P->gate_p[k](P->gval[k]);
                P->on_resume(id);
            } else {
                co_await P->gate_p[k](P->gval[k]);      // nothing became ready: must not give up control
            }
            break; }
        case START_FUT: {           // start a child as a future (async::start()) from inside the running coroutine: the child runs now, nested in
                                    // this activation; nothing else may run before the starter suspends or finishes (plans give the child an empty script)
            int c = P->created++;
            P->push1(c); P->direct |= 1u << c;
            int before = 0;
            for (int i = 0; i < MAXC; ++i) if (i != c) before += P->resumes[i];
            P->running = -1;                        // the child executes inside the call
            {
                future<void> f = script(P, c).start();
                VF_ASSERT(f.ready(), "VF_SPEC the child started as a future has an empty script and finishes at once");
            }
            int after = 0;
            for (int i = 0; i < MAXC; ++i) if (i != c) after += P->resumes[i];
            VF_ASSERT(after == before, "C05 a coroutine made ready does not run before the running coroutine suspends or finishes (it ran inside a nested start())");
            VF_ASSERT(P->running == -1 && P->finished[c] == 1, "VF_SPEC the nested child finished");
            P->running = id;
            break; }
        case NEST_CALL:             // not part of the default plans (see C05.py): the running coroutine calls install_queue_and_call itself
            coro_queue::install_queue_and_call([] {});
            break;
        case AWAIT0: case AWAIT1: {
            int k = op - AWAIT0;
            int v;
            if (P->resolved[k]) {
                v = co_await P->gate[k];                // already resolved: must not give up control
            } else {
                P->waiters[k][P->nw[k]++] = id;
                P->on_suspend(id);
                v = co_await P->gate[k];
                P->on_resume(id);
            }
            vf_out(200 + (v & 0xff));
            break; }
        }
        VF_ASSERT(P->running == id, "C05 a scripted step that does not suspend keeps control (nothing else ran in between)");
    }
    P->on_finish(id);
}
} // namespace

void prog(); 
extern "C" void h_prog() { g_unwinding = false; prog(); }
extern "C" void h_prog_unwind() { g_unwinding = true; prog(); }
void prog() {
    vf_warmup();
    Prog P;
    // ---- read the program: entry context, then one script per coroutine that will exist
    const int entry = vf_choice(MAXC + 1);          // 0: one root started from normal code; m >= 1: m roots detached from a coroutine-mode context
    const int roots = entry == 0 ? 1 : entry;
    P.n = roots;
    for (int i = 0; i < P.n; ++i) {
        P.len[i] = vf_choice(MAXL + 1);
        for (int j = 0; j < P.len[i]; ++j) {
            P.ops[i][j] = vf_choice(NOPS);
            if (P.ops[i][j] == SPAWN || P.ops[i][j] == SPAWN_AWAIT || P.ops[i][j] == START_FUT) P.n++;
        }
        VF_ASSERT(P.n <= MAXC, "VF_SPEC program creates at most 4 coroutines");
        VF_ASSUME(P.n <= MAXC);
    }
    for (int k = 0; k < NG; ++k) P.gval[k] = nondet_int();
    const long base = vf_live_allocs();
    for (int k = 0; k < NG; ++k) P.gate_p[k] = P.gate[k].get_promise();
    // ---- enter
    if (entry == 0) {
        int c = P.created++;
        P.push1(c);
        (void)script(&P, c).detach();               // normal mode: the discarded suspend point runs the root now
    } else {
        P.running = ENTRY;
        coro_queue::install_queue_and_call([&] {
            for (int i = 0; i < roots; ++i) {
                int c = P.created++;
                P.push1(c);
                (void)script(&P, c).detach();
                VF_ASSERT(P.resumes[c] == 0, "C05 in coroutine mode a detached coroutine is queued, not started");
            }
            P.running = -1;                         // the entry context ends here; the queue is drained on the way out
        });
    }
    P.outermost_returned();
    // ---- resolve what is still pending so that every coroutine finishes (each resolution is a new outermost activation)
    for (int k = 0; k < NG; ++k) {
        if (P.resolved[k]) continue;
        if (P.nw[k] <= 1) {
            P.model_resolve(k, false);
            if (!g_unwinding) (void)P.gate_p[k](P.gval[k]);           // normal mode: the only waiter (if any) runs now
            else {
                // the same from ordinary code while an exception is propagating (a scope guard that resolves during stack unwinding): still normal mode, the waiter runs now
                try { UnwindResolve guard{&P, k}; throw vf_tag_exc{7}; } catch (const vf_tag_exc &) { }
            }
        } else {
            // several waiters: resumed directly one after another in normal mode, which the property says nothing about;
            // resolve from a coroutine-mode context instead so that they are queued
            P.running = ENTRY;
            coro_queue::install_queue_and_call([&] {
                P.model_resolve(k, false);
                (void)P.gate_p[k](P.gval[k]);
                P.running = -1;
            });
        }
        P.outermost_returned();
    }
    // ---- everything has run
    VF_ASSERT(P.created == P.n, "VF_SPEC every coroutine of the program was created");
    for (int i = 0; i < P.n; ++i) {
        VF_ASSERT(P.finished[i] == 1, "C05 every coroutine of the program ran to its end exactly once");
        VF_ASSERT(P.resumes[i] >= 1, "VF_SPEC resumed");
    }
    VF_ASSERT(vf_live_allocs() == base, "C05 every finished coroutine frame is freed");
    vf_out(P.created);
    vf_choice_end();
    vf_witness();
}
