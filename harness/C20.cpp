// C20 - the core synchronisation primitives never allocate.
// Every entry point runs a short program composed of the operations the property names. Each operation is
// wrapped in an allocation region (vf_region_begin/vf_region_end count calls of the global operator new); the
// number counted must equal the number of heap coroutine frames the *harness* created in that region
// (harness coroutines are with_allocator<default_storage,...> = one operator new per frame, or
// with_allocator<placement_alloc,...> = none). A second, program-wide count (vf_total_allocs) makes sure nothing
// escapes the regions. Values, tags and payloads are symbolic; which operations run is the skeleton vector.
//
// Stated exclusion (DESIGN.md C20): the per-thread ready queue is a std::deque. vf_warmup() forces its one-time
// allocations before the first region and every program here performs far fewer than 64 ready-queue pushes.
//
// The file is compiled once per part (-DC20_PART=n) so that every solver query loads only the code it needs:
//   0 future<int> (waiter kinds A)   1 future<int> (waiter kinds B)   2 future<void>   3 future<small>
//   4 mutex                          5 suspend_point                  6 generator<int> 7 generator<small>, generator<int,int>
#include "vf_cocls.h"
#include <cocls/future.h>
#include <cocls/async.h>
#include <cocls/mutex.h>
#include <cocls/generator.h>
#include <cocls/coro_storage.h>
#include <cocls/callback_awaiter.h>
using namespace cocls;

#define NOINL __attribute__((noinline))

namespace {

struct small { int a; short b; char c; };          // a value type that does not allocate

long g_frames;         // heap coroutine frames created by the harness in the current region
long g_frames_total;   // ... since the program-wide baseline
long g_base_total;
int g_mode;            // 0: operations are called from a plain thread, 1: with an active coroutine queue (as inside a coroutine)

inline void heap_frame() { ++g_frames; ++g_frames_total; }

#define R_BEGIN() do { g_frames = 0; vf_region_begin(); } while (0)
#define R_END(what) do { long n_ = vf_region_end(); VF_ASSERT(n_ == g_frames, "C20 " what); } while (0)

template<class F> NOINL void call_once(F &f) { f(); }
// run one operation in the selected mode; in coroutine mode the ready queue is flushed when the operation returns
template<class F> void in_mode(F &&f) {
    if (g_mode) coro_queue::install_queue_and_call([&] { call_once(f); }); else call_once(f);
}
#define OP(what, ...) do { R_BEGIN(); in_mode([&] { __VA_ARGS__; }); R_END(what); } while (0)

default_storage g_dflt;
constexpr int BUFSZ = 256;
alignas(16) char g_buf[5][BUFSZ];      // memory for frames under the non-heap policy (placement_alloc)

inline void program_begin() {
    vf_warmup();
    g_frames_total = 0;
    g_base_total = vf_total_allocs();
}
inline void program_end() {
    VF_ASSERT(vf_total_allocs() - g_base_total == g_frames_total,
              "C20 the whole program allocated nothing but the heap coroutine frames the harness created");
    // placement_alloc does not check sizes: make sure the harness buffers were large enough (their tails stay untouched)
    bool ok = true;
    for (int i = 0; i < 5; ++i) ok = ok && *reinterpret_cast<long *>(&g_buf[i][BUFSZ - 8]) == 0;
    VF_ASSERT(ok, "VF_SPEC harness frame buffers too small");
}

template<typename V> long obs(V &v) {
    if constexpr (std::is_same_v<V, small>) return (v.a & 0xff) + v.b + v.c; else return v & 0xff;
}
template<typename V> V mk(int d) {
    if constexpr (std::is_same_v<V, small>) return small{d, (short)3, (char)1}; else return d;
}

#if C20_PART <= 3
// ================================================================= future / promise
#if C20_PART <= 1
using T = int;
#elif C20_PART == 2
using T = void;
#else
using T = small;
#endif
#define KINDS_B (C20_PART == 1)

template<typename U> NOINL long read_future(future<U> &f) {
    try {
        if constexpr (std::is_void_v<U>) { f.value(); return 1; } else return 1 + obs(f.value());
    } catch (const vf_tag_exc &e) { return 1000 + e.tag; } catch (...) { return 2000; }
}

// awaiting coroutine (a user coroutine: its frame is the only allocation it may cause)
template<typename A>
NOINL with_allocator<A, async<void> > co_waiter(A &, future<T> &f, long *got) {
    try {
        if constexpr (std::is_void_v<T>) { co_await f; *got = 1; }
        else { auto &v = co_await f; *got = 1 + obs(v); }
    } catch (const vf_tag_exc &e) { *got = 1000 + e.tag; }
    catch (...) { *got = 2000; }
}

template<typename U> NOINL suspend_point<bool> do_resolve(promise<U> &p, int outcome, int d, std::exception_ptr &e) {
    if (outcome == 0) { if constexpr (std::is_void_v<U>) return p(); else return p(mk<U>(d)); }
    if (outcome == 1) return p(e);
    if (outcome == 2) return p(drop);
    { promise<U> victim(std::move(p)); }          // the promise object dies unresolved
    return suspend_point<bool>(true);
}

struct CbCtx { int called; };
suspend_point<void> cb_fn(awaiter *, void *ctx) noexcept { ++static_cast<CbCtx *>(ctx)->called; return {}; }

#if KINDS_B
// awaiting coroutine using has_value()
NOINL with_allocator<placement_alloc, async<void> > co_has_value(placement_alloc &, future<T> &f, long *got) {
    bool b = co_await f.has_value();
    *got = b ? 1 : 2000;
}
struct CbAwaitFn {
    long *g;
    void operator()(await_result<T> r) {
        try { *g = 1 + obs(*r); }
        catch (const vf_tag_exc &e) { *g = 1000 + e.tag; } catch (...) { *g = 2000; }
    }
};
enum { K_CORO_HEAP, K_HASVAL_PLACE, K_CBAWAIT_HEAP, K_CBAWAIT_PLACE, K_N, K_CORO_PLACE = 100, K_SYNC, K_CALLBACK };
#else
// resolving coroutine: co_await on the suspend point returned by the promise
NOINL with_allocator<placement_alloc, async<void> > co_resolver(placement_alloc &, promise<T> &p, int outcome, int d, std::exception_ptr *e) {
    suspend_point<bool> sp = do_resolve(p, outcome, d, *e);
    bool r = co_await sp;
    vf_out(r);
}
enum { K_CORO_HEAP, K_CORO_PLACE, K_SYNC, K_CALLBACK, K_N, K_HASVAL_PLACE = 100, K_CBAWAIT_HEAP, K_CBAWAIT_PLACE };
#endif

struct Fut {
    long got[3] = {0, 0, 0};
    sync_awaiter sa[3];
    CbCtx cb[3] = {{0}, {0}, {0}};
    placement_alloc pa[4] = {g_buf[0], g_buf[1], g_buf[2], g_buf[3]};
    future<void> done[4];
    promise<T> p;
    int kinds[3] = {0, 0, 0};
};

NOINL void attach(Fut &c, future<T> &f, co_awaiter<future<T> > &ca, int i) {
    switch (c.kinds[i]) {
    case K_CORO_HEAP:
        OP("awaiting a future from a coroutine allocates only the coroutine's own frame",
           heap_frame(); c.done[i] << [&] { return co_waiter<default_storage>(g_dflt, f, &c.got[i]).start(); });
        break;
#if KINDS_B
    case K_HASVAL_PLACE:
        OP("awaiting has_value() from a coroutine with a non-heap frame allocates nothing",
           c.done[i] << [&] { return co_has_value(c.pa[i], f, &c.got[i]).start(); });
        break;
    case K_CBAWAIT_HEAP:
        OP("callback_await allocates exactly its coroutine frame",
           heap_frame(); callback_await<future<T> &>(CbAwaitFn{&c.got[i]}, f));
        break;
    default:
        OP("callback_await_alloc with a non-heap storage allocates nothing",
           callback_await_alloc<placement_alloc, future<T> &>(c.pa[i], CbAwaitFn{&c.got[i]}, f));
        break;
#else
    case K_CORO_PLACE:
        OP("awaiting a future from a coroutine with a non-heap frame allocates nothing",
           c.done[i] << [&] { return co_waiter<placement_alloc>(c.pa[i], f, &c.got[i]).start(); });
        break;
    case K_SYNC:          // what a blocking thread does in co_awaiter::sync(): a sync_awaiter on its stack
        OP("a blocking waiter allocates nothing",
           if (f.ready()) { f.sync(); c.got[i] = read_future(f); }
           else if (!f.operator co_await().subscribe(&c.sa[i])) c.got[i] = read_future(f));
        break;
    default:
        OP("registering a callback awaiter allocates nothing",
           if (ca.await_ready() || !ca.await_suspend(&cb_fn, &c.cb[i])) { ++c.cb[i].called; });
        break;
#endif
    }
}

void fut_program() {
    g_mode = vf_choice(2);
    const int create = vf_choice(3);     // 0 default-construct + get_promise, 1 construct from a promise-receiving function, 2 operator<< (result_of)
    const int outcome = vf_choice(4);    // 0 value, 1 exception, 2 drop tag, 3 promise object destroyed
    const int rstyle = vf_choice(3);     // 0 discard the returned suspend point, 1 keep it and clear() it, 2 from a coroutine that co_awaits it (kinds A only)
    const int timing = vf_choice(2);     // 0 waiters register, then resolution; 1 resolution first
    const int n = vf_choice(4);
    Fut c;
    for (int i = 0; i < n; ++i) c.kinds[i] = vf_choice(K_N);
    const int d = nondet_int();
    const int tag = nondet_uchar();
    std::exception_ptr exc = vf_make_exc(tag);
    program_begin();
    {
        R_BEGIN();
        future<T> f_plain;
        future<T> f_fn([&](promise<T> pr) { if (create == 1) c.p = std::move(pr); else pr(drop); });
        if (create == 0) c.p = f_plain.get_promise();
        if (create == 2) f_plain << [&] { return future<T>([&](promise<T> pr) { c.p = std::move(pr); }); };
        future<T> &f = create == 1 ? f_fn : f_plain;
        co_awaiter<future<T> > ca[3] = {f, f, f};
        R_END("creating a future/promise pair does not allocate");
        VF_ASSERT(f.pending(), "VF_SPEC harness: pair is pending");

        if (timing == 0) for (int i = 0; i < n; ++i) attach(c, f, ca[i], i);

#if !KINDS_B
        if (rstyle == 2) {
            OP("resolving from a coroutine (non-heap frame) that awaits the returned suspend point allocates nothing",
               c.done[3] << [&] { return co_resolver(c.pa[3], c.p, outcome, d, &exc).start(); });
        } else
#endif
        if (rstyle == 1) {
            OP("resolving a promise, keeping the suspend point and clearing it allocates nothing",
               suspend_point<bool> sp = do_resolve(c.p, outcome, d, exc); vf_out(sp.size()); sp.clear());
        } else {
            OP("resolving a promise (value, exception or drop) and resuming its waiters allocates nothing",
               do_resolve(c.p, outcome, d, exc));
        }
        VF_ASSERT(f.ready(), "VF_SPEC harness: future resolved");

        if (timing == 1) for (int i = 0; i < n; ++i) attach(c, f, ca[i], i);

#if !KINDS_B
        OP("a blocking waiter that was woken up allocates nothing",
           for (int i = 0; i < n; ++i) if (c.kinds[i] == K_SYNC && c.got[i] == 0) { c.sa[i].wait_sync(); c.got[i] = read_future(f); });
#endif
        OP("reading a resolved future allocates nothing",
           vf_out(read_future(f)); vf_out(f.has_value() ? 1 : 0));
        for (int i = 0; i < n; ++i) vf_out(c.kinds[i] == K_CALLBACK ? c.cb[i].called : c.got[i]);
        R_BEGIN();
    }
    R_END("destroying a resolved future allocates nothing");
    program_end();
    vf_choice_end();
    vf_witness();
}
#endif

#if C20_PART == 0
// ----------------------------------------------------------------- a pipeline of futures: the callback awaiter of future #1 resolves promise #2
// from inside its notification (resolution nested in the walk of another awaiter chain); future #2 has a waiter of its own at that moment, or none.
struct ChainCtx { Fut *c2; int outcome, d, style, called; std::exception_ptr *exc; };
suspend_point<void> cb_chain(awaiter *, void *ctx) noexcept {
    ChainCtx *x = static_cast<ChainCtx *>(ctx);
    ++x->called;
    if (x->style == 0) { do_resolve(x->c2->p, x->outcome, x->d, *x->exc); return {}; }       // suspend point discarded inside the callback
    suspend_point<bool> sp = do_resolve(x->c2->p, x->outcome, x->d, *x->exc);                  // ... or handed back to whoever resolved future #1
    suspend_point<void> r; r << std::move(sp); return r;
}
void fut_chain_program() {
    g_mode = vf_choice(2);
    const int outcome = vf_choice(4);
    const int style = vf_choice(2);
    const int n2 = vf_choice(3);          // waiters of future #2 (registered before the pipeline fires)
    Fut c1, c2;
    for (int i = 0; i < n2; ++i) c2.kinds[i] = vf_choice(K_N);
    const int d = nondet_int();
    const int tag = nondet_uchar();
    std::exception_ptr exc = vf_make_exc(tag);
    program_begin();
    {
        R_BEGIN();
        future<T> f1, f2;
        c1.p = f1.get_promise(); c2.p = f2.get_promise();
        co_awaiter<future<T> > ca1(f1);
        co_awaiter<future<T> > ca2[3] = {f2, f2, f2};
        ChainCtx cx{&c2, outcome, d, style, 0, &exc};
        R_END("creating future/promise pairs does not allocate");
        for (int i = 0; i < n2; ++i) attach(c2, f2, ca2[i], i);
        OP("registering a callback awaiter allocates nothing",
           if (ca1.await_ready() || !ca1.await_suspend(&cb_chain, &cx)) { VF_ASSERT(false, "VF_SPEC harness: future #1 pending"); });
        OP("resolving a promise whose callback waiter resolves another awaited promise allocates nothing",
           do_resolve(c1.p, 0, d, exc));
        VF_ASSERT(cx.called == 1 && f1.ready() && f2.ready(), "VF_SPEC harness: pipeline fired");
        OP("a blocking waiter that was woken up allocates nothing",
           for (int i = 0; i < n2; ++i) if (c2.kinds[i] == K_SYNC && c2.got[i] == 0) { c2.sa[i].wait_sync(); c2.got[i] = read_future(f2); });
        OP("reading a resolved future allocates nothing", vf_out(read_future(f2)); vf_out(read_future(f1)));
        for (int i = 0; i < n2; ++i) vf_out(c2.kinds[i] == K_CALLBACK ? c2.cb[i].called : c2.got[i]);
        R_BEGIN();
    }
    R_END("destroying resolved futures allocates nothing");
    program_end();
    vf_choice_end();
    vf_witness();
}
extern "C" void h_fut_chain() { fut_chain_program(); }
#endif

#if C20_PART == 4
// ================================================================= mutex
struct Mx {
    mutex mx;
    int seq = 0;
    int rel = 0;                       // how holders release: 0 ownership destructor, 1 release() discarded, 2 release() awaited / cleared
    long order[4] = {0, 0, 0, 0};
    future<void> gate[4];              // a coroutine holder keeps the mutex until the harness opens its gate
    promise<void> open[4];
    future<void> done[4];
    sync_awaiter sa[4];
    placement_alloc pa[4] = {g_buf[0], g_buf[1], g_buf[2], g_buf[3]};
};

template<typename A>
NOINL with_allocator<A, async<void> > co_locker(A &, Mx &c, int i) {
    mutex::ownership own = co_await c.mx.lock();
    c.order[i] = ++c.seq;
    co_await c.gate[i];
    if (c.rel == 1) own.release();                   // suspend point discarded: the new owner is scheduled
    else if (c.rel == 2) co_await own.release();     // hand-over by symmetric transfer
    // rel == 0: the ownership object's destructor releases
}

NOINL void thread_release(Mx &c, mutex::ownership &own) {
    if (c.rel == 0) { mutex::ownership victim(std::move(own)); }
    else if (c.rel == 1) own.release();
    else { suspend_point<void> sp = own.release(); vf_out(sp.size()); sp.clear(); }
}

void mutex_program() {
    g_mode = vf_choice(2);
    const int n = 1 + vf_choice(4);       // holder 0 takes the free mutex, holders 1..n-1 contend
    int kinds[4] = {0, 0, 0, 0};          // 0 coroutine (heap frame), 1 coroutine (non-heap frame), 2 blocking thread, 3 (holder 0 only) try_lock
    kinds[0] = vf_choice(4);
    for (int i = 1; i < n; ++i) kinds[i] = vf_choice(3);
    program_begin();
    {
        R_BEGIN();
        Mx c;
        c.rel = vf_choice(3);
        const int pre = vf_choice(2);      // 1: the gates of the contending coroutines are open before they get the mutex: each new owner releases at once, inside the hand-over that resumed it
        mutex::ownership own[4];
        co_awaiter<mutex> aw[4] = {c.mx, c.mx, c.mx, c.mx};
        for (int i = 0; i < n; ++i) if (kinds[i] < 2) c.open[i] = c.gate[i].get_promise();
        R_END("creating a mutex (and the futures the harness coroutines wait on) allocates nothing");

        for (int i = 0; i < n; ++i) {
            if (kinds[i] == 0) {
                OP("locking / contending from a coroutine allocates only the coroutine's own frame",
                   heap_frame(); c.done[i] << [&] { return co_locker<default_storage>(g_dflt, c, i).start(); });
            } else if (kinds[i] == 1) {
                OP("locking / contending from a coroutine with a non-heap frame allocates nothing",
                   c.done[i] << [&] { return co_locker<placement_alloc>(c.pa[i], c, i).start(); });
            } else if (kinds[i] == 3) {
                OP("try_lock allocates nothing", own[0] = c.mx.try_lock(); c.order[0] = ++c.seq);
            } else if (i == 0) {
                OP("a blocking thread taking the free mutex allocates nothing", own[0] = mutex::ownership(c.mx.lock()); c.order[0] = ++c.seq);
            } else {    // what co_awaiter::sync() does for a blocking thread: sync_awaiter on the stack, subscribed to the mutex
                OP("a blocking thread contending on the mutex allocates nothing",
                   bool q = !aw[i].await_ready() && aw[i].subscribe(&c.sa[i]); VF_ASSERT(q, "VF_SPEC harness: contender queued"));
            }
            if (i == 0) OP("try_lock on a held mutex allocates nothing", mutex::ownership t = c.mx.try_lock(); vf_out(!t));
        }
        if (pre) for (int i = 1; i < n; ++i) if (kinds[i] < 2) OP("resolving a future nobody awaits yet allocates nothing", c.open[i]());
        for (int i = 0; i < n; ++i) {      // the mutex is handed over in FIFO order; every holder releases in turn
            if (kinds[i] < 2) {
                if (!(pre && i >= 1))
                OP("releasing the mutex from a coroutine (destructor, release(), awaited release()) and handing it over allocates nothing",
                   c.open[i]());
            } else {
                if (i > 0) OP("a woken blocking thread taking over the mutex allocates nothing",
                              c.sa[i].wait_sync(); own[i] = aw[i].await_resume(); c.order[i] = ++c.seq);
                OP("releasing the mutex from a thread and handing it over allocates nothing", thread_release(c, own[i]));
            }
        }
        for (int i = 0; i < n; ++i) vf_out(c.order[i]);
        OP("locking the released mutex again allocates nothing", mutex::ownership t = c.mx.try_lock(); vf_out(!t));
        R_BEGIN();
    }
    R_END("destroying the mutex allocates nothing");
    program_end();
    vf_choice_end();
    vf_witness();
}
#endif

#if C20_PART == 5
// ================================================================= suspend_point
template<typename A>
NOINL with_allocator<A, async<void> > co_sp(A &, suspend_point<void> &sp, int *reached) {
    co_await sp;
    *reached = 1;
}

void sp_program() {
    g_mode = vf_choice(2);
    const int build = vf_choice(3);       // 0 constructed from a handle then <<, 1 default-constructed then <<, 2 coro_queue::create_suspend_point
    const int n1 = vf_choice(4);          // handles carried by the first suspend point
    const int n2 = vf_choice(4 - n1);     // handles carried by a second one that is merged into the first (total <= 3)
    const int typed = vf_choice(2);       // also wrap into suspend_point<bool> and back
    const int npop = vf_choice(n1 + n2 + 1);
    const int fin = vf_choice(4);         // 0 destructor, 1 clear(), 2 co_await from a coroutine (heap frame), 3 co_await from a coroutine (non-heap frame)
    vf_fake_coro fc[3];
    std::coroutine_handle<> h[3];
    for (int i = 0; i < 3; ++i) h[i] = vf_fake_handle(fc[i], i);
    placement_alloc pa(g_buf[0]);
    future<void> done;
    int reached = 0;
    program_begin();
    {
        R_BEGIN();
        suspend_point<void> keep;
        R_END("creating an empty suspend point allocates nothing");
        OP("building, merging, moving and popping suspend points with up to three handles allocates nothing",
           auto make = [&](int from, int cnt) -> suspend_point<void> {
               if (build == 2) return coro_queue::create_suspend_point([&] { for (int k = 0; k < cnt; ++k) coro_queue::resume(h[from + k]); });
               if (build == 0 && cnt > 0) {
                   suspend_point<void> s(h[from]);
                   for (int k = 1; k < cnt; ++k) s << std::coroutine_handle<>(h[from + k]);
                   return s;
               }
               suspend_point<void> s;
               for (int k = 0; k < cnt; ++k) s << std::coroutine_handle<>(h[from + k]);
               return s;
           };
           suspend_point<void> a = make(0, n1);
           suspend_point<void> b = make(n1, n2);
           a << std::move(b);
           vf_out(a.size()); vf_out(b.size());
           for (int k = 0; k < npop; ++k) a.pop().resume();
           if (typed) { suspend_point<bool> t(std::move(a), true); vf_out(t.size()); bool v = t; vf_out(v); keep << std::move(t); }
           else { suspend_point<void> m(std::move(a)); keep = std::move(m); }
           vf_out(keep.size()));
        if (fin == 0) {
            OP("destroying a suspend point (resumes what it carries) allocates nothing", suspend_point<void> victim(std::move(keep)));
        } else if (fin == 1) {
            OP("clearing a suspend point (resumes what it carries) allocates nothing", keep.clear());
        } else if (fin == 2) {
            OP("awaiting a suspend point from a coroutine allocates only the coroutine's own frame",
               heap_frame(); done << [&] { return co_sp<default_storage>(g_dflt, keep, &reached).start(); });
        } else {
            OP("awaiting a suspend point from a coroutine with a non-heap frame allocates nothing",
               done << [&] { return co_sp<placement_alloc>(pa, keep, &reached).start(); });
        }
        for (int i = 0; i < 3; ++i) vf_out(fc[i].resumed);
        vf_out(reached);
        R_BEGIN();
    }
    R_END("destroying an empty suspend point allocates nothing");
    program_end();
    vf_choice_end();
    vf_witness();
}
#endif

#if C20_PART >= 6
// ================================================================= synchronous generator
template<typename A, typename V>
NOINL with_allocator<A, generator<V> > gen_plain(A &, int n, int base, int end) {
    for (int i = 0; i < n; ++i) co_yield mk<V>(base + i);
    if (end == 1) throw vf_tag_exc{7};
}
template<typename A>
NOINL with_allocator<A, generator<int, int> > gen_arg(A &, int n, int base, int end) {
    int &first = co_yield nullptr;
    int a = first;
    for (int i = 0; i < n; ++i) { int v = base + a; int &r = co_yield v; a = r; }   // (g++ 12 ICEs on "a = co_yield v")
    if (end == 1) throw vf_tag_exc{7};
}

// consumer coroutine: asynchronous access to the (synchronous) generator
template<typename A, typename V>
NOINL with_allocator<A, async<void> > co_consumer(A &, generator<V> &gen, int k, int style, long *out) {
    for (int s = 0; s < k; ++s) {
        if (style == 3) {
            bool b = co_await gen.next();
            if (!b) { out[s] = -1; break; }
            try { out[s] = obs(gen.value()); } catch (...) { out[s] = 1000; break; }
        } else {
            future<V> f = gen();
            bool b = co_await f.has_value();
            if (!b) { out[s] = -1; break; }
            try { out[s] = obs(f.value()); } catch (...) { out[s] = 1000; break; }
        }
    }
}

template<typename V, bool with_arg>
void gen_program() {
    g_mode = vf_choice(2);
    const int galloc = vf_choice(2);      // generator frame: 0 heap, 1 non-heap
    const int n = vf_choice(4);           // number of values the generator yields
    const int end = vf_choice(2);         // 0 returns, 1 throws after the last value
    const int style = vf_choice(with_arg ? 1 : 6);   // 0 next()/value(), 1 call -> future, 2 iterator, 3 co_await next() (heap consumer), 4 co_await gen() (heap consumer), 5 co_await next() (non-heap consumer)
    const int k = vf_choice(6);           // number of steps the consumer attempts (it stops at the end of the sequence)
    const int base = nondet_int() & 0xffff;
    int arg = nondet_int() & 0xff;
    long out[5] = {0, 0, 0, 0, 0};
    placement_alloc pg(g_buf[0]), pc(g_buf[1]);
    future<void> done;
    using G = std::conditional_t<with_arg, generator<int, int>, generator<V> >;
    program_begin();
    {
        G gen;
        R_BEGIN();
        if constexpr (with_arg) {
            if (galloc == 0) { heap_frame(); gen = gen_arg<default_storage>(g_dflt, n, base, end); } else gen = gen_arg<placement_alloc>(pg, n, base, end);
        } else {
            if (galloc == 0) { heap_frame(); gen = gen_plain<default_storage, V>(g_dflt, n, base, end); } else gen = gen_plain<placement_alloc, V>(pg, n, base, end);
        }
        R_END("creating a generator allocates only its coroutine frame (nothing under a non-heap policy)");
        if constexpr (!with_arg) {
            if (style >= 3) {
                if (style == 5) {
                    OP("stepping a generator from a coroutine with a non-heap frame allocates nothing",
                       done << [&] { return co_consumer<placement_alloc, V>(pc, gen, k, 3, out).start(); });
                } else {
                    OP("stepping a generator from a coroutine allocates only that coroutine's frame",
                       heap_frame(); done << [&] { return co_consumer<default_storage, V>(g_dflt, gen, k, style, out).start(); });
                }
            } else if (style == 2) {
                OP("iterating a generator allocates nothing",
                   int s = 0;
                   try { for (auto it = gen.begin(); s < k && it != gen.end(); ++it) out[s++] = obs(*it); } catch (...) { out[s] = 1000; });
            }
        }
        if (style < 2) {
            for (int s = 0; s < k; ++s) {
                bool stop = false;
                if (style == 0) {
                    OP("one step of a synchronous generator allocates nothing",
                       bool b; if constexpr (with_arg) b = gen.next(arg); else b = gen.next();
                       if (!b) { out[s] = -1; stop = true; }
                       else { try { out[s] = obs(gen.value()); } catch (...) { out[s] = 1000; stop = true; } });
                } else {
                    OP("one step of a synchronous generator through the future interface allocates nothing",
                       future<V> f;
                       if constexpr (with_arg) f << [&] { return gen(arg); }; else f << [&] { return gen(); };
                       if (!f.has_value()) { out[s] = -1; stop = true; }
                       else { try { out[s] = obs(f.value()); } catch (...) { out[s] = 1000; stop = true; } });
                }
                ++arg;
                if (stop) break;
            }
        }
        for (int s = 0; s < 5; ++s) vf_out(out[s]);
        vf_out(gen.done());
        R_BEGIN();
    }
    R_END("destroying a generator (finished or not) allocates nothing");
    program_end();
    vf_choice_end();
    vf_witness();
}
#endif
}

#if C20_PART == 0
extern "C" void h_fut_int() { fut_program(); }
#elif C20_PART == 1
extern "C" void h_fut_int_b() { fut_program(); }
#elif C20_PART == 2
extern "C" void h_fut_void() { fut_program(); }
#elif C20_PART == 3
extern "C" void h_fut_small() { fut_program(); }
#elif C20_PART == 4
extern "C" void h_mutex() { mutex_program(); }
#elif C20_PART == 5
extern "C" void h_sp() { sp_program(); }
#elif C20_PART == 6
extern "C" void h_gen_int() { gen_program<int, false>(); }
#elif C20_PART == 7
extern "C" void h_gen_small() { gen_program<small, false>(); }
extern "C" void h_gen_arg() { gen_program<int, true>(); }
#endif
