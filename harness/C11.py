"""C11 - thread pool. Skeleton vector layout (harness/C11.cpp, run_history):
   [pool size - 1, notify_one pick (0 lowest / 1 highest parked worker), number of ops, ops..., drain (0/1)]
   op: k in 0..5 followed by the job's inner action = submit (0 co_await pool, 1 run(fn), 2 run_detached, 3 run(async), 4 co_await pool(awaitable),
       5 resume(suspend_point)); 6 followed by t = run worker t+1; 7 = stop() from the harness thread
   inner action: 0 none, 1 pool.stop() from the job, 2 the job submits a run_detached job, 3 the job deletes the pool, 4 pool.stop() then submit
The plan enumerates histories with a small abstract simulation of the pool, only to (a) emit `run worker t` when t is runnable (otherwise the
harness reports VF_SPEC), (b) send the histories in which a raw-handle job (kinds 3,4,5) meets a stopped pool to the unit h_raw_cancel.
The simulation decides nothing: every verdict comes from the solver over the translated library code."""

K_COAWAIT, K_RUN_FN, K_DETACHED, K_RUN_ASYNC, K_POOL_AWT, K_RESUME_SP = range(6)
OP_RUN, OP_STOP = 6, 7
I_NONE, I_STOP, I_SUBMIT, I_DESTROY, I_STOP_SUBMIT = range(5)
RAW = (K_RUN_ASYNC, K_POOL_AWT, K_RESUME_SP)


class Sim:
    def __init__(s, n, pick):
        s.n = n; s.pick = pick
        s.exit = False; s.destroyed = False; s.joined = False
        s.queue = []
        s.thr = ['R'] * (n + 1)          # R not started, P parked, W parked+notified, X running, F finished
        s.jobs = []                      # [kind, inner, ran, cancelled(or dropped)]
        s.raw_dropped = False
        s.self_stopped = set()

    def clone(s):
        c = Sim.__new__(Sim)
        c.__dict__.update(s.__dict__)
        c.queue = list(s.queue); c.thr = list(s.thr); c.jobs = [list(j) for j in s.jobs]; c.self_stopped = set(s.self_stopped)
        return c

    def runnable(s, t): return s.thr[t] in 'RW'

    def cancel(s, j):
        s.jobs[j][3] = 1
        if s.jobs[j][0] in RAW: s.raw_dropped = True

    def submit(s, kind, inner):
        j = len(s.jobs); s.jobs.append([kind, inner, 0, 0])
        if s.exit: s.cancel(j); return
        s.queue.append(j)
        parked = [i for i in range(1, s.n + 1) if s.thr[i] == 'P']
        if parked: s.thr[parked[-1] if s.pick else parked[0]] = 'W'

    def stop(s, caller):
        s.exit = True
        for i in range(1, s.n + 1):
            if s.thr[i] == 'P': s.thr[i] = 'W'
        q, s.queue = s.queue, []
        if not s.joined:
            s.joined = True
            for t in range(1, s.n + 1):
                if t == caller: s.self_stopped.add(t)
                else:
                    assert s.runnable(t) or s.thr[t] == 'F', 'simulation: join would block'
                    if s.runnable(t): s.run(t)
        for j in q: s.cancel(j)

    def run(s, t):
        assert s.runnable(t)
        s.thr[t] = 'X'
        while True:
            if s.exit: s.thr[t] = 'F'; return
            if not s.queue: s.thr[t] = 'P'; return
            j = s.queue.pop(0)
            s.jobs[j][2] = 1
            inner = s.jobs[j][1]
            if inner == I_STOP: s.stop(t)
            elif inner == I_SUBMIT: s.submit(K_DETACHED, I_NONE)
            elif inner == I_DESTROY: s.stop(t); s.destroyed = True
            elif inner == I_STOP_SUBMIT: s.stop(t); s.submit(K_DETACHED, I_NONE)
            if t in s.self_stopped: s.thr[t] = 'F'; return

    def finish(s, drain):
        if drain:
            while True:
                r = [t for t in range(1, s.n + 1) if s.runnable(t)]
                if not r: break
                s.run(r[0])
        if not s.destroyed: s.stop(0); s.destroyed = True


def enum_histories(n, pick, maxops, maxsub, subs, run_all_ready, stop_ops=1, post_stop_subs=1):
    """yields (ops list flattened, Sim before the final phase)"""
    out = []

    def rec(sim, ops, nsub, nstop, nlen):
        out.append((list(ops), sim))
        if nlen == maxops or sim.destroyed: return
        if nsub < maxsub and len(sim.jobs) < 3 and (not sim.exit or sum(1 for x in ops_after_stop(ops)) < post_stop_subs):
            for (k, inner) in subs:
                if sim.exit and inner != I_NONE: continue          # a rejected job never runs: its inner action is irrelevant
                c = sim.clone(); c.submit(k, inner)
                rec(c, ops + [k, inner], nsub + 1, nstop, nlen + 1)
        seen_ready = False
        for t in range(1, n + 1):
            if not sim.runnable(t): continue
            if sim.thr[t] == 'R':
                if seen_ready and not run_all_ready: continue       # never-started workers are interchangeable up to their index
                seen_ready = True
            c = sim.clone(); c.run(t)
            rec(c, ops + [OP_RUN, t - 1], nsub, nstop, nlen + 1)
        if nstop < stop_ops and not sim.destroyed:
            c = sim.clone(); c.stop(0)
            rec(c, ops + [OP_STOP], nsub, nstop + 1, nlen + 1)

    def ops_after_stop(ops):
        i = 0; after = False
        while i < len(ops):
            if ops[i] == OP_STOP: after = True; i += 1
            elif ops[i] == OP_RUN: i += 2
            else:
                if after: yield ops[i]
                i += 2

    rec(Sim(n, pick), [], 0, 0, 0)
    return out


def nops_of(ops):
    i = 0; k = 0
    while i < len(ops):
        i += 1 if ops[i] == OP_STOP else 2
        k += 1
    return k


def vectors_for(n, pick, maxops, maxsub, subs, run_all_ready=False, **kw):
    good, raw = [], []
    for ops, sim in enum_histories(n, pick, maxops, maxsub, subs, run_all_ready, **kw):
        if not sim.jobs and ops: continue                           # histories without any job: only the empty one is kept
        idle = not any(sim.runnable(t) for t in range(1, n + 1))
        for drain in (1, 0):
            if drain == 0 and (idle or sim.destroyed): continue     # nothing would run: same as drain = 1
            c = sim.clone(); c.finish(drain)
            v = [n - 1, pick, nops_of(ops)] + ops + [drain]
            (raw if c.raw_dropped else good).append(v)
    return good, raw


def uniq(vs):
    seen = set(); out = []
    for v in vs:
        t = tuple(v)
        if t not in seen: seen.add(t); out.append(v)
    return out


ALL_PLAIN = [(k, I_NONE) for k in range(6)]
OWNING = [(K_COAWAIT, I_NONE), (K_RUN_FN, I_NONE), (K_DETACHED, I_NONE)]
INNER = [(K_DETACHED, I_STOP), (K_DETACHED, I_SUBMIT), (K_DETACHED, I_DESTROY), (K_COAWAIT, I_STOP), (K_COAWAIT, I_DESTROY), (K_DETACHED, I_STOP_SUBMIT)]


def plan(tier):
    good = []; raw = []
    def add(*a, **kw):
        g, r = vectors_for(*a, **kw); good.extend(g); raw.extend(r)
    S16 = ALL_PLAIN + INNER + [(K_RUN_FN, I_STOP), (K_RUN_ASYNC, I_STOP), (K_RESUME_SP, I_DESTROY), (K_POOL_AWT, I_SUBMIT)]
    if tier == 'quick':
        # one job of every kind / inner action in every position relative to run worker / stop(), pools of 1 and 2
        add(1, 0, 3, 1, S16)
        add(2, 0, 2, 1, ALL_PLAIN + INNER + [(K_RUN_FN, I_STOP)])
        # two jobs: FIFO on one worker, a job stopping the pool with another one queued, two workers, notify_one waking the other worker
        add(1, 0, 3, 2, [(K_COAWAIT, I_NONE), (K_DETACHED, I_STOP)])
        add(1, 0, 4, 2, [(K_RUN_FN, I_NONE)])
        add(2, 0, 3, 2, [(K_DETACHED, I_NONE), (K_DETACHED, I_STOP)])
        add(2, 1, 3, 2, [(K_COAWAIT, I_NONE)])
        # three jobs; three workers
        add(1, 0, 4, 3, [(K_DETACHED, I_NONE)])
        add(3, 0, 2, 1, [(K_DETACHED, I_NONE), (K_DETACHED, I_STOP)], run_all_ready=True)
        sizes = [1, 2, 3]; bound = '<= 4 ops, <= 3 submissions (+1 submitted by a job)'
    else:
        S24 = [(k, i) for k in range(6) for i in range(5)]
        add(1, 0, 3, 1, S24)
        add(2, 0, 3, 1, S24, run_all_ready=True)
        add(2, 1, 3, 1, S24)
        add(3, 0, 3, 1, ALL_PLAIN + INNER)
        add(3, 1, 2, 1, ALL_PLAIN + INNER, run_all_ready=True)
        add(1, 0, 4, 2, ALL_PLAIN + INNER[:3])
        add(2, 0, 4, 2, OWNING + INNER[:1])
        add(2, 1, 4, 2, [(K_RUN_FN, I_NONE), (K_RESUME_SP, I_NONE), (K_COAWAIT, I_DESTROY)])
        add(1, 0, 5, 3, [(K_COAWAIT, I_NONE), (K_DETACHED, I_STOP)])
        add(1, 0, 4, 3, [(K_DETACHED, I_NONE), (K_RUN_FN, I_NONE)])
        add(1, 0, 4, 3, [(K_RUN_FN, I_NONE), (K_DETACHED, I_STOP)], stop_ops=2)
        add(1, 0, 6, 3, [(K_DETACHED, I_NONE), (K_DETACHED, I_SUBMIT)])
        add(2, 0, 5, 3, [(K_DETACHED, I_NONE), (K_COAWAIT, I_STOP)])
        add(2, 1, 5, 3, [(K_RUN_FN, I_NONE), (K_COAWAIT, I_DESTROY)])
        add(3, 0, 4, 2, [(K_DETACHED, I_NONE), (K_DETACHED, I_STOP)], run_all_ready=True)
        add(3, 1, 4, 3, [(K_DETACHED, I_NONE)])
        sizes = [1, 2, 3]; bound = '<= 6 ops, <= 3 submissions (+1 submitted by a job)'
    good = uniq(good)
    # raw-handle jobs meeting a stopped pool (D9): one worker, one job, every way of meeting it
    rawv = []
    for k in RAW:
        rawv += [[0, 0, 2, OP_STOP, k, I_NONE, 1], [0, 0, 2, k, I_NONE, OP_STOP, 1], [0, 0, 1, k, I_NONE, 0],
                 [0, 0, 3, K_DETACHED, I_STOP, k, I_NONE, OP_RUN, 0, 1]]
    if tier != 'quick':
        rawv += [v for v in uniq(raw) if len(v) <= 9 and v[0] <= 1][:60]
    rawv = uniq(rawv)
    conc = [([0, 0, 2, 2, 0, 6, 0, 1], [7]), ([0, 0, 2, 7, 0, 0, 1], [3]), ([1, 0, 3, 0, 0, 1, 0, 6, 0, 0], [5, 6]),
            ([1, 1, 4, 6, 0, 6, 1, 2, 1, 6, 1, 1], [9]), ([0, 0, 3, 2, 2, 1, 0, 6, 0, 1], [1, 2, 3]), ([1, 0, 3, 6, 1, 0, 3, 6, 1, 1], [4]),
            ([0, 0, 2, 3, 0, 6, 0, 1], [11]), ([1, 0, 3, 4, 0, 5, 0, 6, 0, 1], [12, 13]), ([2, 0, 3, 6, 0, 6, 1, 2, 1, 1], [1])]
    model = ['cooperative thread model (rt/rt.h, native counterpart rt/native_threads.cpp): std::thread = table entry run by the harness/join until it '
             'returns or blocks in condition_variable::wait; a notified worker is re-run by calling its thread function again from the start '
             '(assumes thread_pool::worker() reaches the wait with no live state but the lock: `_current = this`, lock, re-evaluate the predicate); '
             'a parked thread becomes runnable only through notify_one/notify_all issued after it parked; notify_one wakes the lowest/highest parked '
             'index (skeleton input); no spurious wake-ups; join with nothing runnable = deadlock; thread_local = one copy per modelled thread, '
             'destroyed when the thread function returns; std::thread::hardware_concurrency() = 0']
    common = dict(engine='e1', tu='C11.cpp', unwind=14, concrete=conc, assumptions=model,
                  data='job payloads (results of run(fn)/run(async), value of the awaited future): unconstrained 32-bit ints (symbolic)')
    units = [dict(common, name='h_pool', entry='h_pool', vectors=good,
                  space='pool size in %s x whom notify_one wakes x histories over {submit(kind, inner action), run worker t, stop()} + optional drain + destruction; '
                        'kinds {co_await pool, run(fn), run_detached, run(async), co_await pool(awaitable), resume(suspend_point)}, inner action of a job '
                        '{none, pool.stop() from the worker, submit another job, delete the pool from the worker, stop() then submit}; raw-handle kinds only in histories where they get to run' % sizes,
                  bounds=bound + '; run-to-block scheduling granularity',
                  outside='pre-emption of a worker between dequeuing a job and finishing it (jobs touch the pool only through the listed inner actions); '
                          'stop() racing with another stop(); more than 3 workers; spurious wake-ups; memory-model effects (lock-protected state: C03)'),
             dict(common, name='h_raw_cancel', entry='h_raw_cancel', vectors=rawv, concrete=[],
                  space='one worker, one raw-handle job (run(async) | co_await pool(awaitable) | resume(suspend_point)) that meets a stopped pool: '
                        'submitted after stop(), queued when stop()/the destructor runs, submitted after a job stopped the pool from a worker',
                  bounds='1 worker, 1-2 jobs', outside='see h_pool')]
    vs = [[n, parked, kind, k, drain] for n in range(2) for parked in range(2) for kind in range(3) for k in range(3) for drain in range(2)]
    units.append(dict(common, name='h_stop_race', entry='h_stop_race', vectors=vs,
                      concrete=[([0, 0, 2, 0, 1], [7]), ([1, 1, 0, 1, 0], [8]), ([0, 1, 1, 2, 1], [9]), ([1, 0, 2, 0, 0], [3])],
                      space='a submission against stop() from another thread, interleaved at lock-region granularity: [workers 1..2, workers not yet run / all parked, kind (co_await pool, run(fn), '
                            'run_detached), k = the mutex acquisition of the submission in front of which the complete stop() lands (1..3; beyond the last one: after the submission), drain]; full product',
                      bounds='one submission, one stop(); the other thread\'s stop() runs as a whole between two critical sections of the submission',
                      outside='raw-handle kinds (known finding D9); pre-emption inside a critical section (lock discipline: C03)'))
    units.append(dict(common, name='h_batch_wake', entry='h_batch_wake', vectors=[[n, m, pk] for n in (0, 1) for m in (0, 1) for pk in (0, 1)],
                      concrete=[([0, 0, 0], []), ([1, 1, 1], []), ([0, 1, 0], [])],
                      space='a batch of 2..3 units in one suspend point handed to a pool of 2..3 parked workers (pool.resume(sp)); the unit that runs first does not return before its siblings have run '
                            '(it lets the other runnable workers run meanwhile) x whom notify_one wakes; full product',
                      bounds='<= 3 workers, <= 3 units', outside='see h_pool'))
    pv = [[n, jk, w, oth] for n in range(3) for jk in range(4) for w in range(n + 1) for oth in range(2) if not (n == 0 and oth == 1)]
    units.append(dict(common, name='h_stop_prepark', entry='h_stop_prepark', vectors=pv, concrete=[], replay_on='translation',
                      space='stop() of another thread lands while worker w is entering condition_variable::wait (predicate evaluated, mutex held, not yet registered as a waiter - pre-park hook of the runtime model): '
                            '[workers 1..3, job submitted before (none, co_await pool, run(fn), run_detached), w, the other workers not yet run / parked]; full product. What stop() does before it needs the pool mutex happens '
                            'in that window, from its first acquisition on the worker is waiting',
                      bounds='one stop(), one worker in the window', outside='two workers in the window at once; the window of the timed wait (scheduler: C12 h_start_mt)'))
    return units
