// C03 (a) - the generic awaiter chain (awaiter::subscribe / resume_chain / resume_chain_lk) that signal, the generator aggregator and user
// code build on: registering threads against the collecting thread, under C++20 happens-before (E2 scenario).
//   SUBS = number of registering threads (1..2); thread SUBS+1 collects the chain once (vf_check collects what is left).
// Each awaiter carries a plain payload cell written before the registration and read by its resume function: the registration must
// publish it; and nothing may touch an awaiter after the compare-exchange that publishes it (its owner may already be resumed and gone).
#include "vf2.h"
#include <cocls/awaiter.h>
using namespace cocls;
#ifndef SUBS
#define SUBS 1
#endif
static awaiter_collector chain;
struct Cb : awaiter {
    int payload = 0;
    int seen = 0, resumed = 0;
    static suspend_point<void> fn(awaiter *a, void *) noexcept {
        Cb *self = static_cast<Cb *>(a);
        self->seen = self->payload;
        self->resumed++;
        return {};
    }
    Cb() { set_resume_fn(&fn); }
};
static Cb cb[3];
static __attribute__((always_inline)) inline void reg(int me) { cb[me].payload = 100 + me; cb[me].subscribe(chain); }
extern "C" void vf_setup() {}
extern "C" void vf_thread_1() { reg(1); }
#if SUBS >= 2
extern "C" void vf_thread_2() { reg(2); }
extern "C" void vf_thread_3() { awaiter::resume_chain(chain); }
#else
extern "C" void vf_thread_2() { awaiter::resume_chain(chain); }
#endif
extern "C" void vf_check() {
    awaiter::resume_chain(chain);
    for (int i = 1; i <= SUBS; i++) {
        vf_assert(cb[i].resumed == 1, "C02 a registered awaiter is released exactly once by the collectors");
        vf_assert(cb[i].seen == 100 + i, "C03 the awaiter's state written before its registration is visible to whoever resumes it");
    }
    vf_reach("C03 chain check reached");
}
