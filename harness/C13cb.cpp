// C13 (callback consumer of a generator with an argument): the consumer is an awaiter with a resume function, as generator_aggregator's GenCallback is.
// When it is notified of a value it hands over the argument of its NEXT request right there, inside the notification (g.next(arg) stores the argument), and
//   mode 0: lets the generator run at once, still inside the notification (subscribe from the resume function),
//   mode 1: lets it run after the notification has returned (subscribe from ordinary code: what a consumer on another thread amounts to).
// The body's awaited operations may be pending and are completed by the harness ("somebody else"). Oracle: the body receives exactly the argument passed with
// the request that resumed it, the consumer sees exactly the yielded values in order and one end indication.
#include "vf_cocls.h"
#include <cocls/generator.h>
#include <cocls/future.h>
#include <optional>
using namespace cocls;

namespace {
constexpr int MAXN = 3;
using G = generator<int, int>;
inline int uadd(int a, int b) { return (int)((unsigned)a + (unsigned)b); }
struct Env {
    int n = 0; int pend[MAXN]; int val[MAXN];
    future<int> futs[MAXN]; promise<int> proms[MAXN];
    int seen_arg[MAXN + 2]; int nseen = 0;
};
G body(Env *e) {
    int a = co_yield nullptr;                 // the argument of the first request
    for (int i = 0; i < e->n; i++) {
        e->seen_arg[e->nseen++] = a;
        int x = 0;
        if (e->pend[i]) x = co_await e->futs[i];
        a = co_yield uadd(uadd(a, a), x);
    }
    e->seen_arg[e->nseen++] = a;
}
struct Cons : awaiter {
    G *g = nullptr; int mode = 0;
    int args[MAXN + 2]; int nreq = 0;
    int got[MAXN + 2]; int ngot = 0; int ended = 0;
    std::optional<G::next_awt> parked;
    static suspend_point<void> fn(awaiter *a, void *) noexcept { static_cast<Cons *>(a)->notified(); return {}; }
    Cons() { set_resume_fn(&fn); }
    void request() {              // hand over the next argument
        parked.emplace(g->next(args[nreq]));
        nreq++;
    }
    void go() { auto w = std::move(*parked); parked.reset(); w.subscribe(this); }
    void notified() {
        if (g->done()) { ended++; return; }
        got[ngot++] = g->value();
        request();
        if (mode == 0) go();
    }
};
}

extern "C" void h_gen_cb() {
    vf_warmup();
    long base = vf_live_allocs();
    {
        Env e; Cons c;
        c.mode = vf_choice(2);
        e.n = vf_choice(MAXN + 1);
        for (int i = 0; i < e.n; i++) { e.pend[i] = vf_choice(2); e.val[i] = nondet_int(); if (e.pend[i]) e.proms[i] = e.futs[i].get_promise(); }
        for (int i = 0; i < MAXN + 2; i++) c.args[i] = nondet_int();
        {
            G g = body(&e);
            c.g = &g;
            c.request(); c.go();
            for (int step = 0; step < 2 * MAXN + 2; step++) {
                bool progress = false;
                if (c.parked && c.mode == 1) { c.go(); progress = true; }                                     // the request made inside the last notification is carried out now
                else for (int i = 0; i < e.n && !progress; i++) if (e.pend[i] && e.proms[i]) { e.proms[i](e.val[i]); progress = true; }    // somebody completes what the body waits for
                if (!progress) break;
            }
            VF_ASSERT(c.ended == 1 && g.done(), "C13 the end of the sequence is indicated exactly once when the body has returned");
            VF_ASSERT(c.ngot == e.n, "C13 the consumer obtains exactly the yielded values");
            VF_ASSERT(e.nseen == e.n + 1, "VF_SPEC the body ran to its end");
            for (int i = 0; i <= e.n; i++) VF_ASSERT(e.seen_arg[i] == c.args[i], "C13 the body receives the argument passed with the call that resumed it");
            for (int i = 0; i < e.n; i++) {
                VF_ASSERT(c.got[i] == uadd(uadd(c.args[i], c.args[i]), e.pend[i] ? e.val[i] : 0), "C13 the consumer obtains exactly the yielded values, in order");
                vf_out(c.got[i] & 0xffff);
            }
        }
    }
    VF_ASSERT(vf_live_allocs() == base, "C13 nothing leaked");
    vf_choice_end();
    vf_witness();
}

// ---------------------------------------------------------------------------------------------------------------------------
// The same consumer over the future interface: every request is `g(arg)` (a future<int>), a callback awaiter is subscribed to the returned future; when it is
// notified the consumer reads the value and issues its next request inside the notification (mode 0) or after the notification has returned (mode 1).
namespace {
struct FCons : awaiter {
    G *g = nullptr; int mode = 0;
    int args[MAXN + 2]; int nreq = 0;
    int got[MAXN + 2]; int ngot = 0; int ended = 0; int want = 0; int notifications = 0;
    future<int> fut[MAXN + 2];
    static suspend_point<void> fn(awaiter *a, void *) noexcept { static_cast<FCons *>(a)->notified(); return {}; }
    FCons() { set_resume_fn(&fn); }
    void request() {
        const int i = nreq++;
        VF_ASSERT(i < MAXN + 2, "VF_SPEC too many requests");
        fut[i] << [&] { return (*g)(args[i]); };
        if (!fut[i].operator co_await().subscribe(this)) notified();     // already resolved: nobody will notify
    }
    void notified() {
        notifications++;
        future<int> &f = fut[nreq - 1];
        VF_ASSERT(f.ready(), "C13 the consumer is notified only when the requested step is complete");
        if (!f.has_value()) { ended++; return; }
        got[ngot++] = f.value();
        if (mode == 0) request(); else want = 1;
    }
};
}

extern "C" void h_gen_fut_cb() {
    vf_warmup();
    long base = vf_live_allocs();
    {
        Env e; FCons c;
        c.mode = vf_choice(2);
        e.n = vf_choice(MAXN + 1);
        for (int i = 0; i < e.n; i++) { e.pend[i] = vf_choice(2); e.val[i] = nondet_int(); if (e.pend[i]) e.proms[i] = e.futs[i].get_promise(); }
        for (int i = 0; i < MAXN + 2; i++) c.args[i] = nondet_int();
        {
            G g = body(&e);
            c.g = &g;
            c.request();
            for (int step = 0; step < 2 * MAXN + 2; step++) {
                bool progress = false;
                if (c.want) { c.want = 0; c.request(); progress = true; }
                else for (int i = 0; i < e.n && !progress; i++) if (e.pend[i] && e.proms[i]) { e.proms[i](e.val[i]); progress = true; }
                if (!progress) break;
            }
            VF_ASSERT(c.ended == 1 && g.done(), "C13 the end of the sequence is indicated exactly once when the body has returned");
            VF_ASSERT(c.ngot == e.n, "C13 the consumer obtains exactly the yielded values");
            VF_ASSERT(c.notifications == c.nreq, "C13 every requested step completes its future exactly once");
            VF_ASSERT(e.nseen == e.n + 1, "VF_SPEC the body ran to its end");
            for (int i = 0; i <= e.n; i++) VF_ASSERT(e.seen_arg[i] == c.args[i], "C13 the body receives the argument passed with the call that resumed it");
            for (int i = 0; i < e.n; i++) {
                VF_ASSERT(c.got[i] == uadd(uadd(c.args[i], c.args[i]), e.pend[i] ? e.val[i] : 0), "C13 the consumer obtains exactly the yielded values, in order");
                vf_out(c.got[i] & 0xffff);
            }
        }
    }
    VF_ASSERT(vf_live_allocs() == base, "C13 nothing leaked");
    vf_choice_end();
    vf_witness();
}
