// C05 (a coroutine that runs outside coroutine mode): a producer coroutine is parked on an awaitable that is not part of the library and is resumed
//   how 0: by a plain handle.resume() from ordinary code (a foreign event loop / callback thread: no coroutine queue is active),
//   how 1: through coro_queue::install_queue_and_resume (what the library's own primitives do).
// It then makes 1..2 consumer coroutines ready by resolving the promise they wait for and either co_awaits the suspend point (mode 0) or discards it
// (mode 1), and parks on a gate that only the harness opens. Oracle: every coroutine made ready runs exactly once before control is back in ordinary
// code, nobody is resumed while it is running or without what it awaits being ready (the producer does not pass the closed gate), the ready queue is empty
// and coroutine mode is left when the activation returns.
#include "vf_cocls.h"
#include <cocls/async.h>
#include <cocls/future.h>
using namespace cocls;

namespace {
struct Ctx {
    int cnt[8] = {0, 0, 0, 0, 0, 0, 0, 0};      // how often each trace point was passed: 1..4 producer, 5..6 consumers
    int active = 0;                             // somebody is between two suspension points
    std::coroutine_handle<> h = nullptr;
    future<int> f[2]; promise<int> fp[2];
    future<void> g; promise<void> gp;
    int val = 0, nc = 1, gate_open = 0;
    int raw = 0;                                // the producer was resumed by a plain handle.resume(): the library is in normal mode, where a discarded suspend point runs its
                                                // coroutines at once (nested in the producer) - the ordering clause of the property speaks about coroutine mode only
};
struct Foreign {
    Ctx *c;
    bool await_ready() const noexcept { return false; }
    void await_suspend(std::coroutine_handle<> hh) noexcept { c->h = hh; c->active = 0; }
    void await_resume() const noexcept { c->active = 1; }
};
void enter(Ctx *c) { if (!c->raw) VF_ASSERT(c->active == 0, "C05 a coroutine made ready does not run before the running coroutine suspends or finishes"); c->active = 1; }
async<void> consumer(Ctx *c, int i) {
    c->active = 0;
    int v = co_await c->f[i];
    enter(c);
    VF_ASSERT(v == c->val + i, "VF_SPEC consumer got its value");
    c->cnt[5 + i]++; vf_out(5 + i);
    if (!c->raw) c->active = 0;
}
async<void> producer(Ctx *c, int mode) {
    c->cnt[1]++;
    co_await Foreign{c};
    c->cnt[2]++; vf_out(2);
    for (int i = 0; i < c->nc; i++) {
        if (mode == 0) { c->active = 0; co_await c->fp[i](c->val + i); enter(c); }
        else (void)c->fp[i](c->val + i);
    }
    c->cnt[3]++; vf_out(3);
    c->active = 0;
    co_await c->g;
    VF_ASSERT(c->gate_open, "C05 a coroutine is resumed only once per time it was made ready (the producer passed a gate nobody has opened)");
    enter(c);
    c->cnt[4]++; vf_out(4);
    c->active = 0;
}
}

extern "C" void h_raw_mode() {
    vf_warmup();
    const int how = vf_choice(2);
    const int mode = vf_choice(2);
    long base = vf_live_allocs();
    {
        Ctx c;
        c.nc = 1 + vf_choice(2);
        c.val = nondet_int() & 0xffff;
        for (int i = 0; i < c.nc; i++) c.fp[i] = c.f[i].get_promise();
        c.gp = c.g.get_promise();
        for (int i = 0; i < c.nc; i++) consumer(&c, i).detach();
        producer(&c, mode).detach();
        VF_ASSERT(c.h && c.cnt[1] == 1 && c.cnt[2] == 0, "VF_SPEC producer parked on the foreign awaitable");
        auto h = c.h; c.h = nullptr;
        c.raw = how == 0;
        if (how == 0) h.resume(); else coro_queue::install_queue_and_resume(h);
        // back in ordinary code
        VF_ASSERT(!coro_queue::is_active(), "C05 coroutine mode is left when the outermost activation returns");
        VF_ASSERT(coro_queue::queue_impl::instance._queue.empty(), "C05 the ready queue is fully drained when the outermost activation returns");
        VF_ASSERT(c.cnt[2] == 1 && c.cnt[3] == 1 && c.cnt[4] == 0, "C05 the producer ran up to the gate exactly once");
        for (int i = 0; i < c.nc; i++) VF_ASSERT(c.cnt[5 + i] == 1, "C05 every coroutine made ready runs exactly once before control is back in ordinary code");
        c.gate_open = 1;
        c.gp();
        VF_ASSERT(c.cnt[4] == 1, "C05 the producer continues exactly once when its gate is opened");
    }
    VF_ASSERT(vf_live_allocs() == base, "C05 every finished coroutine frame is freed");
    vf_choice_end();
    vf_witness();
}
