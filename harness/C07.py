# E2 scenarios for the coroutine mutex (C07 mutual exclusion / exactly-once grant; the C08 oracles live in the same scenarios)
ACQ = {0: 'try', 1: 'wait', 2: 'coro'}
REL = {0: 'dtor', 1: 'release', 2: 'release+clear'}


def scen(name, nt, **kw):
    d = ['NT=%d' % nt] + ['%s=%d' % (k, v) for k, v in sorted(kw.items())]
    return dict(name=name, nthreads=nt, defines=d)


def scenarios(tier):
    out = []
    # owner releases while one request is in flight: every release flavour x every request flavour
    for rel in (0, 1, 2):
        for acq in (0, 1, 2):
            out.append(scen('own_%s_vs_%s' % (REL[rel].replace('+', ''), ACQ[acq]), 2, OWNER0=1, T1_REL=rel, T2_ACQ=acq, T2_REL=(rel + 1) % 3))
    # the owner hands over to a request registered before the threads started (the new owner runs and releases on the releasing thread) while another thread requests
    out.append(scen('own_preq_vs_wait', 2, OWNER0=1, PREQ=0, T1_REL=1, T2_ACQ=1, T2_REL=0))
    out.append(scen('own_preq_vs_try', 2, OWNER0=1, PREQ=1, T1_REL=0, T2_ACQ=0, T2_REL=1))
    # the releasing owner comes straight back with try_lock while the other thread's request (which found the mutex held) is on its way in
    out.append(scen('own_rel_try_vs_wait', 2, OWNER0=1, REQ_AFTER_REL=1, T1_REL=0, T1_ACQ=0, T2_ACQ=1, T2_REL=1))
    out.append(scen('own_rel_try_vs_coro', 2, OWNER0=1, REQ_AFTER_REL=1, T1_REL=1, T1_ACQ=0, T2_ACQ=2, T2_REL=0))
    # two contenders on a free mutex
    for a1 in (0, 1, 2):
        for a2 in (a1, 1, 2) if a1 == 0 else (1, 2):
            if a2 < a1: continue
            if a1 == 2 and a2 == 2 and tier == 'quick': continue      # two coroutine-protocol contenders: ~1600 events, thorough tier only
            out.append(scen('free_%s_%s' % (ACQ[a1], ACQ[a2]), 2, T1_ACQ=a1, T2_ACQ=a2, T1_REL=a1 % 3, T2_REL=(a2 + 1) % 3))
    if tier != 'quick':
        # owner + two requesters, three threads
        for a2 in (1, 2):
            for a3 in (0, 1, 2):
                out.append(scen('own_vs_%s_%s' % (ACQ[a2], ACQ[a3]), 3, OWNER0=1, T1_REL=1, T2_ACQ=a2, T3_ACQ=a3, T2_REL=0, T3_REL=2))
        # three contenders on a free mutex
        out.append(scen('free3_wait_coro_try', 3, T1_ACQ=1, T2_ACQ=2, T3_ACQ=0))
        out.append(scen('free3_coro_coro_wait', 3, T1_ACQ=2, T2_ACQ=2, T3_ACQ=1))
        # two rounds each
        out.append(scen('free_2rounds_wait_wait', 2, T1_ACQ=1, T2_ACQ=1, T1_ROUNDS=2, T2_ROUNDS=2))
        out.append(scen('free_2rounds_coro_wait', 2, T1_ACQ=2, T2_ACQ=1, T1_ROUNDS=2, T2_ROUNDS=2))
        out.append(scen('free_2rounds_try_coro', 2, T1_ACQ=0, T2_ACQ=2, T1_ROUNDS=2, T2_ROUNDS=2))
    return out


def fifo_scenarios(tier):
    out = [scen('fifo_coro_then_coro', 3, OWNER0=1, FIFO=1, T1_REL=1, T2_ACQ=2, T3_ACQ=2),
           scen('fifo_coro_then_wait', 3, OWNER0=1, FIFO=1, T1_REL=0, T2_ACQ=2, T3_ACQ=1)]
    return out


def plan(tier):
    return [dict(engine='e2', name='mutex_sc', tu='C07.cpp', mode='sc', scenarios=scenarios(tier), opts={'loop_bound': 3, 'rec_bound': 2}, timeout_s=600 if tier == 'quick' else 2400,
                 space='contender flavours {try_lock, blocking lock().wait(), coroutine protocol} x release flavours {ownership destructor, release() discarded, release()+clear()}; '
                       'owner-releases-while-requested and free-mutex contention; thorough adds 3 threads and 2 rounds',
                 bounds='2 threads x 1 round (quick); 3 threads x 1 round and 2 threads x 2 rounds (thorough); CAS retries / queue walks <= 4 iterations (bound-exceeded events are queried: a reachable one is reported as "bound insufficient"); sequentially consistent interleavings at instruction granularity',
                 outside='4 contenders; weak-memory executions (C03 covers data races); spurious wake-ups of atomic wait')]
