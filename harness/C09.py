from speclib import histories

# history units (h_qint, h_qvoid, h_qsingle): vector = [nops, kind...], kinds: 0 push(v) 1 pop 2 unblock_pop(e)
# coroutine units (h_coro, h_coro_single): vector = [want-1, pre, nops, kind...], kinds: 0 push(v) 1 unblock_pop(e)


def one_waiter_only(h):
    """single_item_queue as consumer queue: the documented use is one awaiting consumer at a time"""
    items = waiters = 0
    for op in h:
        if op == 0:
            if waiters: waiters -= 1
            else: items += 1
        elif op == 1:
            if items: items -= 1
            else:
                if waiters: return False
                waiters += 1
        else:
            if waiters: waiters -= 1
    return True


def hist_vectors(maxlen, pred=None, exact=None, short=None):
    """all histories of length <= maxlen; or (quick) those of length == exact plus those of length <= short.
    Everything is observed after every step, so a history also discharges the per-step obligations of all its
    prefixes; shorter histories only add 'destroy the queue in that state'."""
    if exact is None:
        hs = list(histories(3, maxlen))
    else:
        hs = list(histories(3, short)) + list(histories(3, exact, exact))
    return [[len(h)] + h for h in hs if pred is None or pred(h)]


def coro_vectors(wants, pres, maxops, exact_only=False):
    out = []
    for w in wants:
        for p in pres:
            for h in histories(2, maxops, maxops if exact_only else 0):
                out.append([w - 1, p, len(h)] + h)
    return out


def plan(tier):
    quick = tier == 'quick'
    if quick:
        L, Lv, Ls = 5, 4, 4
        vi = hist_vectors(L, None, L, 3)
        vv = hist_vectors(Lv, None, Lv, 2)
        vs = hist_vectors(Ls, one_waiter_only, Ls, 2)
        cw, cp, cl = [1, 3], [0, 2], 3
        cws, cps, cls = [2], [0, 1], 3
        lens = 'length exactly %d (their prefixes are checked step by step) and of length <= %d'
        si, sv, ss = lens % (L, 3), lens % (Lv, 2), lens % (Ls, 2)
    elif tier == 'smoke':            # development aid (mutation runs): small but complete space
        L, Lv, Ls = 3, 3, 3
        vi, vv, vs = hist_vectors(L), hist_vectors(Lv), hist_vectors(Ls, one_waiter_only)
        cw, cp, cl = [2], [0, 1], 2
        cws, cps, cls = [2], [0, 1], 2
        si, sv, ss = 'length <= %d' % L, 'length <= %d' % Lv, 'length <= %d' % Ls
    else:
        L, Lv, Ls = 7, 6, 6
        vi, vv, vs = hist_vectors(L), hist_vectors(Lv), hist_vectors(Ls, one_waiter_only)
        cw, cp, cl = [1, 2, 3, 4], [0, 1, 3], 5
        cws, cps, cls = [1, 2, 3], [0, 1, 2], 5
        si, sv, ss = 'length <= %d' % L, 'length <= %d' % Lv, 'length <= %d' % Ls
    vc = coro_vectors(cw, cp, cl, quick)
    vcs = coro_vectors(cws, cps, cls, quick)
    kinds = '{push(v), pop, unblock_pop(e)}'
    common_out = ('longer histories; multi-threaded producers/consumers (the item is bound to a promise under the lock - '
                  'lock-region reduction, see C03 lock discipline); value types other than int/void')
    # unwind: the per-step "check every slot" loop is counted cumulatively by cbmc (sum over steps <= 7*8/2 = 28)
    U = 32
    units = [
        dict(engine='e1', name='h_qint', tu='C09.cpp', entry='h_qint', defines=['VF_UNIT_QINT'], unwind=U, vectors=vi,
             concrete=[([4, 1, 0, 0, 1], [10, 20]), ([5, 0, 0, 1, 1, 1], [3, 4]), ([5, 1, 1, 2, 0, 2], [77, 5, 88]),
                       ([3, 2, 1, 1], [9]), ([6, 0, 1, 1, 0, 2, 0], [1, 2, 3, 4])],
             space='queue<int>: every history over %s of %s, then destruction of the queue' % (kinds, si),
             data='pushed values and exception tags: unconstrained 32-bit ints (symbolic)',
             bounds='<= %d operations' % L, outside=common_out),
        dict(engine='e1', name='h_qvoid', tu='C09.cpp', entry='h_qvoid', defines=['VF_UNIT_QVOID'], unwind=U, vectors=vv,
             concrete=[([4, 0, 0, 1, 1], []), ([4, 1, 1, 0, 2], [5]), ([5, 1, 0, 0, 1, 1], []), ([3, 2, 0, 1], [4])],
             space='queue<void>: every history over {push(), pop, unblock_pop(e)} of %s, then destruction' % sv,
             data='exception tags: unconstrained 32-bit ints (symbolic)',
             bounds='<= %d operations' % Lv, outside=common_out),
        dict(engine='e1', name='h_qsingle', tu='C09.cpp', entry='h_qsingle', defines=['VF_UNIT_QSINGLE'], unwind=U, vectors=vs,
             concrete=[([4, 1, 0, 0, 1], [10, 20]), ([5, 0, 1, 1, 2, 1], [3, 4]), ([4, 1, 2, 1, 0], [7, 8]), ([2, 0, 0], [1, 2])],
             space='queue<int, std_queue, single_item_queue>: every history over %s of %s in which at most one pop '
                   'waits at any time (the documented use of single_item_queue), then destruction' % (kinds, ss),
             data='pushed values and exception tags: unconstrained 32-bit ints (symbolic)',
             bounds='<= %d operations' % Ls,
             outside=common_out + '; a second concurrent waiter on a single_item_queue consumer queue (documented as unsupported)'),
        dict(engine='e1', name='h_coro', tu='C09.cpp', entry='h_coro', defines=['VF_UNIT_CORO'], unwind=U, vectors=vc,
             concrete=[([2, 0, 2, 0, 0], [10, 20]), ([1, 2, 2, 0, 1], [1, 2, 3, 4]), ([2, 1, 3, 1, 0, 0], [5, 6, 7, 8]), ([0, 0, 0], [])],
             space='one consumer coroutine doing `want` pops on queue<int> (want in %s), %s pushes before it starts, then every '
                   'history over {push(v), unblock_pop(e)} of length %s %d, then destruction' % (cw, cp, '==' if quick else '<=', cl),
             data='pushed values and exception tags: unconstrained 32-bit ints (symbolic)',
             bounds='<= %d operations after start, <= %d pops' % (cl, max(cw)), outside=common_out),
        dict(engine='e1', name='h_coro_single', tu='C09.cpp', entry='h_coro_single', defines=['VF_UNIT_CORO_SINGLE'], unwind=U, vectors=vcs,
             concrete=[([2, 0, 2, 0, 0], [10, 20]), ([1, 2, 2, 0, 1], [1, 2, 3, 4]), ([2, 1, 3, 1, 0, 0], [5, 6, 7, 8])],
             space='as h_coro with single_item_queue as consumer queue: want in %s, pre-pushes in %s, histories of length %s %d'
                   % (cws, cps, '==' if quick else '<=', cls),
             data='pushed values and exception tags: unconstrained 32-bit ints (symbolic)',
             bounds='<= %d operations after start, <= %d pops' % (cls, max(cws)), outside=common_out),
    ]
    from speclib import histories
    conc = []
    for npre in range(0, 3):
        for pre in histories(2, npre, npre):
            for a in (0, 1, 2):
                for b in (0, 1, 2):
                    for k in (0, 1, 2):
                        conc.append([npre] + pre + [a, b, k])
    units.append(dict(engine='e1', name='q_conc', tu='C09conc.cpp', entry='h_q_conc', unwind=14, vectors=conc, timeout=300, cbmc_extra=('--sat-solver', 'cadical'),   # two of these instances take MiniSat > 900 s and CaDiCaL 5 s
                     
                      concrete=[([1, 0, 1, 0, 0], list(range(1, 11))), ([2, 1, 1, 0, 2, 1], list(range(1, 11))), ([0, 2, 1, 2], list(range(1, 11)))],
                      space="sequential prefix of <= 2 {push, pop} x operation A in {push, pop, unblock_pop} with operation B in {push, pop, unblock_pop} of another thread injected in front of A's k-th mutex "
                            "acquisition (k = 1..3; beyond A's last acquisition = after A), then draining",
                      data='all pushed values symbolic and pairwise distinct', bounds='two overlapping operations, interleaved at lock-region granularity (sound for accesses made under the lock: C03 lock discipline)',
                      outside='three or more overlapping operations; pre-emption inside a critical section'))
    return units
