// C10 - bounded queue: back-pressure without losing or duplicating items.
// History harness: a skeleton vector selects limit and the operation kinds; pushed values are symbolic.
// A reference model (accepted FIFO, blocked FIFO, waiting-pop FIFO) predicts the state of every future
// after every step; the real limited_queue<int> must agree.
#include "vf_cocls.h"
#include <cocls/queue.h>
using namespace cocls;

namespace {
struct tag_exc { int tag; };

constexpr int MAXN = 8;

enum Expect { E_NONE = 0, E_PENDING, E_VALUE, E_EXC, E_NOVALUE };

struct PopSlot { future<int> f; int exp = E_NONE; int val = 0; };
struct PushSlot { future<void> f; int exp = E_NONE; int val = 0; };

// limited_queue inherits queue<T> protected and re-exports only size()/empty(); the property's history
// alphabet includes unblock_pop, so the harness re-exports it the same way (no behaviour is added).
struct LQ : limited_queue<int> {
    using limited_queue<int>::limited_queue;
    using queue<int>::unblock_pop;
};

template<typename F> int exc_tag_of(F &f) {
    try { f.value(); } catch (const tag_exc &e) { return e.tag; } catch (...) { return -2; }
    return -1;
}

template<typename Slot>
void check_slot(Slot &s, bool is_pop) {
    switch (s.exp) {
    case E_NONE: break;
    case E_PENDING:
        VF_ASSERT(s.f.pending(), "C10 a future the model keeps pending is still pending (no early/duplicate completion)");
        break;
    case E_VALUE:
        VF_ASSERT(s.f.ready(), "C10 a future the model completed is ready");
        if constexpr (std::is_same_v<Slot, PopSlot>) {
            bool ok = false;
            try { ok = (s.f.value() == s.val); } catch (...) { ok = false; }
            VF_ASSERT(ok, "C10 pop delivers exactly the oldest accepted item (order, no loss, no duplicate)");
        } else {
            bool ok = true;
            try { s.f.value(); } catch (...) { ok = false; }
            VF_ASSERT(ok, "C10 completed push reports success");
        }
        break;
    case E_EXC:
        VF_ASSERT(s.f.ready(), "C10 unblocked future is ready");
        VF_ASSERT(exc_tag_of(s.f) == s.val, "C10 unblock delivers exactly the given exception to the oldest waiter");
        break;
    case E_NOVALUE:
        VF_ASSERT(s.f.ready(), "C10 destruction resolves pending futures");
        VF_ASSERT(exc_tag_of(s.f) == -2, "C10 destruction reports cancellation, not a value");
        break;
    }
    (void)is_pop;
}
}

extern "C" void h_lq() {
    const int limit = 1 + vf_choice(4);
    const int nops = vf_choice(MAXN + 1);
    long base = vf_live_allocs();
    {
        PopSlot pops[MAXN];
        PushSlot pushes[MAXN];
        int npop = 0, npush = 0;
        // reference model
        int mq[MAXN], mqn = 0;          // accepted items
        int mb[MAXN], mbn = 0;          // blocked pushes: index into pushes[]
        int mw[MAXN], mwn = 0;          // waiting pops: index into pops[]
        {
            LQ q(limit);
            for (int step = 0; step < nops; ++step) {
                int op = vf_choice(4);
                if (op == 0) {                    // push(v)
                    int v = nondet_int();
                    PushSlot &ps = pushes[npush];
                    ps.val = v;
                    ps.f << [&] { return q.push(v); };
                    if (mwn > 0) {
                        PopSlot &w = pops[mw[0]];
                        w.exp = E_VALUE; w.val = v;
                        for (int i = 1; i < mwn; ++i) mw[i - 1] = mw[i];
                        --mwn;
                        ps.exp = E_VALUE;
                    } else if (mqn < limit) {
                        mq[mqn++] = v;
                        ps.exp = E_VALUE;
                    } else {
                        mb[mbn++] = npush;
                        ps.exp = E_PENDING;
                    }
                    ++npush;
                } else if (op == 1) {             // pop()
                    PopSlot &s = pops[npop];
                    s.f << [&] { return q.pop(); };
                    if (mqn > 0) {
                        s.exp = E_VALUE; s.val = mq[0];
                        for (int i = 1; i < mqn; ++i) mq[i - 1] = mq[i];
                        --mqn;
                        if (mbn > 0) {
                            PushSlot &b = pushes[mb[0]];
                            b.exp = E_VALUE;
                            mq[mqn++] = b.val;
                            for (int i = 1; i < mbn; ++i) mb[i - 1] = mb[i];
                            --mbn;
                        }
                    } else {
                        mw[mwn++] = npop;
                        s.exp = E_PENDING;
                    }
                    ++npop;
                } else if (op == 2) {             // unblock_push(e)
                    int tag = 100 + step;
                    bool r = q.unblock_push(std::make_exception_ptr(tag_exc{tag}));
                    VF_ASSERT(r == (mbn > 0), "C10 unblock_push reports whether a blocked push existed");
                    if (mbn > 0) {
                        PushSlot &b = pushes[mb[0]];
                        b.exp = E_EXC; b.val = tag;
                        for (int i = 1; i < mbn; ++i) mb[i - 1] = mb[i];
                        --mbn;
                    }
                } else {                          // unblock_pop(e)
                    int tag = 200 + step;
                    bool r = q.unblock_pop(std::make_exception_ptr(tag_exc{tag}));
                    VF_ASSERT(r == (mwn > 0), "C10 unblock_pop reports whether a waiting pop existed");
                    if (mwn > 0) {
                        PopSlot &w = pops[mw[0]];
                        w.exp = E_EXC; w.val = tag;
                        for (int i = 1; i < mwn; ++i) mw[i - 1] = mw[i];
                        --mwn;
                    }
                }
                // observe everything after every step
                VF_ASSERT((int)q.size() == mqn, "C10 size() equals the number of accepted, undelivered items");
                VF_ASSERT(q.empty() == (mqn == 0), "C10 empty() consistent with the model");
                for (int i = 0; i < npop; ++i) check_slot(pops[i], true);
                for (int i = 0; i < npush; ++i) check_slot(pushes[i], false);
                vf_out(q.size());
            }
            // destroying the queue resolves whatever is still pending with no-value
            for (int i = 0; i < mwn; ++i) pops[mw[i]].exp = E_NOVALUE;
            for (int i = 0; i < mbn; ++i) pushes[mb[i]].exp = E_NOVALUE;
        }
        for (int i = 0; i < npop; ++i) { check_slot(pops[i], true); vf_out(pops[i].exp * 1000 + (pops[i].exp == E_VALUE ? (pops[i].f.value() & 0xff) : 0)); }
        for (int i = 0; i < npush; ++i) { check_slot(pushes[i], false); vf_out(pushes[i].exp); }
    }
    VF_ASSERT(vf_live_allocs() == base, "C10 nothing leaked (items, blocked entries, exceptions' holders)");
    vf_choice_end();
    vf_witness();
}

// ---------------------------------------------------------------------------------------------------------------------------
// h_lq_conc: two operations of different threads interleaved at lock-region granularity.
// After a short sequential prefix, operation A runs with the other thread's operation B injected in front of A's k-th mutex
// acquisition (k = 1: B first; k beyond A's last acquisition: B after A). The oracle states the property directly at quiescence
// and after draining, for either order of the two concurrent operations.
namespace {
constexpr int CMAX = 10;
struct Conc {
    LQ *q;
    PushSlot pushes[CMAX]; int npush = 0; int push_time[CMAX];
    PopSlot pops[CMAX]; int npop = 0; int pop_time[CMAX];
    int withdrawn = 0;
    int clock = 0;         // real-time stamps: the two concurrent operations share one stamp
};
Conc *cc;
int conc_bkind, conc_bval, conc_stamp;

void conc_op(int kind, int v, int stamp) {
    Conc &c = *cc;
    if (kind == 0) { PushSlot &p = c.pushes[c.npush]; p.val = v; c.push_time[c.npush] = stamp; c.npush++; p.f << [&] { return c.q->push(v); }; }
    else if (kind == 1) { PopSlot &s = c.pops[c.npop]; c.pop_time[c.npop] = stamp; c.npop++; s.f << [&] { return c.q->pop(); }; }
    else { bool r = c.q->unblock_push(std::make_exception_ptr(tag_exc{7})); if (r) c.withdrawn++; }
}
void conc_injected() { conc_op(conc_bkind, conc_bval, conc_stamp); }

void conc_quiescent(int limit) {
    Conc &c = *cc;
    int pend_push = 0, pend_pop = 0;
    for (int i = 0; i < c.npush; i++) if (c.pushes[i].f.pending()) pend_push++;
    for (int i = 0; i < c.npop; i++) if (c.pops[i].f.pending()) pend_pop++;
    int sz = (int)c.q->size();
    VF_ASSERT(sz <= limit, "C10 more items waiting than the limit allows");
    if (pend_push) VF_ASSERT(sz >= limit, "C10 a push stays pending although fewer than the limit items are waiting");
    if (pend_pop) VF_ASSERT(sz == 0 && pend_push == 0, "C10 a pop stays pending although an item is available (lost hand-over)");
}
}

extern "C" void h_lq_conc() {
    vf_warmup();
    const int limit = 1 + vf_choice(2);
    const int nprefix = vf_choice(4);
    long base = vf_live_allocs();
    {
        Conc c; cc = &c;
        int vals[CMAX];
        for (int i = 0; i < CMAX; i++) vals[i] = nondet_int();
        for (int i = 0; i < CMAX; i++) for (int j = i + 1; j < CMAX; j++) VF_ASSUME(vals[i] != vals[j]);
        int nv = 0;
        {
            LQ q(limit); c.q = &q;
            for (int i = 0; i < nprefix; i++) { conc_op(vf_choice(2), vals[nv++], ++c.clock); }
            conc_quiescent(limit);
            const int akind = vf_choice(3);
            conc_bkind = vf_choice(3);
            const int k = 1 + vf_choice(3);
            conc_stamp = ++c.clock; conc_bval = vals[nv++];
            vf_inject_arm(&conc_injected, k);
            conc_op(akind, vals[nv++], conc_stamp);
            if (vf_inject_pending()) { vf_inject_disarm(); conc_injected(); }
            conc_quiescent(limit);
            // drain: match every push with a pop and every pop with a push
            int live_pushes = c.npush - c.withdrawn;
            while (c.npop < live_pushes && c.npop < CMAX) conc_op(1, 0, ++c.clock);
            while (c.npush - c.withdrawn < c.npop && c.npush < CMAX) conc_op(0, vals[nv++], ++c.clock);
            conc_quiescent(limit);
            // every pop is complete, every push is complete or was withdrawn with the exception
            int got[CMAX]; int ngot = 0;
            for (int i = 0; i < c.npop; i++) {
                VF_ASSERT(c.pops[i].f.ready(), "C10 a pop never completes although every push was matched (lost item)");
                bool ok = true; int v = 0;
                try { v = c.pops[i].f.value(); } catch (...) { ok = false; }
                VF_ASSERT(ok, "C10 a pop completed without a value although nobody unblocked it");
                got[ngot++] = v;
            }
            int exc = 0;
            for (int i = 0; i < c.npush; i++) {
                VF_ASSERT(c.pushes[i].f.ready(), "C10 a push never completes although pops made room");
                if (exc_tag_of(c.pushes[i].f) == 7) exc++;
            }
            VF_ASSERT(exc == c.withdrawn, "C10 unblock_push failed a different number of pushes than it reported");
            // each delivered value is a pushed value, delivered once; pushes ordered in real time are delivered in that order
            int pos[CMAX];
            for (int i = 0; i < c.npush; i++) {
                pos[i] = -1;
                for (int g = 0; g < ngot; g++) if (got[g] == c.pushes[i].val) { VF_ASSERT(pos[i] < 0, "C10 an item was delivered twice"); pos[i] = g; }
            }
            int delivered = 0;
            for (int i = 0; i < c.npush; i++) if (pos[i] >= 0) delivered++;
            VF_ASSERT(delivered == ngot, "C10 a pop delivered a value that was never pushed");
            VF_ASSERT(delivered == c.npush - c.withdrawn, "C10 an item was lost");
            for (int i = 0; i < c.npush; i++) for (int j = 0; j < c.npush; j++)
                if (pos[i] >= 0 && pos[j] >= 0 && c.push_time[i] < c.push_time[j])
                    // two pops that overlap in time are two consumers: which of them gets the earlier item is not constrained
                    VF_ASSERT(!(c.pop_time[pos[i]] > c.pop_time[pos[j]]), "C10 items were delivered out of push order");
            vf_out(ngot * 10 + c.withdrawn);
        }
    }
    VF_ASSERT(vf_live_allocs() == base, "C10 nothing leaked");
    vf_choice_end();
    vf_witness();
}
