// C10 - bounded queue: back-pressure without losing or duplicating items.
// History harness: a skeleton vector selects limit and the operation kinds; pushed values are symbolic.
// A reference model (accepted FIFO, blocked FIFO, waiting-pop FIFO) predicts the state of every future
// after every step; the real limited_queue<int> must agree.
#include "vf.h"
#include <cocls/queue.h>
using namespace cocls;

namespace {
struct tag_exc { int tag; };

constexpr int MAXN = 8;

enum Expect { E_NONE = 0, E_PENDING, E_VALUE, E_EXC, E_NOVALUE };

struct PopSlot { future<int> f; int exp = E_NONE; int val = 0; };
struct PushSlot { future<void> f; int exp = E_NONE; int val = 0; };

// limited_queue inherits queue<T> protected and re-exports only size()/empty(); the property's history
// alphabet includes unblock_pop, so the harness re-exports it the same way (no behaviour is added).
struct LQ : limited_queue<int> {
    using limited_queue<int>::limited_queue;
    using queue<int>::unblock_pop;
};

template<typename F> int exc_tag_of(F &f) {
    try { f.value(); } catch (const tag_exc &e) { return e.tag; } catch (...) { return -2; }
    return -1;
}

template<typename Slot>
void check_slot(Slot &s, bool is_pop) {
    switch (s.exp) {
    case E_NONE: break;
    case E_PENDING:
        VF_ASSERT(s.f.pending(), "C10 a future the model keeps pending is still pending (no early/duplicate completion)");
        break;
    case E_VALUE:
        VF_ASSERT(s.f.ready(), "C10 a future the model completed is ready");
        if constexpr (std::is_same_v<Slot, PopSlot>) {
            bool ok = false;
            try { ok = (s.f.value() == s.val); } catch (...) { ok = false; }
            VF_ASSERT(ok, "C10 pop delivers exactly the oldest accepted item (order, no loss, no duplicate)");
        } else {
            bool ok = true;
            try { s.f.value(); } catch (...) { ok = false; }
            VF_ASSERT(ok, "C10 completed push reports success");
        }
        break;
    case E_EXC:
        VF_ASSERT(s.f.ready(), "C10 unblocked future is ready");
        VF_ASSERT(exc_tag_of(s.f) == s.val, "C10 unblock delivers exactly the given exception to the oldest waiter");
        break;
    case E_NOVALUE:
        VF_ASSERT(s.f.ready(), "C10 destruction resolves pending futures");
        VF_ASSERT(exc_tag_of(s.f) == -2, "C10 destruction reports cancellation, not a value");
        break;
    }
    (void)is_pop;
}
}

extern "C" void h_lq() {
    const int limit = 1 + vf_choice(4);
    const int nops = vf_choice(MAXN + 1);
    long base = vf_live_allocs();
    {
        PopSlot pops[MAXN];
        PushSlot pushes[MAXN];
        int npop = 0, npush = 0;
        // reference model
        int mq[MAXN], mqn = 0;          // accepted items
        int mb[MAXN], mbn = 0;          // blocked pushes: index into pushes[]
        int mw[MAXN], mwn = 0;          // waiting pops: index into pops[]
        {
            LQ q(limit);
            for (int step = 0; step < nops; ++step) {
                int op = vf_choice(4);
                if (op == 0) {                    // push(v)
                    int v = nondet_int();
                    PushSlot &ps = pushes[npush];
                    ps.val = v;
                    ps.f << [&] { return q.push(v); };
                    if (mwn > 0) {
                        PopSlot &w = pops[mw[0]];
                        w.exp = E_VALUE; w.val = v;
                        for (int i = 1; i < mwn; ++i) mw[i - 1] = mw[i];
                        --mwn;
                        ps.exp = E_VALUE;
                    } else if (mqn < limit) {
                        mq[mqn++] = v;
                        ps.exp = E_VALUE;
                    } else {
                        mb[mbn++] = npush;
                        ps.exp = E_PENDING;
                    }
                    ++npush;
                } else if (op == 1) {             // pop()
                    PopSlot &s = pops[npop];
                    s.f << [&] { return q.pop(); };
                    if (mqn > 0) {
                        s.exp = E_VALUE; s.val = mq[0];
                        for (int i = 1; i < mqn; ++i) mq[i - 1] = mq[i];
                        --mqn;
                        if (mbn > 0) {
                            PushSlot &b = pushes[mb[0]];
                            b.exp = E_VALUE;
                            mq[mqn++] = b.val;
                            for (int i = 1; i < mbn; ++i) mb[i - 1] = mb[i];
                            --mbn;
                        }
                    } else {
                        mw[mwn++] = npop;
                        s.exp = E_PENDING;
                    }
                    ++npop;
                } else if (op == 2) {             // unblock_push(e)
                    int tag = 100 + step;
                    bool r = q.unblock_push(std::make_exception_ptr(tag_exc{tag}));
                    VF_ASSERT(r == (mbn > 0), "C10 unblock_push reports whether a blocked push existed");
                    if (mbn > 0) {
                        PushSlot &b = pushes[mb[0]];
                        b.exp = E_EXC; b.val = tag;
                        for (int i = 1; i < mbn; ++i) mb[i - 1] = mb[i];
                        --mbn;
                    }
                } else {                          // unblock_pop(e)
                    int tag = 200 + step;
                    bool r = q.unblock_pop(std::make_exception_ptr(tag_exc{tag}));
                    VF_ASSERT(r == (mwn > 0), "C10 unblock_pop reports whether a waiting pop existed");
                    if (mwn > 0) {
                        PopSlot &w = pops[mw[0]];
                        w.exp = E_EXC; w.val = tag;
                        for (int i = 1; i < mwn; ++i) mw[i - 1] = mw[i];
                        --mwn;
                    }
                }
                // observe everything after every step
                VF_ASSERT((int)q.size() == mqn, "C10 size() equals the number of accepted, undelivered items");
                VF_ASSERT(q.empty() == (mqn == 0), "C10 empty() consistent with the model");
                for (int i = 0; i < npop; ++i) check_slot(pops[i], true);
                for (int i = 0; i < npush; ++i) check_slot(pushes[i], false);
                vf_out(q.size());
            }
            // destroying the queue resolves whatever is still pending with no-value
            for (int i = 0; i < mwn; ++i) pops[mw[i]].exp = E_NOVALUE;
            for (int i = 0; i < mbn; ++i) pushes[mb[i]].exp = E_NOVALUE;
        }
        for (int i = 0; i < npop; ++i) { check_slot(pops[i], true); vf_out(pops[i].exp * 1000 + (pops[i].exp == E_VALUE ? (pops[i].f.value() & 0xff) : 0)); }
        for (int i = 0; i < npush; ++i) { check_slot(pushes[i], false); vf_out(pushes[i].exp); }
    }
    VF_ASSERT(vf_live_allocs() == base, "C10 nothing leaked (items, blocked entries, exceptions' holders)");
    vf_choice_end();
    vf_witness();
}
