// C16 - publisher/subscriber: gap-free, ordered, duplicate-free stream per subscriber.
// History harness over <= 2 subscriber slots.  A skeleton vector selects the subscription mode, the queue
// configuration and the operation kinds; every published value is symbolic.  The reference model is the
// published stream (array of values, positions 1..n) plus one cursor per subscriber; the real
// publisher<VT>/subscriber<VT> must agree with it on everything the property states - and on nothing else:
//  * all_values: the k-th value received after subscription is stream[point+k]; the FIRST end-of-stream
//    indication needs a reason: kicked, closed-and-drained, or more than max_queue_len values behind;
//  * skip_if_behind: the received values embed into the stream at strictly increasing positions, all of
//    them after the subscription point;
//  * skip_to_recent: a received value is the newest one and something was published since the last receipt;
//  * close()/~publisher() resume every subscriber parked in next(); so does publishing a value;
//  * a copy starts at the original's position and is tracked by a cursor of its own.
// After a subscriber's first end indication nothing about it is asserted (and no next() is issued on it).
#include "vf_cocls.h"
#include <cocls/publisher.h>
#include <cocls/async.h>
#include <optional>
using namespace cocls;

namespace {
constexpr int MAXOPS = 9;
constexpr int MAXP = 2 * MAXOPS + 2;
constexpr int NS = 2;
enum { M_ALL = 0, M_BEHIND = 1, M_RECENT = 2 };
enum {
    OP_PUB1 = 0, OP_PUB2 = 1, OP_CLOSE = 2,
    OP_SUB_RECENT = 3,      // +slot
    OP_SUB_AT = 5,          // +2*slot + (k-1): subscribe at position n-k, k in {1,2}
    OP_COPY = 9,            // +slot: slot := copy of the other slot
    OP_POLL = 11,           // +slot: next_ready()
    OP_BLOCK = 13,          // +slot: bool(next())  - only issued when the model says it cannot block
    OP_AWAIT = 15,          // +slot: a coroutine does co_await next()
    OP_KICK = 17,           // +slot
    OP_LEAVE = 19,          // +slot
    NOPS = 21
};

// value type: 64 bit, so that std::optional<VT> travels as a typed {value, flag} pair (an optional<int> is packed into one
// integer register by the ABI, which the solver front end cannot constant-fold the flag out of)
using VT = long;
struct Res { int done, has; VT val; };

// the scripted subscriber coroutine: one awaited next(), result recorded for the harness
async<void> await_next(subscriber<VT> &s, Res &r) {
    bool h = co_await s.next();
    r.has = h;
    r.val = h ? s.value() : 0;
    r.done = 1;
}

using Pub = publisher<VT>;

struct SubM {
    bool active, kicked, parked, ended;
    int c;      // all_values / skip_to_recent: position of the last received value (or the subscription point);
                // skip_if_behind: smallest position consistent with the values received so far (may be symbolic)
    int hi;     // number of published values at the time of the last receipt (concrete upper bound of c)
};

struct Hist {
    int mode = 0;
    bool unlimited = true;
    int maxq = 0, minq = 1;
    VT stream[MAXP + 1];
    int n = 0;
    bool closed = false;
    int skipped = 0;
    std::optional<Pub> pub;
    std::optional<subscriber<VT> > subs[NS];
    SubM sm[NS];
    Res res[NS];

    // one result of next() on slot i, judged against the reference stream in its present state
    void deliver(int i, bool has, VT val) {
        SubM &m = sm[i];
        vf_out(1000 + (has ? 500 : 0) + (has ? (val & 0xff) : 0));
        if (m.ended) return;
        if (!has) {
            if (mode == M_ALL) {
                bool drained = closed && m.c == n;
                bool behind = !unlimited && (n - m.c > maxq);
                VF_ASSERT(m.kicked || drained || behind,
                          "C16 all_values: first end-of-stream only if kicked, closed-and-drained, or more than max_queue_len behind");
            }
            m.ended = true;
            return;
        }
        if (mode == M_ALL) {
            VF_ASSERT(m.c + 1 <= n, "C16 all_values: a received value has been published (position <= stream length)");
            if (m.c + 1 <= n)
                VF_ASSERT(val == stream[m.c + 1], "C16 all_values: received value is the one right after the previous position (no gap, no duplicate, in order)");
            m.c++;
        } else if (mode == M_BEHIND) {
            int p = 0;
            for (int k = 1; k <= n; ++k)
                if (p == 0 && k > m.c && stream[k] == val) p = k;
            VF_ASSERT(p != 0, "C16 skip_if_behind: received value lies at a position strictly after the previously received one");
            m.c = p ? p : n;
        } else {
            VF_ASSERT(n > m.c, "C16 skip_to_recent: position strictly increases (nothing is received twice)");
            VF_ASSERT(n >= 1 && val == stream[n], "C16 skip_to_recent: yields the newest published value");
            m.c = n;
        }
        m.hi = n;
    }

    // something new has certainly been published for slot i since its last receipt / subscription
    bool fresh(int i) const { return n > sm[i].hi; }

    // look at the parked coroutines after an operation
    void collect() {
        for (int i = 0; i < NS; ++i) {
            if (sm[i].active && sm[i].parked && res[i].done) {
                sm[i].parked = false;
                deliver(i, res[i].has != 0, res[i].val);
            }
        }
    }
    bool any_parked() const {
        for (int i = 0; i < NS; ++i) if (sm[i].active && sm[i].parked) return true;
        return false;
    }

    void subscribed(int i, int point, bool ended) {
        SubM &m = sm[i];
        m.active = true; m.kicked = false; m.parked = false; m.ended = ended; m.c = point; m.hi = point;
    }

    void next_sync(int i, bool blocking) {
        bool r = blocking ? bool(subs[i]->next()) : subs[i]->next_ready();
        SubM &m = sm[i];
        if (r) { deliver(i, true, subs[i]->value()); return; }
        // false from next_ready() means "nothing now" OR end of stream; it is an end indication whenever
        // the model says a value (or the end) was due.  A blocking next() returning false is always one.
        bool due = blocking || m.kicked || closed || (mode == M_ALL ? m.c < n : fresh(i));
        if (due) deliver(i, false, 0); else vf_out(999);
    }

    void step(int op) {
        if (op == OP_PUB1) {
            VT v = nondet_long();
            stream[++n] = v;
            if (n & 1) pub->publish(v); else pub->publish(VT(v));
            collect();
            VF_ASSERT(!any_parked(), "C16 publishing a value resumes every subscriber waiting in next()");
        } else if (op == OP_PUB2) {
            VT a[2];
            a[0] = nondet_long(); a[1] = nondet_long();
            stream[++n] = a[0]; stream[++n] = a[1];
            VT *b = a, *e = a + 2;
            pub->publish(b, e);
            collect();
            VF_ASSERT(!any_parked(), "C16 publishing a batch resumes every subscriber waiting in next()");
        } else if (op == OP_CLOSE) {
            pub->close();
            closed = true;
            collect();
            VF_ASSERT(!any_parked(), "C16 close() resumes every subscriber waiting in next()");
        } else if (op < OP_SUB_AT) {
            int i = op - OP_SUB_RECENT;
            if (sm[i].active) { ++skipped; return; }
            subs[i].emplace(*pub, static_cast<subscribtion_type>(mode));
            subscribed(i, n, false);
        } else if (op < OP_COPY) {
            int i = (op - OP_SUB_AT) / 2, k = 1 + (op - OP_SUB_AT) % 2;
            // a position is only offered while it is certainly retained: the newest min_queue_len values always are
            if (sm[i].active || k > n || k > minq) { ++skipped; return; }
            subs[i].emplace(*pub, std::size_t(n - k), static_cast<subscribtion_type>(mode));
            subscribed(i, n - k, false);
        } else if (op < OP_POLL) {
            int i = op - OP_COPY, o = 1 - i;
            if (sm[i].active || !sm[o].active) { ++skipped; return; }
            subs[i].emplace(*subs[o]);
            subscribed(i, sm[o].c, sm[o].ended);
            sm[i].hi = sm[o].hi;
        } else if (op < OP_AWAIT) {
            int i = (op - OP_POLL) % 2;
            bool blocking = op >= OP_BLOCK;
            SubM &m = sm[i];
            if (!m.active || m.parked || m.ended) { ++skipped; return; }
            if (blocking) {
                bool nonblocking = m.kicked || closed || (mode == M_ALL ? m.c < n : fresh(i));
                if (!nonblocking) { ++skipped; return; }   // would need a second thread
            }
            next_sync(i, blocking);
        } else if (op < OP_KICK) {
            int i = op - OP_AWAIT;
            SubM &m = sm[i];
            if (!m.active || m.parked || m.ended) { ++skipped; return; }
            res[i].done = 0; res[i].has = 0; res[i].val = 0;
            await_next(*subs[i], res[i]).detach();
            if (res[i].done) {
                deliver(i, res[i].has != 0, res[i].val);
            } else {
                m.parked = true;
                bool due = m.kicked || closed || (mode == M_ALL ? m.c < n : fresh(i));
                VF_ASSERT(!due, "C16 next() suspends only while nothing new is published and the stream is neither closed nor the subscriber kicked");
                vf_out(998);
            }
        } else if (op < OP_LEAVE) {
            int i = op - OP_KICK;
            SubM &m = sm[i];
            if (!m.active) { ++skipped; return; }
            if (i == 0) pub->kick(&*subs[i]); else subs[i]->kick_me();
            m.kicked = true;
            collect();
        } else {
            int i = op - OP_LEAVE;
            SubM &m = sm[i];
            if (!m.active || m.parked) { ++skipped; return; }
            subs[i].reset();
            m.active = false;
        }
    }
};
}

extern "C" void h_hist() {
    Hist h;
    h.mode = vf_choice(3);
    int cfg = vf_choice(5);
    const int nops = vf_choice(MAXOPS + 1);
    for (int i = 0; i < NS; ++i) { h.sm[i] = SubM{false, false, false, false, 0, 0}; h.res[i] = Res{0, 0, 0}; }
    switch (cfg) {
    case 0: h.unlimited = true; h.minq = 1; h.pub.emplace(); break;
    case 1: h.unlimited = false; h.maxq = 1; h.minq = 1; h.pub.emplace(1, 1); break;
    case 2: h.unlimited = false; h.maxq = 2; h.minq = 1; h.pub.emplace(2, 1); break;
    case 3: h.unlimited = false; h.maxq = 3; h.minq = 2; h.pub.emplace(3, 2); break;
    default: h.unlimited = false; h.maxq = 5; h.minq = 5; h.pub.emplace(5, 5); break;
    }
    for (int s = 0; s < nops; ++s) {
        int op = vf_choice(NOPS);
        h.step(op);
        vf_out(h.n * 100 + (h.sm[0].active ? 1 : 0) + (h.sm[0].parked ? 2 : 0) + (h.sm[0].ended ? 4 : 0)
               + (h.sm[1].active ? 10 : 0) + (h.sm[1].parked ? 20 : 0) + (h.sm[1].ended ? 40 : 0));
    }
    // the publisher goes away (subscribers keep the queue alive): this closes the stream
    h.pub.reset();
    h.closed = true;
    h.collect();
    VF_ASSERT(!h.any_parked(), "C16 destroying the publisher resumes every subscriber waiting in next()");
    // every subscriber that has not seen an end yet reads on until it does: the rest of the stream, then the end
    for (int i = 0; i < NS; ++i) {
        SubM &m = h.sm[i];
        if (!m.active) continue;
        for (int k = 0; k <= h.n + 1 && !m.ended && !m.parked; ++k)
            h.next_sync(i, !m.kicked);
    }
    for (int i = 0; i < NS; ++i) h.subs[i].reset();
    vf_out(h.skipped);
    VF_ASSERT(h.skipped == 0, "VF_SPEC an operation of the history was not applicable where the plan (C16.py) placed it");
    vf_choice_end();
    vf_witness();
}
