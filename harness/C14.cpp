// C14 - generator aggregator: union of all sources, per-source order preserved.
// 0..4 scripted source generators (script = skeleton input, payloads symbolic) are aggregated by the real
// cocls::generator_aggregator; every item carries a concrete (source, index) tag. The generators' value type is a pointer
// to the item record kept by the harness (generator<const Item *>): the tag is then read through a concrete pointer and
// stays a constant for the solver, while the payload inside the record is symbolic. The consumer reads the aggregate in a
// skeleton-chosen sequence of access styles. The oracle is order-agnostic between sources (the statement does not fix
// the interleaving): per-source counters must advance by exactly one, payloads must match, the end / the exception
// may only be reported once nothing is left.
#include "vf_cocls.h"
#include <cocls/generator_aggregator.h>
#include <cocls/async.h>
#include <cocls/future.h>
#include <vector>
using namespace cocls;

namespace {
constexpr int MAXSRC = 4;
constexpr int MAXE = 4;      // script entries per source
constexpr int MAXA = 10;     // consumer accesses
constexpr int MAXIDX = 8;    // items read from one source

enum Kind { K_YIELD = 0,        // co_yield the next tagged item
            K_AWAIT_PEND,       // co_await a pending future (the source is "asynchronous"); the harness resolves it
            K_THROW,            // throw vf_tag_exc{1000+source}
            K_RETURN,           // co_return
            K_FOREVER,          // yield tagged items forever (infinite source)
            K_NKINDS };

enum Style { S_NEXT = 0,        // if (g.next()) g.value()
             S_ITER,            // it = g.begin() first, ++it afterwards
             S_FORALL,          // range-for to the end
             S_FUT_HV,          // future f = g(); f.has_value() ? f.wait() : end
             S_CO_NEXT,         // consumer coroutine: co_await g.next(); g.value()
             S_CO_CALL,         // consumer coroutine: co_await g()
             S_NSTYLES };

enum ObsType { O_NONE = 0, O_VALUE, O_EXC, O_END, O_OTHER };

struct Item { int src; int idx; int payload; int echo; };
using Val = const Item *;
struct Obs { int type = O_NONE; int tag = 0; Val item = nullptr; };

inline int uadd(int a, int b) { return (int)((unsigned)a + (unsigned)b); }

struct Src {
    int n = 0;
    int kind[MAXE];
    int val[MAXE];
    bool resolved[MAXE];
    bool first_null = false;
    int waiting = -1;           // ghost written by the body: the pending await it is suspended on
    Item items[MAXIDX];         // what the body yields pointers to
    vf_probe_counts probes;
    future<int> futs[MAXE];
    promise<int> proms[MAXE];
    // reference model
    int nyield = 0;             // items the script yields before it ends (finite part)
    int payload[MAXIDX];
    bool throws = false;
    bool forever = false;
    int next = 0;               // index of the next item the consumer must get from this source
    int cur_arg = 0;            // argument the body currently holds
};

struct Env {
    int nsrc = 0;
    int pmode = 0;              // which in-flight source is completed first: 0 lowest id, 1 highest id
    Src s[MAXSRC];
};

// ---------------------------------------------------------------- scripted sources
inline Val emit(Src *s, int id, int &idx, int payload, int echo) {
    VF_ASSUME(idx < MAXIDX);        // the plan never reads more than MAXIDX items from one source
    Item &it = s->items[idx];
    it.src = id; it.idx = idx; it.payload = payload; it.echo = echo;
    ++idx;
    return &it;
}
generator<Val> source(Src *s, int id) {
    vf_probe probe(s->probes, id);
    int acc = 0, idx = 0;
    for (int i = 0; i < s->n; ++i) {
        switch (s->kind[i]) {
        case K_YIELD: co_yield emit(s, id, idx, uadd(s->val[i], acc), 0); break;
        case K_AWAIT_PEND: s->waiting = i; acc = uadd(acc, co_await s->futs[i]); s->waiting = -1; break;
        case K_THROW: throw vf_tag_exc{1000 + id};
        case K_FOREVER: for (;;) { Val p = emit(s, id, idx, uadd(s->val[i], acc), 0); co_yield p; }
        default: co_return;
        }
    }
}
generator<Val, int> source_arg(Src *s, int id) {
    vf_probe probe(s->probes, id);
    int acc = 0, idx = 0, a = 0;
    if (s->first_null) a = co_yield nullptr;
    for (int i = 0; i < s->n; ++i) {
        switch (s->kind[i]) {
        case K_YIELD: a = co_yield emit(s, id, idx, uadd(s->val[i], acc), a); break;
        case K_AWAIT_PEND: s->waiting = i; acc = uadd(acc, co_await s->futs[i]); s->waiting = -1; break;
        case K_THROW: throw vf_tag_exc{1000 + id};
        case K_FOREVER: for (;;) { Val p = emit(s, id, idx, uadd(s->val[i], acc), a); a = co_yield p; }
        default: co_return;
        }
    }
}

void model_setup(Src &s) {
    int acc = 0;
    for (int i = 0; i < s.n; ++i) {
        int k = s.kind[i];
        if (k == K_YIELD) { if (s.nyield < MAXIDX) s.payload[s.nyield] = uadd(s.val[i], acc); ++s.nyield; }
        else if (k == K_AWAIT_PEND) acc = uadd(acc, s.val[i]);
        else if (k == K_THROW) { s.throws = true; break; }
        else if (k == K_FOREVER) { s.forever = true; for (int j = s.nyield; j < MAXIDX; ++j) s.payload[j] = uadd(s.val[i], acc); break; }
        else break;
    }
}

void resolve(Src &s, int j) {
    if (!s.resolved[j]) { s.resolved[j] = true; s.proms[j](s.val[j]); }
}
// complete one in-flight source (one that is suspended on a pending future); false if there is none
bool resolve_one_waiting(Env &e) {
    for (int k = 0; k < e.nsrc; ++k) {
        Src &s = e.s[e.pmode ? e.nsrc - 1 - k : k];
        if (s.waiting >= 0 && !s.resolved[s.waiting]) { resolve(s, s.waiting); return true; }
    }
    return false;
}
// a synchronous reader would block while all sources are in flight: everybody else acts first
void resolve_everything(Env &e) {
    for (int k = 0; k < e.nsrc; ++k) {
        Src &s = e.s[e.pmode ? e.nsrc - 1 - k : k];
        for (int j = 0; j < s.n; ++j) if (s.kind[j] == K_AWAIT_PEND) resolve(s, j);
    }
}

template<typename Fn> void observe(Obs &o, Fn &&fn) {
    try { o.item = fn(); o.type = O_VALUE; }
    catch (const vf_tag_exc &x) { o.type = O_EXC; o.tag = x.tag; }
    catch (const await_canceled_exception &) { o.type = O_END; }
    catch (...) { o.type = O_OTHER; }
}

template<typename G> async<void> co_next(G &g, Obs &o, int arg) {
    bool has;
    if constexpr (G::arg_is_void) has = co_await g.next(); else has = co_await g.next(arg);
    if (has) observe(o, [&]() -> Val { return g.value(); });
    else o.type = O_END;
}
template<typename G> async<void> co_call(G &g, Obs &o, int arg) {
    try {
        if constexpr (G::arg_is_void) o.item = co_await g(); else o.item = co_await g(arg);
        o.type = O_VALUE;
    }
    catch (const vf_tag_exc &x) { o.type = O_EXC; o.tag = x.tag; }
    catch (const await_canceled_exception &) { o.type = O_END; }
    catch (...) { o.type = O_OTHER; }
}

struct Tracker {
    Env &e;
    bool with_arg;
    int last_src = -1;          // source whose value was returned by the previous access
    bool first = true;
    bool ended = false, failed = false;

    bool anything_left() const {
        for (int k = 0; k < e.nsrc; ++k) if (e.s[k].forever || e.s[k].next < e.s[k].nyield) return true;
        return false;
    }
    bool any_throws() const {
        for (int k = 0; k < e.nsrc; ++k) if (e.s[k].throws) return true;
        return false;
    }
    // the consumer is about to make an access with argument arg
    void call(int arg) {
        if (!with_arg) return;
        if (first) { for (int k = 0; k < e.nsrc; ++k) if (e.s[k].first_null) e.s[k].cur_arg = arg; }
        else if (last_src >= 0) e.s[last_src].cur_arg = arg;
        first = false;
    }
    void seen(const Obs &o) {
        VF_ASSERT(o.type != O_NONE && o.type != O_OTHER, "C14 every access is answered by a value, the end indication or a source's exception");
        if (o.type == O_VALUE) {
            VF_ASSERT(o.item != nullptr, "C14 a consumed value is one that a source yielded");
            VF_ASSUME(o.item != nullptr);
            const Item &it = *o.item;
            VF_ASSERT(it.src >= 0 && it.src < e.nsrc, "C14 a consumed value comes from one of the sources");
            VF_ASSUME(it.src >= 0 && it.src < e.nsrc);
            Src &s = e.s[it.src];
            VF_ASSERT(it.idx == s.next, "C14 each source's values arrive exactly once and in that source's order");
            VF_ASSERT(s.forever || it.idx < s.nyield, "C14 nothing is consumed that the source did not yield");
            VF_ASSUME(it.idx >= 0 && it.idx < MAXIDX);
            VF_ASSERT(it.payload == s.payload[it.idx], "C14 the consumed value is the value the source yielded");
            // the statement speaks about calls that follow a returned value; what the very first call's argument does is not constrained here
            if (with_arg && it.idx > 0) VF_ASSERT(it.echo == s.cur_arg, "C14 an argument goes to the source whose value was returned last");
            ++s.next;
            last_src = it.src;
            vf_out(1000 + it.src * 100 + it.idx);
        } else {
            VF_ASSERT(!anything_left(), "C14 the aggregate ends / reports an exception only when every source's values have been consumed (nothing lost)");
            if (o.type == O_END) {
                VF_ASSERT(!any_throws(), "C14 a source's exception is reported to the consumer (not swallowed into a plain end)");
                ended = true;
            } else {
                bool from_source = false;
                for (int k = 0; k < e.nsrc; ++k) if (e.s[k].throws && o.tag == 1000 + k) from_source = true;
                VF_ASSERT(from_source, "C14 the reported exception is the one a source threw");
                failed = true;
            }
            last_src = -1;
            vf_out(o.type);
        }
    }
};

bool g_dtor_inflight = false;
Env *g_env;
void hook_resolve_all() { resolve_everything(*g_env); }

template<typename G, typename Mk> void run(Mk &&make_source) {
    constexpr bool with_arg = !G::arg_is_void;
    vf_warmup();
    long base = vf_live_allocs();
    {
        Env e;
        e.pmode = vf_choice(2);
        e.nsrc = vf_choice(MAXSRC + 1);
        for (int k = 0; k < e.nsrc; ++k) {
            Src &s = e.s[k];
            s.n = vf_choice(MAXE + 1);
            for (int i = 0; i < s.n; ++i) {
                s.kind[i] = vf_choice(K_NKINDS);
                s.val[i] = nondet_int();
                s.resolved[i] = false;
                if (s.kind[i] == K_AWAIT_PEND) s.proms[i] = s.futs[i].get_promise();
            }
            if constexpr (with_arg) s.first_null = vf_choice(2) != 0;
            model_setup(s);
        }
        const int nacc = vf_choice(MAXA + 1);
        Tracker t{e, with_arg};
        {
            std::vector<G> list;
            list.reserve(e.nsrc);
            for (int k = 0; k < e.nsrc; ++k) list.push_back(make_source(&e.s[k], k));
            G g = generator_aggregator(std::move(list));
            typename G::iterator it = g.end();
            bool it_started = false;
            future<Val> f;
            for (int a = 0; a < nacc; ++a) {
                const int style = vf_choice(S_NSTYLES);
                int arg = 0;
                if constexpr (with_arg) arg = nondet_int();
                Obs got;
                if (style == S_FORALL) {
                    if constexpr (!with_arg) {
                        resolve_everything(e);
                        int cnt = 0;
                        bool cut = false;       // only an infinite source can get here; the plan does not combine the two
                        try {
                            for (Val &v : g) {
                                Obs o; o.type = O_VALUE; o.item = v;
                                t.seen(o);
                                if (++cnt > MAXA) { cut = true; break; }
                            }
                            got.type = O_END;
                        } catch (const vf_tag_exc &x) { got.type = O_EXC; got.tag = x.tag; }
                        if (!cut) t.seen(got);
                    }
                    continue;
                }
                t.call(arg);
                switch (style) {
                case S_NEXT: {
                    resolve_everything(e);
                    bool has;
                    if constexpr (with_arg) has = g.next(arg); else has = g.next();
                    if (has) observe(got, [&]() -> Val { return g.value(); });
                    else got.type = O_END;
                    break;
                }
                case S_ITER:
                    if constexpr (!with_arg) {
                        resolve_everything(e);
                        if (it_started) ++it; else { it = g.begin(); it_started = true; }
                        if (it != g.end()) observe(got, [&]() -> Val { return *it; });
                        else got.type = O_END;
                    }
                    break;
                case S_FUT_HV: {
                    if constexpr (with_arg) f << [&] { return g(arg); }; else f << [&] { return g(); };
                    while (!f.ready() && resolve_one_waiting(e)) { }
                    VF_ASSERT(f.ready(), "C14 the consumer is answered although no source is in flight any more (no lost wake-up)");
                    if (f.has_value()) observe(got, [&]() -> Val { return f.wait(); });
                    else got.type = O_END;
                    break;
                }
                default: {
                    if (style == S_CO_NEXT) co_next(g, got, arg).detach(); else co_call(g, got, arg).detach();
                    while (got.type == O_NONE && resolve_one_waiting(e)) { }
                    break;
                }
                }
                t.seen(got);
            }
            if (t.ended) VF_ASSERT(g.done(), "C14 done() holds after the end indication");
            // destroying the aggregate waits for in-flight sources; with one thread they have to be completed first -
            // or (entries h_aggr_dtor / h_aggr_arg_dtor) another thread completes them while the destructor is blocked (wait hook)
            if (g_dtor_inflight) { g_env = &e; vf_wait_arm(&hook_resolve_all); }
            else while (resolve_one_waiting(e)) { }
        }
        if (g_dtor_inflight) vf_wait_done();
        for (int k = 0; k < e.nsrc; ++k) {
            VF_ASSERT(e.s[k].probes.constructed <= 1 && e.s[k].probes.destroyed == e.s[k].probes.constructed,
                      "C14 destroying the aggregate destroys every source's locals exactly once");
            vf_out(e.s[k].probes.constructed * 10 + e.s[k].probes.destroyed);
        }
    }
    VF_ASSERT(vf_live_allocs() == base, "C14 nothing leaked (aggregator frame, source frames, callbacks, queue, exceptions)");
    vf_choice_end();
    vf_witness();
}
}

#ifndef VF_C14_ARG
extern "C" void h_aggr() { run<generator<Val>>([](Src *s, int id) { return source(s, id); }); }
extern "C" void h_aggr_dtor() { g_dtor_inflight = true; run<generator<Val>>([](Src *s, int id) { return source(s, id); }); }
#else
extern "C" void h_aggr_arg() { run<generator<Val, int>>([](Src *s, int id) { return source_arg(s, id); }); }
extern "C" void h_aggr_arg_dtor() { g_dtor_inflight = true; run<generator<Val, int>>([](Src *s, int id) { return source_arg(s, id); }); }
#endif
