// C19 (two threads creating and finishing frames on one reusable_storage_mtsafe) - E2 scenario.
// Each thread: alloc(size) -> write a canary over the block -> check it -> dealloc, ROUNDS times. SZ1/SZ2 = sizes requested by the threads.
#include "vf2.h"
#include <cstdint>
#include <atomic>
#include <cocls/coro_storage.h>
using namespace cocls;
#ifndef SZ1
#define SZ1 16
#endif
#ifndef SZ2
#define SZ2 16
#endif
#ifndef ROUNDS
#define ROUNDS 1
#endif
static reusable_storage_mtsafe st;
static int live_in_block;          // plain cell: number of live frames inside the storage's own block
static __attribute__((always_inline)) inline void frame(int me, unsigned sz) {
    char *p = static_cast<char *>(st.alloc(sz));
    for (unsigned i = 0; i < sz; i += 8) *reinterpret_cast<long *>(p + i) = me * 1000 + i;          // the frame's locals
    bool ok = true;
    for (unsigned i = 0; i < sz; i += 8) ok = ok && *reinterpret_cast<long *>(p + i) == (long)(me * 1000 + i);
    vf_assert(ok, "C19 a live frame's memory was overwritten (block handed to two simultaneously live frames)");
    reusable_storage_mtsafe::dealloc(p, sz);
}
extern "C" void vf_setup() {}
extern "C" void vf_thread_1() { for (int r = 0; r < ROUNDS; r++) frame(1, SZ1); }
extern "C" void vf_thread_2() { for (int r = 0; r < ROUNDS; r++) frame(2, SZ2); }
extern "C" void vf_check() { vf_reach("C19 mt check reached"); }
