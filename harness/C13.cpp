// C13 - generator: the consumer sees exactly the yielded sequence, in every access style.
// The generator body is a script interpreter coroutine (the script is a skeleton input, the payloads are symbolic);
// the consumer performs a skeleton-chosen sequence of accesses, each in its own style. A small reference model walks
// the same script and predicts what every access must observe.
#include "vf_cocls.h"
#include <cocls/generator.h>
#include <cocls/async.h>
#include <cocls/future.h>
using namespace cocls;

namespace {
constexpr int MAXS = 6;     // script entries
constexpr int MAXA = 7;     // consumer accesses

// script entry kinds
enum Kind { K_YIELD = 0,        // co_yield <lvalue>
            K_YIELD_RV,         // co_yield <temporary>
            K_AWAIT_READY,      // co_await a future that is already resolved
            K_AWAIT_PEND,       // co_await a pending future; the harness (standing for "somebody else") resolves it
            K_THROW,            // throw vf_tag_exc{1000+i}
            K_RETURN,           // co_return
            K_NKINDS };

// consumer access styles
enum Style { S_NEXT = 0,        // if (g.next()) g.value()
             S_ITER,            // it = g.begin() on first use, ++it afterwards; it != g.end(); *it
             S_ITER_POST,       // s = it++ (re-reads the current value), then as S_ITER
             S_FOR1,            // for (int &v : g) { ...; break; }
             S_FOR2,            // range-for left after two items
             S_FORALL,          // range-for to the end
             S_FUT_HV,          // future f = g(); f.has_value() ? f.wait() : end
             S_FUT_WAIT,        // future f = g(); f.wait()  (end = await_canceled_exception)
             S_CO_NEXT,         // consumer coroutine: co_await g.next(); g.value()
             S_CO_CALL_HV,      // consumer coroutine: future f = g(); co_await f.has_value(); *f
             S_CO_CALL,         // consumer coroutine: co_await g()
             S_NSTYLES };

enum ObsType { O_NONE = 0, O_VALUE, O_EXC, O_END, O_OTHER };
struct Obs { int type = O_NONE; int val = 0; };

inline int uadd(int a, int b) { return (int)((unsigned)a + (unsigned)b); }

struct Env {
    int n = 0;
    int kind[MAXS];
    int val[MAXS];              // payload of a yield / result of an awaited future (symbolic)
    int slot[MAXS];             // storage for the lvalue yields
    bool resolved[MAXS];
    bool first_null = false;    // generator with argument: read the first argument through co_yield nullptr
    int rmode = 0;              // who resolves a pending awaited future: 0 plain code, 1 a coroutine (discarded suspend
                                // point: body queued), 2 a coroutine that co_awaits the suspend point (symmetric transfer)
    vf_probe_counts outer, inner;
    future<int> futs[MAXS];
    promise<int> proms[MAXS];   // destroyed before futs
};

// ---------------------------------------------------------------- generator bodies (script interpreters)
generator<int> body(Env *e) {
    vf_probe outer(e->outer, 1);
    int acc = 0;
    for (int i = 0; i < e->n; ++i) {
        vf_probe inner(e->inner, i);
        switch (e->kind[i]) {
        case K_YIELD: e->slot[i] = uadd(e->val[i], acc); co_yield e->slot[i]; break;
        case K_YIELD_RV: co_yield uadd(e->val[i], acc); break;
        case K_AWAIT_READY:
        case K_AWAIT_PEND: acc = uadd(acc, co_await e->futs[i]); break;
        case K_THROW: throw vf_tag_exc{1000 + i};
        default: co_return;
        }
    }
}

// the argument received with a resumption is echoed into the next yielded value
generator<int, int> body_arg(Env *e) {
    vf_probe outer(e->outer, 1);
    int acc = 0;
    int a = 0;
    if (e->first_null) a = co_yield nullptr;
    for (int i = 0; i < e->n; ++i) {
        vf_probe inner(e->inner, i);
        switch (e->kind[i]) {
        case K_YIELD: e->slot[i] = uadd(uadd(e->val[i], acc), a); a = co_yield e->slot[i]; break;
        case K_YIELD_RV: a = co_yield uadd(uadd(e->val[i], acc), a); break;
        case K_AWAIT_READY:
        case K_AWAIT_PEND: acc = uadd(acc, co_await e->futs[i]); break;
        case K_THROW: throw vf_tag_exc{1000 + i};
        default: co_return;
        }
    }
}

// ---------------------------------------------------------------- reference model
struct Model {
    int pos = 0;
    int acc = 0;
    int a = 0;                  // argument the body currently holds
    bool started = false;
    bool ended = false;         // end indication delivered
    bool failed = false;        // exception delivered
};

// what the next access (made with argument `arg`) must observe; pending awaits the body passes on the way -> pend[]
Obs model_next(const Env &e, Model &m, bool with_arg, int arg, int *pend, int &npend) {
    npend = 0;
    if (m.ended || m.failed) return Obs{O_END, 0};
    if (with_arg) {
        if (m.started || e.first_null) m.a = arg;
    }
    m.started = true;
    while (m.pos < e.n) {
        int i = m.pos++;
        switch (e.kind[i]) {
        case K_YIELD: case K_YIELD_RV: return Obs{O_VALUE, uadd(uadd(e.val[i], m.acc), m.a)};
        case K_AWAIT_READY: m.acc = uadd(m.acc, e.val[i]); break;
        case K_AWAIT_PEND: if (!e.resolved[i]) pend[npend++] = i; m.acc = uadd(m.acc, e.val[i]); break;
        case K_THROW: m.failed = true; return Obs{O_EXC, 1000 + i};
        default: m.ended = true; return Obs{O_END, 0};
        }
    }
    m.ended = true;
    return Obs{O_END, 0};
}

async<void> resolver_discard(Env &e, int j) { e.proms[j](e.val[j]); co_return; }
async<void> resolver_await(Env &e, int j) { co_await e.proms[j](e.val[j]); }
void resolve(Env &e, int j) {
    if (!e.resolved[j]) {
        e.resolved[j] = true;
        if (e.rmode == 0 || e.rmode == 3) e.proms[j](e.val[j]);       // discarded suspend point: a body waiting for it is resumed right here
        else if (e.rmode == 1) resolver_discard(e, j).detach();
        else resolver_await(e, j).detach();
    }
}

// rmode 3: the pending future a synchronous read runs into is resolved by ANOTHER THREAD while the reader is blocked
Env *hook_e; int hook_j;
void hook_resolve() { resolve(*hook_e, hook_j); }

template<typename Fn> void observe(Obs &o, Fn &&fn) {
    try { o.val = fn(); o.type = O_VALUE; }
    catch (const vf_tag_exc &x) { o.type = O_EXC; o.val = x.tag; }
    catch (const await_canceled_exception &) { o.type = O_END; }
    catch (...) { o.type = O_OTHER; }
}

// ---------------------------------------------------------------- consumer coroutines (one access each)
template<typename G> async<void> co_next(G &g, Obs &o, int arg) {
    bool has;
    if constexpr (G::arg_is_void) has = co_await g.next(); else has = co_await g.next(arg);
    if (has) observe(o, [&]() -> int { return g.value(); });
    else o.type = O_END;
}
template<typename G> async<void> co_call_hv(G &g, Obs &o, int arg) {
    future<int> f = [&] { if constexpr (G::arg_is_void) return g(); else return g(arg); }();
    bool has = co_await f.has_value();
    if (has) observe(o, [&]() -> int { return *f; });
    else o.type = O_END;
}
template<typename G> async<void> co_call(G &g, Obs &o, int arg) {
    try {
        if constexpr (G::arg_is_void) o.val = co_await g(); else o.val = co_await g(arg);
        o.type = O_VALUE;
    }
    catch (const vf_tag_exc &x) { o.type = O_EXC; o.val = x.tag; }
    catch (const await_canceled_exception &) { o.type = O_END; }
    catch (...) { o.type = O_OTHER; }
}

void check(const Obs &exp, const Obs &got, bool post_end) {
    if (post_end) {
        VF_ASSERT(got.type == O_END || got.type == O_OTHER, "C13 no value and no exception of the body is reported after the end indication");
        return;
    }
    if (exp.type == O_VALUE) {
        VF_ASSERT(got.type == O_VALUE, "C13 the consumer obtains a value where the body yields one (nothing skipped, no early end)");
        VF_ASSERT(got.val == exp.val, "C13 the consumer obtains exactly the next yielded value (same value, same order, none repeated; argument echoed)");
    } else if (exp.type == O_EXC) {
        VF_ASSERT(got.type == O_EXC && got.val == exp.val, "C13 an exception escaping the body surfaces at exactly that position");
    } else {
        VF_ASSERT(got.type == O_END, "C13 end of sequence is indicated exactly when the body has returned");
    }
    vf_out(got.type * 100000 + (got.val & 0xffff));
}

template<typename G, typename Mk> void run(Mk &&make) {
    constexpr bool with_arg = !G::arg_is_void;
    vf_warmup();
    long base = vf_live_allocs();
    {
        Env e;
        e.rmode = vf_choice(4);
        e.n = vf_choice(MAXS + 1);
        for (int i = 0; i < e.n; ++i) {
            e.kind[i] = vf_choice(K_NKINDS);
            e.val[i] = nondet_int();
            e.slot[i] = 0;
            e.resolved[i] = false;
            if (e.kind[i] == K_AWAIT_READY) { int v = e.val[i]; e.futs[i] << [&] { return future<int>::set_value(v); }; }
            if (e.kind[i] == K_AWAIT_PEND) e.proms[i] = e.futs[i].get_promise();
        }
        if constexpr (with_arg) e.first_null = vf_choice(2) != 0;
        const int nacc = vf_choice(MAXA + 1);
        Model m;
        {
            G g = make(&e);
            typename G::iterator it = g.end();
            bool it_started = false;
            Obs last;
            future<int> f;
            for (int a = 0; a < nacc; ++a) {
                const int style = vf_choice(S_NSTYLES);
                int arg = 0;
                if constexpr (with_arg) arg = nondet_int();
                const bool post_end = m.ended;
                int pend[MAXS]; int npend = 0;
                if (style == S_FOR1 || style == S_FOR2 || style == S_FORALL) {
                    if constexpr (!with_arg) {
                        // a synchronous reader blocks while the body waits for somebody else: that somebody acts first
                        for (int j = m.pos; j < e.n; ++j) if (e.kind[j] == K_AWAIT_PEND) resolve(e, j);
                        const int budget = style == S_FOR1 ? 1 : style == S_FOR2 ? 2 : MAXS + 1;
                        int cnt = 0;
                        try {
                            for (int &v : g) {
                                Obs exp = model_next(e, m, false, 0, pend, npend);
                                check(exp, Obs{O_VALUE, v}, post_end);
                                if (++cnt == budget) break;
                            }
                            if (cnt < budget) {
                                Obs exp = model_next(e, m, false, 0, pend, npend);
                                check(exp, Obs{O_END, 0}, post_end);
                            }
                        } catch (const vf_tag_exc &x) {
                            Obs exp = model_next(e, m, false, 0, pend, npend);
                            check(exp, Obs{O_EXC, x.tag}, post_end);
                        }
                        last = Obs{};
                    }
                    continue;
                }
                Obs exp = model_next(e, m, with_arg, arg, pend, npend);
                Obs got;
                switch (style) {
                case S_NEXT: {
                    if (e.rmode == 3 && npend == 1) { hook_e = &e; hook_j = pend[0]; vf_wait_arm(&hook_resolve); }
                    else for (int k = 0; k < npend; ++k) resolve(e, pend[k]);
                    bool has;
                    if constexpr (with_arg) has = g.next(arg); else has = g.next();
                    if (has) observe(got, [&]() -> int { return g.value(); });
                    else got.type = O_END;
                    vf_wait_done();         // (natively: join the helper thread only after the value was read)
                    break;
                }
                case S_ITER:
                case S_ITER_POST:
                    if constexpr (!with_arg) {
                        for (int k = 0; k < npend; ++k) resolve(e, pend[k]);
                        if (style == S_ITER_POST && it_started && last.type == O_VALUE) {
                            auto s = it++;
                            // storage::operator*() const does not compile (returns int& from a const member): read the member
                            VF_ASSERT(s._v == last.val, "C13 postfix ++ hands out the value that was current before the step");
                        } else if (it_started) {
                            ++it;
                        } else {
                            it = g.begin();
                            it_started = true;
                        }
                        if (it != g.end()) observe(got, [&]() -> int { return *it; });
                        else got.type = O_END;
                    }
                    break;
                case S_FUT_HV:
                case S_FUT_WAIT: {
                    if constexpr (with_arg) f << [&] { return g(arg); }; else f << [&] { return g(); };
                    for (int k = 0; k < npend; ++k) resolve(e, pend[k]);
                    VF_ASSERT(f.ready(), "C13 the future obtained by calling the generator is resolved once the body has reached its next yield or its end");
                    if (style == S_FUT_HV) {
                        if (f.has_value()) observe(got, [&]() -> int { return f.wait(); });
                        else got.type = O_END;
                    } else {
                        observe(got, [&]() -> int { return f.wait(); });
                    }
                    break;
                }
                default: {
                    if (style == S_CO_NEXT) co_next(g, got, arg).detach();
                    else if (style == S_CO_CALL_HV) co_call_hv(g, got, arg).detach();
                    else co_call(g, got, arg).detach();
                    for (int k = 0; k < npend; ++k) resolve(e, pend[k]);
                    if (!post_end)
                        VF_ASSERT(got.type != O_NONE, "C13 the awaiting consumer coroutine is resumed once the body has reached its next yield or its end");
                    else if (got.type == O_NONE) got.type = O_OTHER;   // the access itself threw no_more_values_exception
                    break;
                }
                }
                check(exp, got, post_end);
                last = got;
            }
            if (m.ended) {
                VF_ASSERT(g.done(), "C13 done() holds after the end indication");
                VF_ASSERT(!g, "C13 operator bool is false after the end indication");
            }
            if (m.started && !m.ended && !m.failed)
                VF_ASSERT(e.outer.constructed == 1 && e.outer.destroyed == 0, "C13 locals of a parked body are alive");
            vf_out(e.outer.constructed * 10 + e.outer.destroyed);
        }
        // the generator is gone: parked at a yield, finished, or never started
        VF_ASSERT(e.outer.constructed == (m.started ? 1 : 0), "C13 body locals constructed once iff the body was started");
        VF_ASSERT(e.outer.destroyed == e.outer.constructed, "C13 destroying the generator destroys the body's locals exactly once");
        VF_ASSERT(e.inner.destroyed == e.inner.constructed, "C13 destroying the generator destroys the locals of the parked scope exactly once");
        vf_out(e.inner.constructed * 10 + e.inner.destroyed);
    }
    VF_ASSERT(vf_live_allocs() == base, "C13 nothing leaked (generator frame, consumer frames, exceptions)");
    vf_choice_end();
    vf_witness();
}
}

// one entry per translation (unit 'defines' select it): a smaller program loads faster in every query
#ifndef VF_C13_ARG
extern "C" void h_gen() { run<generator<int>>([](Env *e) { return body(e); }); }
#else
extern "C" void h_gen_arg() { run<generator<int, int>>([](Env *e) { return body_arg(e); }); }
#endif
