STARTS = ['never started', 'detach() discarded / normal mode', 'detach() discarded / coroutine mode', 'co_await detach() from a parent coroutine',
          'start() / normal mode', 'start() / coroutine mode', 'start(promise) live / normal mode', 'start(promise) live / coroutine mode',
          'start(promise) on a claimed promise, then ~async', 'start(promise) on a claimed promise, then start()', 'co_await from a parent coroutine',
          'join()', 'future<T>(coro) / normal mode', 'future<T>(coro) / coroutine mode', 'coroutine returned as future<T> / normal mode',
          'coroutine returned as future<T> / coroutine mode']
COMPLS = ['synchronous value', 'synchronous throw', 'suspend on a pending future resolved from normal mode, then value', 'same, then throw',
          'suspend, future resolved in coroutine mode (suspend point discarded), value', 'suspend, future resolved by another coroutine that awaits the suspend point, value',
          'same, then throw']
TYPES = ['int', 'void', 'counted RAII type']
S_NEVER, S_CLAIMED, S_JOIN = 0, 8, 11


def vectors(starts, compls, depths):
    out = []
    for s in starts:
        if s in (S_NEVER, S_CLAIMED):
            out.append([s, 0, 0])          # the body never runs: completion mode and depth are irrelevant
            continue
        for k in compls:
            if s == S_JOIN and k >= 2:
                continue                   # join() blocks the only thread: synchronous completion only
            for d in depths:
                out.append([s, k, d])
    return out


def plan(tier):
    quick = tier == 'quick'
    units = []
    allS, allK = range(len(STARTS)), range(len(COMPLS))
    for t, tname in enumerate(TYPES):
        if quick:
            body = [x for x in allS if x not in (S_NEVER, S_CLAIMED)]
            if t == 0:
                v = vectors(allS, allK, (0,)) + vectors(body, (0, 1, 2, 5, 6), (1,)) + vectors((4, 10), allK, (2, 3))
                sp = ('every start mode x every completion mode at depth 0; every start mode x {value, throw, suspend+value, resolved by another coroutine + value/throw} at depth 1; '
                      'depth 2..3 for start() and co_await x every completion mode')
            else:
                v = vectors(allS, (0, 1, 2, 5), (0,)) + vectors((4, 10, 14), (0, 1, 5), (1,))
                sp = ('every start mode x {value, throw, suspend+value, resolved by another coroutine + value} at depth 0; depth 1 for start(), co_await, returned-as-future x '
                      '{value, throw, resolved by another coroutine}')
        else:
            v = vectors(allS, allK, (0, 1, 2, 3))
            sp = 'every start mode x every completion mode x nesting depth 0..3'
        units.append(dict(
            engine='e1', name='async_' + ['int', 'void', 'counted'][t], tu='C04.cpp', entry='h_async', defines=('VF_T=%d' % t,), unwind=12, vectors=v,
            concrete=[([4, 0, 0], [5, 6]), ([10, 5, 2], [3, 4]), ([2, 1, 1], [1, 2]), ([9, 2, 0], [7, 8]), ([11, 1, 1], [9, 1]), ([15, 6, 3], [2, 2]),
                      ([3, 4, 1], [1, 1]), ([8, 0, 0], [0, 0])],
            space='result type %s: %s. start modes %s; completion modes %s' % (tname, sp, STARTS, COMPLS),
            data='argument value v and the value g delivered through the awaited future: symbolic ints in (-10000, 10000)',
            bounds='co_await chain depth <= 3; one coroutine under test per scenario',
            outside='completion on a different OS thread and thread-pool start (C11/C03); join() on a coroutine that suspends (blocks the only thread); '
                    'destroying a coroutine that is suspended in the middle of its body'))
    K = 10
    vm = [[b, t, a, k] for b in range(4) for t in range(2) for a in range(2) for k in range(K)]
    units.append(dict(
        engine='e1', name='start_mt', tu='C04conc.cpp', entry='h_start_mt', unwind=6, vectors=vm,
        concrete=[([b, t, a, k], [5, 6, 7]) for b in range(4) for t, a, k in ((0, 0, 0), (1, 1, 2), (0, 1, 4), (1, 0, 9))],
        space='coro.start(promise) against another thread that uses the same promise, interleaved at atomic-instruction granularity: [the other thread\'s operation (set value, set exception, drop, '
              'claim into a local promise resolved later), body returns / throws, an unstarted coroutine is destroyed / started with start(), k = position of the atomic instruction of start(promise) in '
              'front of which the other thread\'s complete operation lands (1..%d; beyond the last one: after start() returned)]; full product' % K,
        data='argument value, the other thread\'s value (16 bit) and exception tag (8 bit): symbolic',
        bounds='two threads, one preemption: the other operation runs as a whole inside a window of start(promise)',
        outside='interleavings that split both operations (the claim itself is one exchange; future/promise two-sided interleavings are the E2 scenarios of C01/C02); thread-pool start (C11)'))
    KA = 8
    va = [[t, k] for t in range(2) for k in range(KA)]
    units.append(dict(
        engine='e1', name='await_mt', tu='C04conc.cpp', entry='h_await_mt', unwind=6, vectors=va,
        concrete=[([0, 0], [5, 6]), ([1, 3], [5, 6]), ([0, 5], [7, 8]), ([1, 7], [1, 2])],
        space='a parent coroutine co_awaits a child that suspends on a future; the complete resolve operation of the completing thread lands in front of the k-th atomic instruction executed since the parent '
              'was started (k = 1..%d: before the child awaits, inside the co_await protocol of async<T>, after everything is parked; beyond the last one: afterwards) x child returns / throws; full product' % KA,
        data='argument and delivered value (16 bit): symbolic', bounds='two threads, one pre-emption',
        outside='interleavings that split the resolve operation itself'))
    import itertools
    vr = []
    for k in (1, 2, 3):
        for t in itertools.product(range(8), repeat=k):          # per child: suspends, resumed raw, throws
            if not quick or k < 3 or sum(t) % 4 == 0:
                v = [k - 1]
                for x in t: v += [x & 1, (x >> 1) & 1, (x >> 2) & 1]
                vr.append(v)
    units.append(dict(
        engine='e1', name='reuse_raw', tu='C04raw.cpp', entry='h_reuse_raw', unwind=8, vectors=vr, cbmc_extra=('--max-field-sensitivity-array-size', '300'),
        concrete=[([0, 1, 1, 0], [5]), ([1, 1, 1, 0, 1, 0, 1], [6]), ([2, 0, 0, 0, 1, 1, 0, 1, 0, 1], [7])],
        space='a parent coroutine awaiting K = 1..3 children one after another, all child frames in one reusable_storage; per child: completes synchronously / suspends on a foreign awaitable whose handle is '
              'resumed by a raw handle.resume() from ordinary code (no coroutine queue: a foreign thread or event loop) or through coro_queue, returns / throws' + ('; K = 3: every 4th combination' if quick else '; full product'),
        data='argument value (12 bit): symbolic', bounds='K <= 3 children, one suspension per child',
        outside='resumption from a real second OS thread while the parent runs (the parent is suspended whenever a child is)'))
    return units
