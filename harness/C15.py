"""C15 signal (sequential half) - plan of solver queries.

A skeleton vector is [nops, ev_1 .. ev_nops] (event codes as in C15.cpp).  The harness gives every event a total meaning
(an event that is not applicable is skipped and counted; a non-zero count is reported as a harness/spec mismatch), so the
little model below only selects histories and removes redundant ones.
"""
L1, L2, LINF, C1, C2, CINF, LDEF, EV, ER, EL, DUP_SIG, DUP_COL, DROP_LOW, DROP_HIGH, NOPS = range(15)
MAXL, MAXH, MAXOPS = 3, 3, 8
NAMES = ['coro(1)', 'coro(2)', 'coro(all)', 'cb(1)', 'cb(2)', 'cb(all)', 'coro-on-default-emitter', 'emit-args', 'emit-rvalue', 'emit-lvalue',
         'dup-signal', 'dup-collector', 'drop-oldest', 'drop-newest']


class Model:
    def __init__(m):
        m.h = [1, 0, 0]
        m.listeners = []         # [waiting, quota, n]
        m.nem = 0

    def live(m):
        return sum(1 for x in m.h if x)

    def apply(m, op):
        if op <= LDEF:
            if len(m.listeners) >= MAXL: return False
            coro = op <= LINF or op == LDEF
            quota = 1 if op in (L1, C1, LDEF) else 2 if op in (L2, C2) else 99
            if not coro and not m.live(): return False
            waiting = bool(m.live()) and op != LDEF
            m.listeners.append([waiting, quota, 0])
            return True
        if op <= EL:
            if not m.live(): return False
            m.nem += 1
            for l in m.listeners:
                if l[0]:
                    l[2] += 1
                    if l[2] >= l[1]: l[0] = False
            return True
        if op <= DUP_COL:
            if not m.live() or m.live() >= MAXH: return False
            m.h[m.h.index(0)] = 1 if op == DUP_SIG else 2
            return True
        if not m.live(): return False
        if m.live() == 1 and op == DROP_HIGH: return False          # same as DROP_LOW
        idx = [i for i, x in enumerate(m.h) if x]
        m.h[idx[0] if op == DROP_LOW else idx[-1]] = 0
        if not m.live():
            for l in m.listeners: l[0] = False
        return True


def replay(ops):
    m = Model()
    for op in ops:
        if not m.apply(op): return None
    return m


def histories(alphabet, maxlen, minlen=1, need=lambda h: True):
    out = []

    def rec(prefix):
        if len(prefix) >= minlen and need(prefix): out.append(list(prefix))
        if len(prefix) == maxlen: return
        for op in alphabet:
            if replay(prefix + [op]) is not None: rec(prefix + [op])
    rec([])
    return out


def rotate_kinds(h, r):
    """the k-th emission of a history uses collector flavour (r + k) mod 3"""
    out = []; k = 0
    for op in h:
        if EV <= op <= EL:
            out.append(EV + (r + k) % 3); k += 1
        else:
            out.append(op)
    return out


def vec(ops):
    assert len(ops) <= MAXOPS
    return [len(ops)] + list(ops)


def interesting(h):
    # a history must contain a listener that can observe something
    return any(op <= LDEF for op in h)


FIXED = [
    # three listeners of every kind, several emissions of every flavour, re-await in between
    [LINF, CINF, L2, EV, ER, EL, DROP_LOW],
    [L1, C1, LINF, EL, EV, ER],
    [C2, L2, C1, ER, EL, EV, EV],
    [LINF, EV, L2, ER, C2, EL, EV, ER],
    [CINF, EL, CINF, EL, LINF, EL, EL],
    # handles: copies keep the state alive; only the last one going away cancels
    [LINF, CINF, DUP_COL, DROP_LOW, EV, DUP_SIG, DROP_LOW, ER],
    [L2, DUP_SIG, DUP_COL, DROP_HIGH, EL, DROP_LOW, EV, DROP_LOW],
    [C2, LINF, DUP_COL, DROP_LOW, ER, DROP_LOW, L1],
    [LINF, L2, DUP_COL, DUP_COL, DROP_LOW, DROP_LOW, EV, DROP_LOW],
    # awaiting a dead / never connected emitter
    [DROP_LOW, L1, LINF, LDEF],
    [LDEF, LINF, EV, DROP_LOW, L2],
    [L1, EV, DROP_LOW, L1, LDEF],
]

CONCRETE_INT = [(vec([LINF, CINF, L2, EV, ER, EL, DROP_LOW]), [5, 6, 7]), (vec([C2, LINF, DUP_COL, DROP_LOW, ER, DROP_LOW, L1]), [9]),
                (vec([LDEF, LINF, EV, DROP_LOW, L2]), [3]), (vec([L1, C1, LINF, EL, EV, ER]), [1, 2, 3])]
CONCRETE_VOID = [(vec([LINF, CINF, L2, EV, ER, EL, DROP_LOW]), []), (vec([L1, EV, DROP_LOW, L1, LDEF]), [])]

EXTRA = []
ALPHA = ('{a coroutine starts awaiting an emitter and re-awaits until it has 1 / 2 / all values, connect() a callback that returns false on '
         'its 1st / 2nd call / never, a coroutine awaits a default-constructed emitter, collector call with constructor arguments / an rvalue / '
         'an lvalue, copy a handle as signal / as collector, destroy the oldest / newest handle}')


def unit(name, entry, vectors, space, **kw):
    d = dict(engine='e1', name=name, tu='C15.cpp', entry=entry, unwind=12, timeout=300, vectors=vectors, concrete=[], cbmc_extra=EXTRA,
             space=space, data='every emitted value: unconstrained 32-bit int (symbolic); signal<void>: no data',
             bounds='<= %d events, <= %d listeners, <= %d strong handles; every history ends with all handles destroyed' % (MAXOPS, MAXL, MAXH),
             outside='listeners subscribing on another thread than the collector (E2 half of the property); a collector call made from inside a '
                     'listener (re-entrancy); hook_up(); destroying a coroutine while it waits (the library has no unsubscribe); longer histories')
    d.update(kw)
    return d


def plan(tier):
    quick = tier == 'quick'
    # enumeration alphabet: quotas 1 and "all" (quota 2 is in the fixed histories), one emission event whose flavour rotates
    A = [L1, LINF, C1, CINF, LDEF, EV, DUP_COL, DROP_LOW] if quick else [L1, LINF, C1, CINF, LDEF, EV, DUP_SIG, DUP_COL, DROP_LOW, DROP_HIGH]
    maxlen = 3 if quick else 4
    hs = histories(A, maxlen, maxlen if quick else 1, interesting)
    vs = []
    for i, h in enumerate(hs):
        for r in ((i % 3,) if quick else (0, 1, 2) if len(h) < 4 else (i % 3, (i + 1) % 3)):
            v = vec(rotate_kinds(h, r))
            if v not in vs: vs.append(v)
    fx = [vec(h) for h in FIXED]
    for h in FIXED:
        assert replay(h) is not None, [NAMES[o] for o in h]
    units = [
        unit('hist_int', 'h_sig_int', vs, 'signal<int>: every history of %s events over %s containing at least one listener (inapplicable events '
             'dropped; the k-th collector call of a history uses flavour (r+k) mod 3, %s)' %
             ('exactly 3' if quick else '1..4', ALPHA, 'one r per history' if quick else 'r = 0, 1, 2 for histories of <= 3 events, two of the three values for 4 events'), concrete=CONCRETE_INT[:2]),
        unit('fixed_int', 'h_sig_int', fx, 'signal<int>: %d hand-written histories of 4..8 events (three listeners of mixed kinds and quotas, all '
             'three call flavours, handle copies of both kinds dropped in both orders, dead and default emitters)' % len(FIXED), concrete=CONCRETE_INT[2:]),
        unit('fixed_void', 'h_sig_void', fx, 'signal<void>: the same hand-written histories (call flavours: no argument / bool rvalue / bool lvalue)',
             concrete=CONCRETE_VOID),
    ]
    # every sequence of call flavours (the collector keeps the value by reference or as an owned copy depending on the flavour of the call and of the calls before it)
    import itertools as _it
    ek = [vec([LINF, CINF] + list(t)) for n in ((3,) if quick else (2, 3, 4)) for t in _it.product((EV, ER, EL), repeat=n)]
    ek += [vec([L2, C2] + list(t) + [DROP_LOW]) for t in _it.product((ER, EL), repeat=2)]
    units.append(unit('emit_kinds', 'h_sig_int', ek, 'signal<int>: a re-awaiting coroutine and a connected callback, then every sequence of %s collector calls over the three flavours '
                      '(constructor arguments / rvalue / lvalue)' % ('3' if quick else '2..4'), concrete=[(vec([LINF, CINF, ER, EL, ER]), [4, 5, 6])]))
    K = 14
    vc = [[pr, pre, k] for pr in range(7) for pre in range(3) for k in range(K)]
    units.append(dict(engine='e1', name='sig_mt', tu='C15conc.cpp', entry='h_sig_conc', unwind=6, timeout=300, vectors=vc, cbmc_extra=EXTRA,
                      concrete=[([pr, pre, k], [11, 22]) for pr in range(7) for pre, k in ((0, 0), (1, 2), (2, 5), (2, 13))],
                      space='two threads on one signal<int>, interleaved at atomic-instruction granularity: [pair (collector call || coroutine subscribes, collector call || connect(callback), '
                            'coroutine subscribes || collector call, connect || collector call, last handle destroyed || coroutine subscribes, coroutine subscribes || last handle destroyed, '
                            'coroutine subscribes || connect), listeners already waiting (none / a coroutine / a coroutine and a callback), k = position of the atomic instruction of the first operation '
                            'in front of which the second thread\'s complete operation lands (1..%d; beyond the last one: after it)]; then a second emission and the destruction of all handles; full product' % K,
                      data='both emitted values: unconstrained, distinct 32-bit ints (symbolic)',
                      bounds='two concurrent operations, one preemption: the second operation runs as a whole inside a window of the first',
                      outside='interleavings that split both operations; two collector calls at the same time (documented as not MT-safe); more than two threads'))
    if not quick:
        hv = histories([LINF, C1, CINF, LDEF, EV, DUP_COL, DROP_LOW], 3, 1, interesting)
        units.append(unit('hist_void', 'h_sig_void', [vec(rotate_kinds(h, i % 3)) for i, h in enumerate(hv)],
                          'signal<void>: every history of 1..3 events over a reduced alphabet', concrete=[]))
    return units


if __name__ == '__main__':
    for t in ('quick', 'thorough'):
        us = plan(t)
        print(t, [(u['name'], len(u['vectors'])) for u in us], sum(len(u['vectors']) for u in us))
