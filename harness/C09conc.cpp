// C09 (producers and consumers on different threads, interleaved at lock-region granularity).
// After a short sequential prefix, operation A runs with another thread's operation B injected in front of A's k-th mutex
// acquisition (k beyond A's last acquisition: B after A). The oracle states the property at quiescence and after draining.
#include "vf_cocls.h"
#include <cocls/queue.h>
using namespace cocls;

namespace {
constexpr int CMAX = 10;
struct Conc {
    queue<int> *q;
    int pushed[CMAX]; int push_time[CMAX]; int npush = 0;
    future<int> pops[CMAX]; int pop_time[CMAX]; int npop = 0;
    int unblocked = 0;
    int clock = 0;
};
Conc *cc; int bkind, bval, bstamp;

void op(int kind, int v, int stamp) {
    Conc &c = *cc;
    if (kind == 0) { c.pushed[c.npush] = v; c.push_time[c.npush] = stamp; c.npush++; c.q->push(v); }
    else if (kind == 1) { int i = c.npop; c.pop_time[i] = stamp; c.npop++; c.pops[i] << [&] { return c.q->pop(); }; }
    else { bool r = c.q->unblock_pop(vf_make_exc(7)); if (r) c.unblocked++; }
}
void injected() { op(bkind, bval, bstamp); }

void quiescent() {
    Conc &c = *cc;
    int pend = 0;
    for (int i = 0; i < c.npop; i++) if (c.pops[i].pending()) pend++;
    if (pend) VF_ASSERT(c.q->size() == 0, "C09 a pop stays pending although an item is waiting (lost hand-over)");
}
}

extern "C" void h_q_conc() {
    vf_warmup();
    const int nprefix = vf_choice(3);
    long base = vf_live_allocs();
    {
        Conc c; cc = &c;
        int vals[CMAX];
        for (int i = 0; i < CMAX; i++) vals[i] = nondet_int();
        for (int i = 0; i < CMAX; i++) for (int j = i + 1; j < CMAX; j++) VF_ASSUME(vals[i] != vals[j]);
        int nv = 0;
        {
            queue<int> q; c.q = &q;
            for (int i = 0; i < nprefix; i++) op(vf_choice(2), vals[nv++], ++c.clock);
            quiescent();
            const int akind = vf_choice(3);
            bkind = vf_choice(3);
            const int k = 1 + vf_choice(3);
            bstamp = ++c.clock; bval = vals[nv++];
            vf_inject_arm(&injected, k);
            op(akind, vals[nv++], bstamp);
            if (vf_inject_pending()) { vf_inject_disarm(); injected(); }
            quiescent();
            // drain: every pending pop gets an item, every waiting item gets a pop
            int served = c.npop - c.unblocked;
            while (served < c.npush && c.npop < CMAX) { op(1, 0, ++c.clock); served++; }
            while (c.npush < c.npop - c.unblocked && c.npush < CMAX) op(0, vals[nv++], ++c.clock);
            quiescent();
            int pos[CMAX]; int exc = 0;
            for (int i = 0; i < c.npush; i++) pos[i] = -1;
            for (int i = 0; i < c.npop; i++) {
                VF_ASSERT(c.pops[i].ready(), "C09 a pop never completes although every pop was matched with a push (lost item)");
                int tag = vf_exc_tag([&] { (void)c.pops[i].value(); });
                if (tag == 7) { exc++; continue; }
                VF_ASSERT(tag == -1, "C09 a pop completed without a value although nobody unblocked it");
                int v = c.pops[i].value(); int hit = -1;
                for (int j = 0; j < c.npush; j++) if (c.pushed[j] == v) hit = j;
                VF_ASSERT(hit >= 0, "C09 a pop delivered a value that was never pushed");
                VF_ASSERT(pos[hit] < 0, "C09 an item was delivered twice");
                pos[hit] = i;
            }
            VF_ASSERT(exc == c.unblocked, "C09 unblock_pop failed a different number of pops than it reported");
            for (int j = 0; j < c.npush; j++) VF_ASSERT(pos[j] >= 0, "C09 an item was lost");
            for (int i = 0; i < c.npush; i++) for (int j = 0; j < c.npush; j++)
                if (c.push_time[i] < c.push_time[j])
                    // two pops that overlap in time are two consumers: which of them gets the earlier item is not constrained
                    VF_ASSERT(!(c.pop_time[pos[i]] > c.pop_time[pos[j]]), "C09 items were delivered out of push order");
            vf_out(c.npop * 10 + c.unblocked);
        }
    }
    VF_ASSERT(vf_live_allocs() == base, "C09 nothing leaked");
    vf_choice_end();
    vf_witness();
}
