// C15 - signal: every waiting listener gets every value; disconnect wakes all.  (sequential half)
// History harness over <= 3 listeners and <= 3 strong handles (signal / collector objects sharing one state).
// A skeleton vector selects the events; every emitted value is symbolic.  The reference model is, per listener, the
// list of values it must have received so far: an emission appends its value to the list of exactly the listeners
// that are waiting at that moment; a listener waits from the moment it (re-)awaits the emitter / its callback
// returned true, until it has taken its quota of values or the last strong handle is gone.  After every event the
// real logs must equal the model's lists - same length (exactly once), same values, same cancellations.
#include "vf_cocls.h"
#include <cocls/signal.h>
#include <cocls/async.h>
#include <optional>
#include <type_traits>
using namespace cocls;

namespace {
constexpr int MAXL = 3;       // listeners per history
constexpr int MAXH = 3;       // strong handles alive at a time
constexpr int MAXOPS = 8;
constexpr int MAXE = MAXOPS;  // emissions
constexpr int QINF = MAXE + 1;

enum {
    OP_L1 = 0, OP_L2 = 1, OP_LINF = 2,      // a coroutine starts awaiting an emitter; it re-awaits until it has 1 / 2 / all values
    OP_C1 = 3, OP_C2 = 4, OP_CINF = 5,      // connect(): the callback returns false on its 1st / 2nd / never
    OP_LDEF = 6,                            // a coroutine awaits a default-constructed (never connected) emitter
    OP_EV = 7, OP_ER = 8, OP_EL = 9,        // collector call: value constructed from arguments / rvalue / lvalue reference
    OP_DUP_SIG = 10, OP_DUP_COL = 11,       // one more strong handle: a signal / a collector object
    OP_DROP_LOW = 12, OP_DROP_HIGH = 13,    // destroy the oldest / newest strong handle
    NOPS = 14
};

struct Log { int n; int vals[MAXE + 1]; int canceled; int finished; };
struct Exp { int used; int coro; int waiting; int quota; int n; int vals[MAXE + 1]; int canceled; };

template<typename T>
async<void> listener(typename signal<T>::emitter em, Log &log, int quota) {
    for (int k = 0; k < quota; ++k) {
        try {
            if constexpr (std::is_void_v<T>) {
                co_await em;
                log.vals[log.n++] = 1;
            } else {
                int &v = co_await em;
                log.vals[log.n++] = v;
            }
        } catch (const await_canceled_exception &) {
            log.canceled++;
            break;
        }
    }
    log.finished = 1;
}

template<typename T>
struct Hist {
    using Sig = signal<T>;
    using Col = typename Sig::collector;
    using Emi = typename Sig::emitter;
    std::optional<Sig> sg[MAXH];
    std::optional<Col> cl[MAXH];
    int hk[MAXH];                 // 0 free, 1 signal, 2 collector
    Log log[MAXL];
    Exp exp[MAXL];
    int nl = 0;
    int skipped = 0;

    int lowest() const { for (int i = 0; i < MAXH; ++i) if (hk[i]) return i; return -1; }
    int highest() const { for (int i = MAXH - 1; i >= 0; --i) if (hk[i]) return i; return -1; }
    int free_slot() const { for (int i = 0; i < MAXH; ++i) if (!hk[i]) return i; return -1; }

    Sig a_signal(int i) { if (hk[i] == 1) return *sg[i]; return Sig(*cl[i]); }

    void check() {
        for (int i = 0; i < nl; ++i) {
            const Log &l = log[i];
            const Exp &e = exp[i];
            VF_ASSERT(l.n >= e.n, "C15 a listener waiting at an emission receives it (none missed)");
            VF_ASSERT(l.n <= e.n, "C15 a listener receives an emission once, and only while it is waiting");
            for (int k = 0; k < e.n && k < l.n; ++k)
                VF_ASSERT(l.vals[k] == e.vals[k], "C15 the value received is the value passed to the collector");
            VF_ASSERT(l.canceled >= e.canceled, "C15 last handle gone / dead emitter: the awaiting coroutine gets await_canceled_exception");
            VF_ASSERT(l.canceled <= e.canceled, "C15 no cancellation while a strong handle is alive");
            if (e.coro)
                VF_ASSERT((l.finished != 0) == (e.waiting == 0), "C15 a listener coroutine is suspended exactly while it waits for the next emission");
            vf_out(l.n * 100 + l.canceled * 10 + l.finished);
        }
    }

    void drop(int i) {
        if (hk[i] == 1) sg[i].reset(); else cl[i].reset();
        hk[i] = 0;
        if (lowest() < 0) {
            for (int k = 0; k < nl; ++k) {
                Exp &e = exp[k];
                if (e.waiting) { e.waiting = 0; if (e.coro) e.canceled = 1; }
            }
        }
    }

    void step(int op) {
        const int h = lowest();
        if (op <= OP_LDEF) {
            if (nl >= MAXL) { ++skipped; return; }
            const bool coro = op <= OP_LINF || op == OP_LDEF;
            const int quota = (op == OP_L1 || op == OP_C1 || op == OP_LDEF) ? 1 : (op == OP_L2 || op == OP_C2) ? 2 : QINF;
            if (!coro && h < 0) { ++skipped; return; }            // connect() needs a signal object
            const int id = nl++;
            Log &l = log[id];
            Exp &e = exp[id];
            l = Log{};
            e = Exp{};
            e.used = 1; e.coro = coro; e.quota = quota;
            if (coro) {
                if (op == OP_LDEF) {
                    listener<T>(Emi(), l, quota).detach();
                    e.canceled = 1;
                } else if (h < 0) {
                    listener<T>(dead, l, quota).detach();          // emitter of a state whose last strong handle is gone
                    e.canceled = 1;
                } else {
                    listener<T>(a_signal(h).get_emitter(), l, quota).detach();
                    e.waiting = 1;
                }
            } else {
                Log *lp = &l;
                Sig s = a_signal(h);
                if constexpr (std::is_void_v<T>)
                    s.connect([lp, quota]() -> bool { lp->vals[lp->n++] = 1; return lp->n < quota; });
                else
                    s.connect([lp, quota](int &v) -> bool { lp->vals[lp->n++] = v; return lp->n < quota; });
                e.waiting = 1;
            }
        } else if (op <= OP_EL) {
            if (h < 0) { ++skipped; return; }
            int v = nondet_int();
            if constexpr (std::is_void_v<T>) v = 1;
            for (int k = 0; k < nl; ++k) {
                Exp &e = exp[k];
                if (e.waiting) { e.vals[e.n++] = v; if (e.n >= e.quota) e.waiting = 0; }
            }
            Col c = hk[h] == 1 ? sg[h]->get_collector() : *cl[h];
            if constexpr (std::is_void_v<T>) {
                if (op == OP_EV) c();
                else if (op == OP_ER) c(true);
                else { bool b = true; c(b); }
            } else {
                if (op == OP_EV) { const int cv = v; c(cv); }
                else if (op == OP_ER) c(int(v));
                else { int lv = v; c(lv); }
            }
        } else if (op <= OP_DUP_COL) {
            const int j = free_slot();
            if (h < 0 || j < 0) { ++skipped; return; }
            if (op == OP_DUP_SIG) { sg[j].emplace(a_signal(h)); hk[j] = 1; }
            else { if (hk[h] == 1) cl[j].emplace(sg[h]->get_collector()); else cl[j].emplace(*cl[h]); hk[j] = 2; }
        } else {
            if (h < 0) { ++skipped; return; }
            drop(op == OP_DROP_LOW ? h : highest());
        }
    }

    Emi dead;

    void run() {
        for (int i = 0; i < MAXH; ++i) hk[i] = 0;
        sg[0].emplace();
        hk[0] = 1;
        dead = sg[0]->get_emitter();
        const int nops = vf_choice(MAXOPS + 1);
        for (int s = 0; s < nops; ++s) {
            step(vf_choice(NOPS));
            check();
        }
        while (lowest() >= 0) drop(lowest());
        check();
        for (int k = 0; k < nl; ++k)
            VF_ASSERT(!exp[k].coro || log[k].finished, "C15 nobody waits forever once the last handle is gone");
        vf_out(skipped);
    }
};

template<typename T> void entry() {
    vf_warmup();
    long base = vf_live_allocs();
    int skipped;
    {
        Hist<T> h;
        h.run();
        skipped = h.skipped;
    }
    VF_ASSERT(vf_live_allocs() == base, "C15 callback awaiters, coroutine frames and the shared state are all released (allocation balance)");
    VF_ASSERT(skipped == 0, "VF_SPEC an event of the history was not applicable where the plan (C15.py) placed it");
    vf_choice_end();
    vf_witness();
}
}

extern "C" void h_sig_int() { entry<int>(); }
extern "C" void h_sig_void() { entry<void>(); }
