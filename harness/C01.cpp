// C01 / C02 / C03(a) - one future, several threads: competing resolvers and waiters of every kind (E2 scenarios).
// Parameters: NT = number of threads (2..3); Ti_KIND for thread i:
//   resolvers: 0 set_value(v_i) | 1 set_value(drop) | 2 set_exception(e_i) | 3 destruction of the promise (moved into a local that dies)
//   waiters:   10 callback awaiter (co_awaiter::subscribe) | 11 blocking future::wait()/sync() | 12 coroutine protocol
//              (await_ready / await_suspend(fn,ctx) / await_resume) | 13 has_value() (blocking conversion to bool) | 14 poller (ready() then read twice)
// vf_check finally destroys the promise (resolving an unresolved future to no-value) and compares the outcome with the winner.
#include "vf2.h"
#include <cocls/future.h>
#include <atomic>
#include <exception>
using namespace cocls;

#ifndef NT
#define NT 2
#endif
#ifndef T1_KIND
#define T1_KIND 0
#endif
#ifndef T2_KIND
#define T2_KIND 0
#endif
#ifndef T3_KIND
#define T3_KIND 0
#endif
#define INL __attribute__((always_inline)) inline

// observation only: the protected state of the future is read through a subclass, nothing is added or changed
struct F : future<int> {
    using future<int>::_state; using future<int>::_value; using future<int>::_exception;
    int st() const { return (int)_state; }
};
struct tag_exc { int tag; };

static F fut;
static promise<int> prom;
static int val[4];
static std::exception_ptr exc[4];

struct Res { int called, won; };
static Res res[4];
struct Wt { int subscribed, not_subscribed, resumed, ok, seen_state, seen_val; };
static Wt wt[4];

static INL int payload_matches_winner(int state, int value) {
    // exactly one winner w: the future must carry exactly w's payload
    int n = 0, ok = 0;
    for (int i = 1; i <= NT; i++) if (res[i].won) {
        n++;
        int k = i == 1 ? T1_KIND : i == 2 ? T2_KIND : T3_KIND;
        if (k == 0) ok = (state == (int)future_common::State::value && value == val[i]);
        else if (k == 2) ok = (state == (int)future_common::State::exception);
        else ok = (state == (int)future_common::State::not_value);
    }
    return n == 0 ? (state == (int)future_common::State::not_value) : (n == 1 && ok);
}

struct CbAwt : awaiter {
    int me;
    static suspend_point<void> fn(awaiter *a, void *) noexcept {
        CbAwt *self = static_cast<CbAwt *>(a);
        wt[self->me].resumed++;
        // released only after the result is set, and it sees the complete result
        wt[self->me].seen_state = fut.st();
        wt[self->me].seen_val = fut.st() == (int)future_common::State::value ? fut._value : 0;
        wt[self->me].ok = fut.ready();
        return {};
    }
    CbAwt() { set_resume_fn(&fn); }
};
static CbAwt cb[4];

struct CoroSim {
    co_awaiter<future<int>> aw;
    int me;
    CoroSim(int m) : aw(fut), me(m) {}
    static suspend_point<void> resume_cb(awaiter *, void *ctx) noexcept {
        CoroSim *self = static_cast<CoroSim *>(ctx);
        wt[self->me].resumed++;
        self->body();
        return {};
    }
    void body() {
        wt[me].ok = fut.ready();
        wt[me].seen_state = fut.st();
        wt[me].seen_val = fut.st() == (int)future_common::State::value ? fut._value : 0;
        this->~CoroSim(); ::operator delete(this);        // the frame dies when the coroutine finishes
    }
    void start() {
        int m = me;
        if (aw.await_ready()) { wt[m].not_subscribed++; body(); return; }
        if (aw.await_suspend(&CoroSim::resume_cb, this)) { wt[m].subscribed++; return; }   // *this may be gone here
        wt[m].not_subscribed++;
        body();
    }
};

template<int KIND> static INL void actor(int me) {
    if (KIND == 0) { res[me].called = 1; bool r = prom.set_value(val[me]); res[me].won = r; }
    else if (KIND == 1) { res[me].called = 1; bool r = prom.set_value(drop); res[me].won = r; }
    else if (KIND == 2) { res[me].called = 1; bool r = prom.set_exception(exc[me]); res[me].won = r; }
    else if (KIND == 3) { res[me].called = 1; { promise<int> q(std::move(prom)); res[me].won = !!q; } }
    else if (KIND == 10) {
        cb[me].me = me;
        if (co_awaiter<future<int>>(fut).subscribe(&cb[me])) wt[me].subscribed++; else wt[me].not_subscribed++;
    } else if (KIND == 11) {
        fut.sync();
        wt[me].resumed++; wt[me].subscribed++;
        wt[me].ok = fut.ready();
        wt[me].seen_state = fut.st();
        wt[me].seen_val = fut.st() == (int)future_common::State::value ? fut._value : 0;
    } else if (KIND == 12) {
        auto *c = new CoroSim(me);
        c->start();
    } else if (KIND == 13) {
        bool hv = fut.has_value();
        wt[me].resumed++; wt[me].subscribed++;
        wt[me].ok = fut.ready() && hv == (fut.st() != (int)future_common::State::not_value);
        wt[me].seen_state = fut.st();
        wt[me].seen_val = fut.st() == (int)future_common::State::value ? fut._value : 0;
    } else if (KIND == 14) {
        if (fut.ready()) {
            int s1 = fut.st(); int v1 = s1 == (int)future_common::State::value ? fut._value : 0;
            int s2 = fut.st(); int v2 = s2 == (int)future_common::State::value ? fut._value : 0;
            vf_assert(s1 == s2 && v1 == v2, "C01 the result of a resolved future changed afterwards");
            wt[me].resumed++; wt[me].subscribed++; wt[me].ok = 1; wt[me].seen_state = s1; wt[me].seen_val = v1;
        }
    }
}

extern "C" void vf_setup() {
    prom = fut.get_promise();
    for (int i = 1; i <= NT; i++) { val[i] = nondet_int(); }
    __CPROVER_assume(val[1] != val[2] && val[1] != 0 && val[2] != 0);
#if NT >= 3
    __CPROVER_assume(val[1] != val[3] && val[2] != val[3] && val[3] != 0);
#endif
#if T1_KIND == 2 || T2_KIND == 2 || T3_KIND == 2
    for (int i = 1; i <= NT; i++) exc[i] = std::make_exception_ptr(tag_exc{i});
#endif
}
extern "C" void vf_thread_1() { actor<T1_KIND>(1); }
extern "C" void vf_thread_2() { actor<T2_KIND>(2); }
#if NT >= 3
extern "C" void vf_thread_3() { actor<T3_KIND>(3); }
#endif

extern "C" void vf_check() {
    // the promise is finally destroyed: an unresolved future becomes no-value instead of hanging its waiters
    { promise<int> last(std::move(prom)); }
    vf_assert(fut.ready(), "C01 the future is not resolved after its promise was destroyed");
    int winners = 0;
    for (int i = 1; i <= NT; i++) winners += res[i].won;
    vf_assert(winners <= 1, "C01 more than one resolver reported success");
    vf_assert(payload_matches_winner(fut.st(), fut.st() == (int)future_common::State::value ? fut._value : 0),
              "C01 the future does not carry exactly the winner's payload");
    bool hv = fut.has_value();
    vf_assert(hv == (fut.st() != (int)future_common::State::not_value), "C01 has_value() disagrees with the outcome");
    for (int i = 1; i <= NT; i++) {
        int k = i == 1 ? T1_KIND : i == 2 ? T2_KIND : T3_KIND;
        if (k < 10) continue;
        vf_assert(wt[i].resumed <= 1, "C02 a waiter was released more than once");
        if (k != 14) vf_assert(wt[i].resumed == 1 || wt[i].not_subscribed == 1, "C02 a waiter stays suspended although the future is resolved (lost wake-up)");
        vf_assert(!(wt[i].not_subscribed && wt[i].resumed), "C02 a waiter that was told 'already resolved' was released as well");
        if (wt[i].resumed) {
            vf_assert(wt[i].ok, "C02 a waiter was released before the result was set");
            vf_assert(wt[i].seen_state == fut.st() && (fut.st() != (int)future_common::State::value || wt[i].seen_val == fut._value),
                      "C02 a released waiter did not observe the complete, final result");
        }
    }
    vf_reach("C01 check reached");
}
