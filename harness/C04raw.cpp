// C04 (completion after suspension on a foreign awaitable, frames in a reusable storage).
// A parent coroutine awaits K children one after another; every child's frame lives in ONE reusable_storage (the loop documented in the README), and a
// child may suspend on an awaitable that is not part of the library: its handle is later resumed
//   raw  - by a plain handle.resume() from ordinary code (what a foreign event loop or another thread without a coroutine queue does), or
//   lib  - through coro_queue (what every cocls primitive does).
// The mechanism under test is final_awaiter's order "resolve the bound party, destroy the frame, transfer to the awaiter": the awaiter builds the next
// child in the same storage, so the finished frame must be gone before the awaiter runs.
// Oracle: body once per child, result reaches the parent, every child's argument and local destroyed exactly once and before the next child exists, the bound
// future carries the sum, allocation balance; memory-safety obligations of the runtime model (a frame destroyed twice / resumed after destruction).
#include "vf_cocls.h"
#include <cocls/async.h>
#include <cocls/future.h>
#include <cocls/coro_storage.h>
#include <cocls/with_allocator.h>
using namespace cocls;

namespace {
constexpr int MAXK = 3;
struct Ctx {
    int k = 0; int susp[MAXK]; int raw[MAXK]; int throws[MAXK];
    int runs[MAXK] = {0, 0, 0}, done[MAXK] = {0, 0, 0};
    vf_probe_counts pc_arg[MAXK], pc_local[MAXK];
    std::coroutine_handle<> h = nullptr;
    int parent_done = 0;
};
struct ForeignAwt {
    Ctx *cx;
    bool await_ready() const noexcept { return false; }
    void await_suspend(std::coroutine_handle<> hh) noexcept { cx->h = hh; }
    int await_resume() const noexcept { return 3; }
};
with_allocator<reusable_storage, async<int> > child(reusable_storage &, Ctx *cx, vf_probe arg, int i, int v) {
    cx->runs[i]++;
    vf_probe local(cx->pc_local[i], v);
    int r = arg.v + local.v;
    if (cx->susp[i]) r += co_await ForeignAwt{cx};
    cx->done[i]++;
    if (cx->throws[i]) throw vf_tag_exc{r};
    co_return r;
}
async<int> parent(Ctx *cx, int v) {
    reusable_storage st;
    int sum = 0;
    for (int i = 0; i < cx->k; i++) {
        for (int j = 0; j < i; j++)
            VF_ASSERT(cx->pc_arg[j].constructed == cx->pc_arg[j].destroyed && cx->pc_local[j].constructed == cx->pc_local[j].destroyed,
                      "C04 the frame of a finished coroutine (arguments, locals) is destroyed before its awaiter goes on (the awaiter reuses the frame storage)");
        try { sum += co_await child(st, cx, vf_probe(cx->pc_arg[i], 1), i, v + i); }
        catch (const vf_tag_exc &e) { sum += 1000 + e.tag; }
    }
    cx->parent_done++;
    co_return sum;
}
}

extern "C" void h_reuse_raw() {
    vf_warmup();
    Ctx cx;
    cx.k = 1 + vf_choice(MAXK);
    for (int i = 0; i < cx.k; i++) { cx.susp[i] = vf_choice(2); cx.raw[i] = vf_choice(2); cx.throws[i] = vf_choice(2); }
    const int v = nondet_int() & 0xfff;
    long base = vf_live_allocs();
    {
        future<int> f = parent(&cx, v).start();
        for (int step = 0; step < MAXK; step++) {
            if (!cx.h) break;
            auto h = cx.h; cx.h = nullptr;
            int i = 0; while (i < cx.k && !(cx.runs[i] == 1 && cx.done[i] == 0)) i++;
            if (cx.raw[i]) h.resume();                                   // a foreign thread / event loop: no coroutine queue is active
            else coro_queue::install_queue_and_resume(h);                // the way the library's own primitives resume
        }
        VF_ASSERT(!cx.h && cx.parent_done == 1, "C04 the awaiting coroutine continues when the awaited one has finished");
        VF_ASSERT(f.ready(), "C04 the bound future is resolved when the coroutine has finished");
        int expect = 0;
        for (int i = 0; i < cx.k; i++) { int r = 1 + v + i + (cx.susp[i] ? 3 : 0); expect += cx.throws[i] ? 1000 + r : r; }
        VF_ASSERT(f.value() == expect, "C04 every child's value or exception reaches exactly the coroutine that awaits it");
        vf_out(f.value() & 0xffff);
    }
    for (int i = 0; i < cx.k; i++) {
        VF_ASSERT(cx.runs[i] == 1 && cx.done[i] == 1, "C04 the body of a started coroutine runs exactly once");
        VF_ASSERT(cx.pc_arg[i].constructed == cx.pc_arg[i].destroyed && cx.pc_local[i].constructed == cx.pc_local[i].destroyed, "C04 arguments and locals are destroyed exactly once");
    }
    VF_ASSERT(vf_live_allocs() == base, "C04 the frames and the storage block are released (allocation balance)");
    vf_choice_end();
    vf_witness();
}
