// C17 - shared_future: one result for all copies; the shared state lives exactly as long as needed (sequential half).
// History harness. Skeleton: how the shared_future is constructed, how it gets resolved, and a history over
// {copy a handle, drop a handle, await (callback awaiter keeping / dropping its handle, coroutine awaiter), resolve}.
// Data: the resolved value / exception tag (symbolic). A small reference model (resolved?, number of handles,
// awaiters) predicts after every step: ready() and value() of every live handle, the resume count and result of every
// awaiter, the number of live stored values (counted type) and the number of live heap blocks (the state must be
// alive while pending or referenced and freed otherwise).
// Constructor kinds: promise-taking function (promise kept / resolved inside), future-returning function (resolved /
// pending / throwing / future produced by a coroutine), and default-construct + get_promise() (late initialisation, the
// path of DESIGN.md section 6 D8; it lives in its own unit so that a failure there touches no other unit).
#include "vf_cocls.h"
#include <cocls/shared_future.h>
#include <cocls/async.h>
#include <optional>
using namespace cocls;

namespace {
constexpr int MAXH = 6;      // plain handles
constexpr int MAXA = 6;      // awaiters
constexpr int MAXOPS = 8;

// counted value type: exactly-once construction / destruction of the stored value
struct Counts { int ctor = 0, dtor = 0; };
Counts g_cnt;
struct CV {
    int v;
    explicit CV(int x) : v(x) { ++g_cnt.ctor; }
    CV(const CV &o) : v(o.v) { ++g_cnt.ctor; }
    CV(CV &&o) noexcept : v(o.v) { ++g_cnt.ctor; }
    CV &operator=(const CV &) = default;
    ~CV() { ++g_cnt.dtor; }
};
using SF = shared_future<CV>;

enum Got { G_NONE = 0, G_VALUE, G_TAG, G_CANCELED, G_OTHER };
enum RKind { R_VALUE = 0, R_EXC, R_DROP };
enum Ctor { K_PROMISE_PENDING = 0, K_PROMISE_INLINE, K_FUTURE_READY, K_FUTURE_PENDING, K_FUTURE_THROWS, K_FUTURE_CORO, K_LATE, K_LATE_SHARED, K_COUNT };
enum Op { O_COPY = 0, O_DROP, O_AWAIT_KEEP, O_AWAIT_DROP, O_AWAIT_CORO, O_RESOLVE };
enum Mode { M_NONE = 0, M_CB_KEEP, M_CB_DROP, M_CORO };

template<typename Fn> int classify(Fn &&get, int &payload) {
    try { CV &r = get(); payload = r.v; return G_VALUE; }
    catch (const vf_tag_exc &e) { payload = e.tag; return G_TAG; }
    catch (const await_canceled_exception &) { return G_CANCELED; }
    catch (...) { return G_OTHER; }
}

#define NOINLINE [[gnu::noinline]]
// Handle operations live in their own (non-inlined) functions: the shared_ptr release sequence would otherwise be
// inlined at ~30 sites of one huge function, which only costs solver start-up time.
NOINLINE void sf_drop(std::optional<SF> &o) { o.reset(); }
NOINLINE void sf_copy(std::optional<SF> &dst, SF &src) { dst.emplace(src); }

struct AwSlot {
    int mode = M_NONE;
    std::optional<SF> h;                                // the awaiter's own reference (documented requirement)
    std::optional<co_awaiter<future<CV>>> aw;
    int hits = 0, got = G_NONE, payload = 0;

    NOINLINE void finish() {                            // what a resumed awaiter does: pick the result
        got = classify([&]() -> CV & { return aw->await_resume(); }, payload);
        ++hits;
        if (mode == M_CB_DROP) sf_drop(h);              // ... and possibly drop its reference right there
    }
    static suspend_point<void> on_resume(awaiter *, void *ctx) noexcept {
        static_cast<AwSlot *>(ctx)->finish();
        return {};
    }
    NOINLINE void start_cb(SF &src, int m) {            // the co_await protocol, driven by hand
        mode = m;
        sf_copy(h, src);
        aw.emplace(h->operator co_await());
        if (aw->await_ready()) finish();
        else if (!aw->await_suspend(&on_resume, this)) finish();
    }
    ~AwSlot() { sf_drop(h); }
};

struct Ctx;
future<int> producer_input(Ctx *c);
future<CV> producer(Ctx *c) {
    int x = co_await producer_input(c);
    co_return CV(x);
}

async<void> coro_waiter(SF f, AwSlot *s) {
    try { CV &r = co_await f; s->got = G_VALUE; s->payload = r.v; }
    catch (const vf_tag_exc &e) { s->got = G_TAG; s->payload = e.tag; }
    catch (const await_canceled_exception &) { s->got = G_CANCELED; }
    catch (...) { s->got = G_OTHER; }
    ++s->hits;
}

struct Model {
    bool resolved = false;
    int got = G_NONE, payload = 0;     // the single result
    int nplain = 0;
};

struct Ctx {
    int rkind = 0, v = 0;
    long base = 0;
    std::optional<promise<CV>> prom;
    std::optional<promise<int>> iprom;     // K_FUTURE_CORO: what the producing coroutine waits for
    bool producer_frame = false;           // K_FUTURE_CORO: the producer's coroutine frame is alive while pending
    AwSlot aws[MAXA];
    int naw = 0;
    std::optional<SF> plain[MAXH];
    int nplain_slots = 0;
    Model m;

    void resolve_with(promise<CV> &p) {
        if (rkind == R_VALUE) p(v);
        else if (rkind == R_EXC) p.set_exception(vf_make_exc(v));
        // R_DROP: the promise is destroyed unresolved by its owner
    }
    void model_resolve(int how) {
        m.resolved = true;
        m.got = how == R_VALUE ? G_VALUE : how == R_EXC ? G_TAG : G_CANCELED;
        m.payload = how == R_DROP ? 0 : v;
    }
    NOINLINE void construct(int ctor) {
#ifdef VF_CTOR      // one constructor kind per translation unit build (smaller goto binary, see C17.py)
        if (ctor != VF_CTOR) { VF_ASSERT(false, "VF_SPEC constructor kind of the vector does not match this build"); return; }
        switch (VF_CTOR) {
#else
        switch (ctor) {
#endif
        case K_PROMISE_PENDING:
            plain[0].emplace([&](promise<CV> p) { prom.emplace(std::move(p)); });
            break;
        case K_PROMISE_INLINE:
            plain[0].emplace([&](promise<CV> p) { resolve_with(p); });
            model_resolve(rkind);
            break;
        case K_FUTURE_READY:
            plain[0].emplace([&]() -> future<CV> {
                if (rkind == R_VALUE) return future<CV>::set_value(v);
                if (rkind == R_EXC) return future<CV>::set_exception(vf_make_exc(v));
                return future<CV>::set_not_value();
            });
            model_resolve(rkind);
            break;
        case K_FUTURE_PENDING:
            plain[0].emplace([&]() -> future<CV> {
                return [&](promise<CV> p) { prom.emplace(std::move(p)); };
            });
            break;
        case K_FUTURE_THROWS:
            plain[0].emplace([&]() -> future<CV> { throw vf_tag_exc{v}; });
            model_resolve(R_EXC);
            break;
        case K_FUTURE_CORO:     // the future is produced by a coroutine (as in examples/shared_future.cpp)
            plain[0].emplace([&]() -> future<CV> { return producer(this); });
            producer_frame = true;
            break;
        case K_LATE_SHARED: // default-constructed, init_if_needed(), copied, and only then initialised through get_promise() of the copy
            plain[0].emplace();
            plain[0]->init_if_needed();
            sf_copy(plain[1], *plain[0]);
            VF_ASSERT(!plain[1]->ready(), "C17 a shared_future initialised by init_if_needed() is not ready");
            prom.emplace(plain[1]->get_promise());
            nplain_slots = 2; m.nplain = 2;
            return;
        default: // K_LATE: default-constructed, initialised later through get_promise()
            plain[0].emplace();
            VF_ASSERT(!plain[0]->ready(), "C17 a default-constructed shared_future is not ready");
            prom.emplace(plain[0]->get_promise());
            plain[0]->init_if_needed();      // documented: "initializes object if needed, otherwise does nothing"
            break;
        }
        nplain_slots = 1; m.nplain = 1;
    }
    int first_live() { for (int i = 0; i < nplain_slots; ++i) if (plain[i]) return i; return -1; }
    int last_live() { for (int i = nplain_slots - 1; i >= 0; --i) if (plain[i]) return i; return -1; }
    bool can_resolve() { return (bool)prom || (bool)iprom; }
    NOINLINE void do_resolve(int how) {
        if (iprom) {
            if (how == R_VALUE) (*iprom)(v);
            else if (how == R_EXC) iprom->set_exception(vf_make_exc(v));
            iprom.reset();
            producer_frame = false;
        } else {
            if (how != R_DROP) resolve_with(*prom);
            prom.reset();
        }
        model_resolve(how);
    }
    NOINLINE void observe() {
        int holders = m.nplain;
        int frames = producer_frame ? 1 : 0;
        for (int i = 0; i < naw; ++i) {
            AwSlot &s = aws[i];
            bool done = m.resolved;            // every awaiter is resumed exactly when the state is resolved
            VF_ASSERT(s.hits == (done ? 1 : 0), "C17 every awaiter is resumed exactly once, and only after resolution");
            if (done) {
                VF_ASSERT(s.got == m.got, "C17 every awaiter observes the same single result (value / that exception / canceled)");
                if (m.got == G_VALUE || m.got == G_TAG)
                    VF_ASSERT(s.payload == m.payload, "C17 every awaiter observes the same single result (value / that exception / canceled)");
            }
            if (s.mode == M_CB_KEEP) ++holders;
            else if (!done) { ++holders; if (s.mode == M_CORO) ++frames; }
        }
        for (int i = 0; i < nplain_slots; ++i) {
            if (!plain[i]) continue;
            VF_ASSERT(plain[i]->ready() == m.resolved, "C17 every copy reports ready exactly when the shared state is resolved");
            if (m.resolved) {
                int payload = 0;
                int g = classify([&]() -> CV & { return plain[i]->value(); }, payload);
                VF_ASSERT(g == m.got, "C17 all copies observe the same single result");
                if (m.got == G_VALUE || m.got == G_TAG)
                    VF_ASSERT(payload == m.payload, "C17 all copies observe the same single result");
            }
        }
        bool alive = !m.resolved || holders > 0;
        int stored = (alive && m.resolved && m.got == G_VALUE) ? 1 : 0;
        VF_ASSERT(g_cnt.ctor - g_cnt.dtor == stored, "C17 the stored value exists exactly once while the state is alive and is destroyed exactly once with it");
        VF_ASSERT(vf_live_allocs() - base == (alive ? 1 : 0) + frames,
                  "C17 the shared state is one heap block, alive while pending or referenced, freed exactly once afterwards");
        vf_out((m.resolved ? 1 : 0) * 100 + holders * 10 + (alive ? 1 : 0));
    }
    NOINLINE void step(int op) {
        int src = first_live();
        bool valid = (op == O_RESOLVE) ? can_resolve() : (src >= 0);
        if (op == O_COPY && nplain_slots >= MAXH) valid = false;
        if ((op == O_AWAIT_KEEP || op == O_AWAIT_DROP || op == O_AWAIT_CORO) && naw >= MAXA) valid = false;
        if (!valid) {
            VF_ASSERT(false, "VF_SPEC history asks for an operation that is impossible in this state");
            return;
        }
        switch (op) {
        case O_COPY:
            sf_copy(plain[nplain_slots++], *plain[src]);
            ++m.nplain;
            break;
        case O_DROP:
            sf_drop(plain[last_live()]);
            --m.nplain;
            break;
        case O_AWAIT_KEEP:
            aws[naw++].start_cb(*plain[src], M_CB_KEEP);
            break;
        case O_AWAIT_DROP:
            aws[naw++].start_cb(*plain[src], M_CB_DROP);
            break;
        case O_AWAIT_CORO:
            aws[naw].mode = M_CORO;
            coro_waiter(*plain[src], &aws[naw]).detach();
            ++naw;
            break;
        default:
            do_resolve(rkind);
            break;
        }
    }
    ~Ctx() { for (int i = 0; i < MAXH; ++i) sf_drop(plain[i]); }
};

future<int> producer_input(Ctx *c) {
    return [c](promise<int> p) { c->iprom.emplace(std::move(p)); };
}

void run() {
    const int ctor = vf_choice(K_COUNT);
    const int rkind = vf_choice(3);
    const int nops = vf_choice(MAXOPS + 1);
    const int v = nondet_int();        // value, or exception tag
    vf_warmup();
    g_cnt = Counts();
    long base = vf_live_allocs();
    {
        Ctx c;
        c.rkind = rkind; c.v = v; c.base = base;
        c.construct(ctor);
        c.observe();
        for (int step = 0; step < nops; ++step) {
            c.step(vf_choice(6));
            c.observe();
        }
        // ---- wind down: drop every plain handle, then (if still pending) the promise
        for (int i = 0; i < c.nplain_slots; ++i) sf_drop(c.plain[i]);
        c.m.nplain = 0;
        c.observe();
        if (c.can_resolve()) {
            c.do_resolve(R_DROP);
            c.observe();
        }
        for (int i = 0; i < c.naw; ++i) vf_out(c.aws[i].hits * 1000 + c.aws[i].got * 100 + (c.aws[i].payload & 0x3f));
    }
    VF_ASSERT(vf_live_allocs() == base, "C17 nothing leaked (shared state, coroutine frames)");
    VF_ASSERT(g_cnt.ctor == g_cnt.dtor, "C17 stored value constructed and destroyed the same number of times");
    vf_choice_end();
    vf_witness();
}
}

extern "C" void h_sf() { run(); }
