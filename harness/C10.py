from speclib import histories

# op codes: 0 push(v) 1 pop 2 unblock_push 3 unblock_pop
def plan(tier):
    if tier == 'quick':
        limits, maxlen = [1, 2], 4
    else:
        limits, maxlen = [1, 2, 3, 4], 6
    vectors = []
    for L in limits:
        for h in histories(4, maxlen, maxlen if tier == 'quick' else maxlen - 1):
            if tier == 'quick' and L == 2 and sum(h) % 2: continue      # quick, limit 2: every second history of the full length
            vectors.append([L - 1, len(h)] + h)
        if tier == 'quick':
            for h in histories(4, maxlen - 1):
                vectors.append([L - 1, len(h)] + h)
    conc = [([0, 4, 0, 1, 0, 1], [5, 6]), ([1, 4, 0, 0, 1, 1], [7, 8]), ([3, 5, 1, 0, 0, 3, 2], [1, 2]), ([1, 6, 0, 0, 0, 2, 1, 1], [1, 2, 3])]
    cvec = []
    for L in (0, 1):
        for npre in range(0, 3 if tier == 'quick' else 4):
            for pre in histories(2, npre, npre):
                if tier == 'quick' and npre == 2 and pre[0] != pre[1]: continue      # quick: the prefixes that leave the queue in a new state (2 items / 2 waiting pops); mixed ones in the thorough tier
                for a in (0, 1, 2):
                    for b in (0, 1, 2):
                        for k in (0, 1, 2):
                            cvec.append([L, npre] + pre + [a, b, k])
    units = [dict(engine='e1', name='h_lq_conc', tu='C10.cpp', entry='h_lq_conc', unwind=14, vectors=cvec,
                  concrete=[([0, 1, 0, 0, 1, 1], list(range(1, 11))), ([1, 2, 0, 0, 0, 0, 2], list(range(1, 11))), ([0, 0, 1, 0, 0], list(range(1, 11)))],
                  space='limit 1..2 x sequential prefix of <= %d {push, pop} (quick tier: the two-operation prefixes push,push and pop,pop only) x operation A in {push, pop, unblock_push} with operation B in {push, pop, unblock_push} of another thread injected in front of '
                        "A's k-th mutex acquisition (k = 1..3; beyond A's last acquisition = after A), then draining" % (2 if tier == 'quick' else 3),
                  data='all pushed values symbolic and pairwise distinct',
                  bounds='two concurrent operations, interleaved at lock-region granularity (sound for accesses made under the lock: C03 lock discipline)',
                  outside='three or more overlapping operations; pre-emption inside a critical section')]
    return units + [dict(engine='e1', name='h_lq', tu='C10.cpp', entry='h_lq', unwind=10, vectors=vectors, concrete=conc,
                 space='limit in %s x every history over {push(v), pop, unblock_push(e), unblock_pop(e)} of length <= %d%s, then destruction of the queue' % (limits, maxlen, ' (quick tier, limit 2: every second history of length %d)' % maxlen if tier == 'quick' else ''),
                 data='pushed values: unconstrained 32-bit ints (symbolic)',
                 bounds='<= %d operations, limits %s, value type int' % (maxlen, limits),
                 outside='longer histories; limit 0; multi-threaded producers/consumers (lock-region reduction, see C03 lock discipline)')]
