// C18 - callback adapters fire exactly once with the right outcome (sequential half: the awaited future is
// resolved before the registration or later on the same thread).
// Adapters: callback_await / callback_await_alloc, make_promise (heap / storage), discard, call_fn_future_awaiter,
// future_conv (six converter shapes). A skeleton vector selects adapter variant, allocator, outcome and timing;
// values and exception tags are symbolic. Oracle: the completion ran exactly once (never before the outcome
// exists), it saw exactly the operation's value / exception / broken-promise state, converters deliver the
// converted value or the exception of the source or of the converter to the outer future, and the helper block
// (coroutine frame, future_with_cb, discard awaiter) is released exactly once: allocation balance of the global
// heap (double frees and accesses to freed blocks are failures of the runtime model) and a counting storage.
//
// Compiled once per part (-DC18_PART=n): 0 callback_await<int>, 1 callback_await<void>, 2 make_promise / discard /
// call_fn_future_awaiter, 3 future_conv.
#include "vf_cocls.h"
#include <cocls/future.h>
#include <cocls/async.h>
#include <cocls/coro_storage.h>
#include <cocls/callback_awaiter.h>
#include <cocls/future_conv.h>
using namespace cocls;

#define NOINL __attribute__((noinline))

enum { S_NONE = 0, S_VALUE = 1, S_TAG = 2, S_CANCELED = 3, S_OTHER = 4 };
enum { O_VALUE = 0, O_EXC = 1, O_DROP = 2, O_CONV_THROWS = 3 };

struct Rec { int count = 0; int state = S_NONE; long val = 0; };

// what a completed future<T> holds
template<typename T> NOINL void record_future(Rec &r, future<T> &f) {
    try {
        if constexpr (std::is_void_v<T>) { f.value(); r.state = S_VALUE; } else { r.val = f.value(); r.state = S_VALUE; }
    } catch (const vf_tag_exc &e) { r.state = S_TAG; r.val = e.tag; }
    catch (const await_canceled_exception &) { r.state = S_CANCELED; }
    catch (...) { r.state = S_OTHER; }
}

// storage that counts (static bookkeeping because Storage::dealloc is static)
struct counting_storage {
    static inline int allocs = 0, deallocs = 0, mismatched = 0;
    static inline void *block = nullptr;
    static inline std::size_t size = 0;
    alignas(16) char buf[256];
    void *alloc(std::size_t sz) {
        VF_ASSERT(sz <= sizeof(buf), "VF_SPEC counting storage too small");
        ++allocs; block = buf; size = sz;
        return buf;
    }
    static void dealloc(void *p, std::size_t) { ++deallocs; if (p != block) ++mismatched; }
};

int g_mode;
template<class F> NOINL void call_once(F &f) { f(); }
// run an operation from a plain thread or with an active coroutine queue (as inside a coroutine); the queue is flushed on return
template<class F> void in_mode(F &&f) {
    if (g_mode) coro_queue::install_queue_and_call([&] { call_once(f); }); else call_once(f);
}

// expected record for an outcome
inline void expect(const Rec &r, int outcome, long v, long tag) {
    if (outcome == O_VALUE) VF_ASSERT(r.state == S_VALUE && r.val == v, "C18 the completion receives exactly the operation's value");
    else if (outcome == O_EXC) VF_ASSERT(r.state == S_TAG && r.val == tag, "C18 the completion receives exactly the operation's exception");
    else VF_ASSERT(r.state == S_CANCELED, "C18 the completion receives the broken-promise state");
}

template<typename T> NOINL void resolve(promise<T> &p, int outcome, int v, std::exception_ptr &e) {
    if (outcome == O_VALUE) { if constexpr (std::is_void_v<T>) p(); else p(v); }
    else if (outcome == O_EXC) p(e);
    else p(drop);
}
template<typename T> future<T> resolved(int outcome, int v, std::exception_ptr &e) {
    if (outcome == O_VALUE) { if constexpr (std::is_void_v<T>) return future<T>::set_value(); else return future<T>::set_value(v); }
    if (outcome == O_EXC) return future<T>::set_exception(e);
    return future<T>::set_not_value();
}

#if C18_PART <= 1
// ================================================================= callback_await / callback_await_alloc
#if C18_PART == 0
using T = int;
#else
using T = void;
#endif

template<typename U> long result_of(await_result<U> &res) {      // rethrows the operation's exception / broken-promise state
    if constexpr (std::is_void_v<U>) { res.get(); return 0; } else return *res;
}
struct CbFn {
    Rec *r;
    void operator()(await_result<T> res) {
        ++r->count;
        try { r->val = result_of(res); r->state = S_VALUE; } catch (const vf_tag_exc &e) { r->state = S_TAG; r->val = e.tag; }
        catch (const await_canceled_exception &) { r->state = S_CANCELED; }
        catch (...) { r->state = S_OTHER; }
    }
};

struct Factory {        // what the repository's own test passes: a function that starts the operation and returns its future
    promise<T> *p; int timing, outcome, v; std::exception_ptr *e;
    future<T> operator()() {
        if (timing == 0) return resolved<T>(outcome, v, *e);
        return future<T>([&](promise<T> pr) { *p = std::move(pr); });
    }
};

alignas(16) char g_stack[256];

extern "C" void h_cbawait() {
    g_mode = vf_choice(2);
    const int shape = vf_choice(2);      // 0 await an existing future (Awt = future<T>&), 1 Awt = future<T> built from a future-returning function
    const int alloc = vf_choice(5);      // 0 default heap frame, 1 stack_storage (fits), 2 stack_storage (too small: heap fallback), 3 reusable_storage, 4 counting storage
    const int timing = vf_choice(2);     // 0 resolved before the registration, 1 resolved afterwards on the same thread
    const int outcome = vf_choice(3);    // value, exception, drop
    const int v = nondet_int();
    const int tag = nondet_uchar();
    std::exception_ptr exc = vf_make_exc(tag);
    vf_warmup();
    const long base = vf_live_allocs();
    Rec rec;
    {
        promise<T> p;
        future<T> f;
        if (shape == 0) {
            if (timing == 0) f << [&] { return resolved<T>(outcome, v, exc); };
            else p = f.get_promise();
        }
        std::size_t state = alloc == 1 ? sizeof(g_stack) : 0;
        stack_storage st(state);
        st = static_cast<void *>(g_stack);
        counting_storage cs;
        {
            reusable_storage rs;
            in_mode([&] {
                if (shape == 0) {
                    if (alloc == 0) callback_await<future<T> &>(CbFn{&rec}, f);
                    else if (alloc <= 2) callback_await_alloc<stack_storage, future<T> &>(st, CbFn{&rec}, f);
                    else if (alloc == 3) callback_await_alloc<reusable_storage, future<T> &>(rs, CbFn{&rec}, f);
                    else callback_await_alloc<counting_storage, future<T> &>(cs, CbFn{&rec}, f);
                } else {
                    // (the function object is passed as an rvalue: the adapter keeps a copy in its frame)
                    if (alloc == 0) callback_await<future<T> >(CbFn{&rec}, Factory{&p, timing, outcome, v, &exc});
                    else if (alloc <= 2) callback_await_alloc<stack_storage, future<T> >(st, CbFn{&rec}, Factory{&p, timing, outcome, v, &exc});
                    else if (alloc == 3) callback_await_alloc<reusable_storage, future<T> >(rs, CbFn{&rec}, Factory{&p, timing, outcome, v, &exc});
                    else callback_await_alloc<counting_storage, future<T> >(cs, CbFn{&rec}, Factory{&p, timing, outcome, v, &exc});
                }
            });
            if (timing == 1) {
                VF_ASSERT(rec.count == 0, "C18 the completion does not run before the awaited operation has an outcome");
                if (alloc == 0 || alloc == 2) VF_ASSERT(vf_live_allocs() > base, "C18 the helper's heap block is not released before the completion ran");
                if (alloc == 4) VF_ASSERT(counting_storage::allocs == 1 && counting_storage::deallocs == 0, "C18 the pending helper holds its storage block");
                in_mode([&] { resolve(p, outcome, v, exc); });
            }
            VF_ASSERT(rec.count == 1, "C18 the completion runs exactly once");
            expect(rec, outcome, std::is_void_v<T> ? 0 : v, tag);
            vf_out(rs.capacity() > 0);
        }
        VF_ASSERT(vf_live_allocs() == base, "C18 the helper's heap block is released (exactly once: a second release is a double free)");
        if (alloc == 4) VF_ASSERT(counting_storage::allocs == 1 && counting_storage::deallocs == 1 && counting_storage::mismatched == 0,
                                  "C18 the helper's storage block is released exactly once");
        vf_out(rec.state); vf_out(rec.val & 0xff); vf_out(counting_storage::allocs); vf_out(counting_storage::deallocs); vf_out(state > 0);
    }
    VF_ASSERT(rec.count == 1, "C18 the completion runs exactly once");
    vf_choice_end();
    vf_witness();
}
#endif

#if C18_PART == 2
// ================================================================= make_promise
template<typename T> struct MpFn {
    Rec *r;
    void operator()(future<T> &f) { ++r->count; VF_ASSERT(f.ready(), "C18 make_promise: the callback sees a resolved future"); record_future(*r, f); }
};

template<typename T> void mp_program() {
    const int alloc = vf_choice(3);      // 0 heap (make_promise(fn)), 1 reusable_storage, 2 counting storage
    const int how = vf_choice(5);        // 0 value, 1 exception, 2 drop tag, 3 promise object destroyed, 4 value through a moved promise
    g_mode = vf_choice(2);
    const int v = nondet_int();
    const int tag = nondet_uchar();
    std::exception_ptr exc = vf_make_exc(tag);
    vf_warmup();
    const long base = vf_live_allocs();
    Rec rec;
    {
        counting_storage cs;
        {
            reusable_storage rs;
            {
                promise<T> p;
                if (alloc == 0) p = make_promise<T>(MpFn<T>{&rec});
                else if (alloc == 1) p = make_promise<T>(MpFn<T>{&rec}, rs);
                else p = make_promise<T>(MpFn<T>{&rec}, cs);
                VF_ASSERT(rec.count == 0, "C18 the completion does not run before the awaited operation has an outcome");
                if (alloc <= 1) VF_ASSERT(vf_live_allocs() > base, "C18 the helper's heap block is not released before the completion ran");
                in_mode([&] {
                    if (how == 3) { promise<T> victim(std::move(p)); }
                    else if (how == 4) { promise<T> q(std::move(p)); resolve(q, O_VALUE, v, exc); }
                    else resolve(p, how, v, exc);
                });
                VF_ASSERT(rec.count == 1, "C18 the completion runs exactly once");
                in_mode([&] { resolve(p, O_VALUE, v ^ 1, exc); });      // a used promise is inert
            }
            VF_ASSERT(rec.count == 1, "C18 the completion runs exactly once");
            expect(rec, how == 4 ? O_VALUE : how == 3 ? O_DROP : how, std::is_void_v<T> ? 0 : v, tag);
        }
        VF_ASSERT(vf_live_allocs() == base, "C18 the helper's heap block is released (exactly once: a second release is a double free)");
        if (alloc == 2) VF_ASSERT(counting_storage::allocs == 1 && counting_storage::deallocs == 1 && counting_storage::mismatched == 0,
                                  "C18 the helper's storage block is released exactly once");
    }
    vf_out(rec.state); vf_out(rec.val & 0xff); vf_out(counting_storage::allocs); vf_out(counting_storage::deallocs);
    vf_choice_end();
    vf_witness();
}
extern "C" void h_mp_int() { mp_program<int>(); }
extern "C" void h_mp_void() { mp_program<void>(); }

// ================================================================= discard
extern "C" void h_discard() {
    const int timing = vf_choice(2);
    const int outcome = vf_choice(3);
    const int vt = vf_choice(2);         // 0 future<vf_probe> (counted value), 1 future<void>
    g_mode = vf_choice(2);
    const int v = nondet_int();
    const int tag = nondet_uchar();
    std::exception_ptr exc = vf_make_exc(tag);
    vf_warmup();
    const long base = vf_live_allocs();
    vf_probe_counts pc;
    {
        promise<vf_probe> pp;
        promise<void> pv;
        in_mode([&] {
            if (vt == 0) discard([&]() -> future<vf_probe> {
                if (timing == 1) return future<vf_probe>([&](promise<vf_probe> pr) { pp = std::move(pr); });
                if (outcome == O_VALUE) return future<vf_probe>::set_value(pc, v);
                if (outcome == O_EXC) return future<vf_probe>::set_exception(exc);
                return future<vf_probe>::set_not_value();
            });
            else discard([&]() -> future<void> {
                if (timing == 1) return future<void>([&](promise<void> pr) { pv = std::move(pr); });
                return resolved<void>(outcome, v, exc);
            });
        });
        if (timing == 1) {
            VF_ASSERT(vf_live_allocs() > base, "C18 discard does not release its block while the future is pending");
            in_mode([&] {
                if (vt == 1) resolve(pv, outcome, v, exc);
                else if (outcome == O_VALUE) pp(pc, v); else if (outcome == O_EXC) pp(exc); else pp(drop);
            });
        }
        VF_ASSERT(vf_live_allocs() == base, "C18 discard releases its block once the future is resolved (exactly once: a second release is a double free)");
        VF_ASSERT(pc.constructed == pc.destroyed, "C18 discard destroys the discarded value exactly once");
        VF_ASSERT((pc.constructed > 0) == (vt == 0 && outcome == O_VALUE), "VF_SPEC harness: a counted value exists exactly for the value outcome");
    }
    vf_out(pc.constructed); vf_out(pc.destroyed);
    vf_choice_end();
    vf_witness();
}

// ================================================================= call_fn_future_awaiter
template<typename T> struct Owner {
    Rec rec;
    suspend_point<void> done(future<T> &f) noexcept {
        ++rec.count;
        VF_ASSERT(f.ready(), "C18 call_fn_future_awaiter: the member function sees a resolved future");
        record_future(rec, f);
        return {};
    }
    call_fn_future_awaiter<&Owner::done> aw{*this};
};
template<typename T> void cfa_program() {
    const int timing = vf_choice(2);
    const int outcome = vf_choice(3);
    g_mode = vf_choice(2);
    const int v = nondet_int();
    const int tag = nondet_uchar();
    std::exception_ptr exc = vf_make_exc(tag);
    vf_warmup();
    const long base = vf_live_allocs();
    {
        Owner<T> o;
        promise<T> p;
        in_mode([&] {
            o.aw << [&]() -> future<T> {
                if (timing == 1) return future<T>([&](promise<T> pr) { p = std::move(pr); });
                return resolved<T>(outcome, v, exc);
            };
        });
        if (timing == 1) {
            VF_ASSERT(o.rec.count == 0, "C18 the completion does not run before the awaited operation has an outcome");
            in_mode([&] { resolve(p, outcome, v, exc); });
        }
        VF_ASSERT(o.rec.count == 1, "C18 the completion runs exactly once");
        expect(o.rec, outcome, std::is_void_v<T> ? 0 : v, tag);
        VF_ASSERT(vf_live_allocs() == base, "C18 call_fn_future_awaiter needs no heap block");
        vf_out(o.rec.state); vf_out(o.rec.val & 0xff);
    }
    vf_choice_end();
    vf_witness();
}
extern "C" void h_cfa_int() { cfa_program<int>(); }
extern "C" void h_cfa_void() { cfa_program<void>(); }
#endif

#if C18_PART == 3
// ================================================================= future_conv
struct Ctx;
int conv_free(int &x);
int conv_ctx(int &x, Ctx *c);
struct Ctx {
    int k = 0;              // what the converters add
    int calls = 0;
    int throws = 0;         // the converter throws vf_tag_exc{ctag} instead of returning
    int ctag = 0;
    int m_val(int &x) { ++calls; if (throws) throw vf_tag_exc{ctag}; return x + k; }
    int m_void() { ++calls; if (throws) throw vf_tag_exc{ctag}; return k; }
    suspend_point<void> m_prom(int &x, promise<int> &p) { ++calls; if (throws) throw vf_tag_exc{ctag}; return p(x + k); }
    suspend_point<void> m_prom_void(promise<int> &p) { ++calls; if (throws) throw vf_tag_exc{ctag}; return p(k); }
    void m_to_void(int &x) { ++calls; if (throws) throw vf_tag_exc{ctag}; seen = x; }
    int seen = 0;
    future_conv<&Ctx::m_val> c0{this};
    future_conv<&Ctx::m_void> c1{this};
    future_conv<&Ctx::m_prom> c2{this};
    future_conv<&Ctx::m_prom_void> c3{this};
    future_conv<&conv_free> c4;
    future_conv<&conv_ctx> c5{this};
    future_conv<&Ctx::m_to_void> c6{this};
};
Ctx *g_ctx;
int conv_free(int &x) { ++g_ctx->calls; if (g_ctx->throws) throw vf_tag_exc{g_ctx->ctag}; return x + g_ctx->k; }
int conv_ctx(int &x, Ctx *c) { ++c->calls; if (c->throws) throw vf_tag_exc{c->ctag}; return x + c->k; }

extern "C" void h_conv() {
    const int shape = vf_choice(7);      // 0 To (C::*)(From&), 1 To (C::*)() [From=void], 2 suspend_point (C::*)(From&, promise<To>&), 3 suspend_point (C::*)(promise<To>&) [From=void],
                                         // 4 To (*)(From&), 5 To (*)(From&, C*), 6 void (C::*)(From&) [To=void]
    const int timing = vf_choice(2);     // 0 the source future is resolved before operator<<, 1 afterwards on the same thread
    const int outcome = vf_choice(4);    // value, source exception, source dropped, converter throws
    g_mode = vf_choice(2);
    const int reg = vf_choice(2);        // 0 `outer = conv << source_fn`, 1 `conv(std::move(outer_promise)) << source_fn` (what a converter uses to re-arm itself)
    const bool from_void = shape == 1 || shape == 3;
    const bool to_void = shape == 6;
    const int v = nondet_int() & 0xffff;
    const int k = nondet_int() & 0xffff;
    const int tag = nondet_uchar();
    const int ctag = 256 + nondet_uchar();
    std::exception_ptr exc = vf_make_exc(tag);
    vf_warmup();
    const long base = vf_live_allocs();
    {
        Ctx ctx;
        g_ctx = &ctx;
        ctx.k = k; ctx.ctag = ctag; ctx.throws = outcome == O_CONV_THROWS;
        const int src_outcome = outcome == O_CONV_THROWS ? O_VALUE : outcome;
        promise<int> pi;
        promise<void> pv;
        future<int> out;
        future<void> outv;
        auto src_int = [&]() -> future<int> {
            if (timing == 1) return future<int>([&](promise<int> pr) { pi = std::move(pr); });
            return resolved<int>(src_outcome, v, exc);
        };
        auto src_void = [&]() -> future<void> {
            if (timing == 1) return future<void>([&](promise<void> pr) { pv = std::move(pr); });
            return resolved<void>(src_outcome, v, exc);
        };
        auto reg_on = [&](auto &conv, auto &src, auto &outer) {
            using Outer = std::remove_reference_t<decltype(outer)>;
            if (reg == 0) outer << [&] { return conv << src; };
            else outer << [&] { return Outer([&](auto pr) { conv(std::move(pr)) << src; }); };
        };
        in_mode([&] {
            switch (shape) {
            case 0: reg_on(ctx.c0, src_int, out); break;
            case 1: reg_on(ctx.c1, src_void, out); break;
            case 2: reg_on(ctx.c2, src_int, out); break;
            case 3: reg_on(ctx.c3, src_void, out); break;
            case 4: reg_on(ctx.c4, src_int, out); break;
            case 5: reg_on(ctx.c5, src_int, out); break;
            default: reg_on(ctx.c6, src_int, outv); break;
            }
        });
        if (timing == 1) {
            VF_ASSERT(to_void ? outv.pending() : out.pending(), "C18 the outer future stays pending while the source is pending");
            VF_ASSERT(ctx.calls == 0, "C18 the converter does not run before the source has an outcome");
            in_mode([&] { if (from_void) resolve(pv, src_outcome, v, exc); else resolve(pi, src_outcome, v, exc); });
        }
        VF_ASSERT(to_void ? outv.ready() : out.ready(), "C18 the outer future is resolved once the source is resolved");
        Rec r;
        if (to_void) record_future(r, outv); else record_future(r, out);
        if (outcome == O_VALUE) {
            VF_ASSERT(ctx.calls == 1, "C18 the converter runs exactly once");
            if (to_void) VF_ASSERT(r.state == S_VALUE && ctx.seen == v, "C18 the converter receives exactly the source value");
            else VF_ASSERT(r.state == S_VALUE && r.val == (from_void ? k : v + k), "C18 the outer future receives exactly the converted value");
        } else if (outcome == O_CONV_THROWS) {
            VF_ASSERT(ctx.calls == 1, "C18 the converter runs exactly once");
            VF_ASSERT(r.state == S_TAG && r.val == ctag, "C18 the exception thrown by the converter reaches the outer future");
        } else if (from_void) {      // converters without a source argument (one assertion: they share one mechanism)
            VF_ASSERT(outcome == O_EXC ? (r.state == S_TAG && r.val == tag) : r.state == S_CANCELED,
                      "C18 the exception / broken promise of a void source reaches the outer future");
        } else if (outcome == O_EXC) {
            VF_ASSERT(r.state == S_TAG && r.val == tag, "C18 the exception of the source reaches the outer future");
        } else {
            VF_ASSERT(r.state == S_CANCELED, "C18 the broken promise of the source reaches the outer future");
        }
        VF_ASSERT(vf_live_allocs() == base, "C18 future_conv needs no heap block");
        vf_out(r.state); vf_out(r.val & 0xffff); vf_out(ctx.calls);
    }
    vf_choice_end();
    vf_witness();
}
#endif

#if C18_PART == 4
// ================================================================= resolution on another thread, landing inside the registration
// The source future is pending when the adapter is registered; the resolving thread's whole operation (set value / exception / drop) is
// injected in front of the k-th atomic instruction the registration executes (vf_ainject_arm), k = 1..K, or happens after the registration.
// Same oracle as the sequential half: the completion runs exactly once with exactly the operation's outcome, helper blocks are released.
namespace mt {
promise<int> *g_p; int g_outcome, g_v; std::exception_ptr *g_e; int g_early;
void resolver() {
    if (!*g_p) { g_early = 1; return; }         // the operation has not been started yet: the other thread has nothing to resolve (it acts later)
    resolve(*g_p, g_outcome, g_v, *g_e);
}
struct CbFn {
    Rec *r;
    void operator()(await_result<int> res) {
        ++r->count;
        try { r->val = *res; r->state = S_VALUE; } catch (const vf_tag_exc &e) { r->state = S_TAG; r->val = e.tag; }
        catch (const await_canceled_exception &) { r->state = S_CANCELED; }
        catch (...) { r->state = S_OTHER; }
    }
};
struct Owner {
    Rec rec;
    suspend_point<void> done(future<int> &f) noexcept { ++rec.count; VF_ASSERT(f.ready(), "C18 call_fn_future_awaiter: the member function sees a resolved future"); record_future(rec, f); return {}; }
    call_fn_future_awaiter<&Owner::done> aw{*this};
};
struct Conv {
    int k = 0, calls = 0;
    int m_val(int &x) { ++calls; return x + k; }
    suspend_point<void> m_prom(int &x, promise<int> &p) { ++calls; return p(x + k); }
    future_conv<&Conv::m_val> c0{this};
    future_conv<&Conv::m_prom> c2{this};
};
}

extern "C" void h_adapt_mt() {
    using namespace mt;
    const int adapter = vf_choice(6);    // 0 callback_await (existing future), 1 callback_await (future-returning function), 2 call_fn_future_awaiter, 3 future_conv To(C::*)(From&),
                                         // 4 future_conv suspend_point (C::*)(From&, promise<To>&), 5 discard
    const int outcome = vf_choice(3);
    const int k = 1 + vf_choice(12);
    const int v = nondet_int() & 0xffff;
    const int kk = nondet_int() & 0xffff;
    const int tag = nondet_uchar();
    std::exception_ptr exc = vf_make_exc(tag);
    vf_warmup();
    const long base = vf_live_allocs();
    vf_probe_counts pc;
    {
        promise<int> p;
        g_p = &p; g_outcome = outcome; g_v = v; g_e = &exc; g_early = 0;
        Rec rec; int calls = 1;
        future<int> f, out;
        Owner o;
        Conv cv; cv.k = kk;
        auto src = [&]() -> future<int> { return future<int>([&](promise<int> pr) { p = std::move(pr); }); };
        if (adapter == 0) p = f.get_promise();
        vf_ainject_arm(&resolver, k);
        switch (adapter) {
        case 0: callback_await<future<int> &>(CbFn{&rec}, f); break;
        case 1: callback_await<future<int> >(CbFn{&rec}, src); break;
        case 2: o.aw << src; break;
        case 3: out << [&] { return cv.c0 << src; }; break;
        case 4: out << [&] { return cv.c2 << src; }; break;
        default: discard(src); break;
        }
        if (vf_ainject_pending() || g_early) { vf_ainject_disarm(); resolve(p, outcome, v, exc); }     // the other thread acts after the registration returned
        vf_out(vf_ainject_events());
        if (adapter == 2) rec = o.rec;
        if (adapter == 3 || adapter == 4) {
            VF_ASSERT(out.ready(), "C18 the outer future is resolved once the source is resolved");
            record_future(rec, out);
            if (outcome == O_VALUE) { VF_ASSERT(cv.calls == 1, "C18 the converter runs exactly once"); VF_ASSERT(rec.state == S_VALUE && rec.val == v + kk, "C18 the outer future receives exactly the converted value"); }
            else { VF_ASSERT(cv.calls == 0, "C18 the converter does not run without a source value"); expect(rec, outcome, 0, tag); }
        } else if (adapter != 5) {
            VF_ASSERT(rec.count == 1, "C18 the completion runs exactly once");
            expect(rec, outcome, v, tag);
        }
        vf_out(rec.state); vf_out(rec.val & 0xffff);
    }
    VF_ASSERT(vf_live_allocs() == base, "C18 the helper's heap block is released (exactly once: a second release is a double free)");
    vf_choice_end();
    vf_witness();
}
#endif
