// C07 / C08 - coroutine mutex under real concurrency (E2 scenarios; every interleaving is a solver variable).
// Parameters (preprocessor): NT = number of contender threads (2..3); for thread i (1-based):
//   Ti_ACQ  0 try_lock | 1 blocking lock().wait() | 2 coroutine protocol (await_ready/await_suspend/await_resume with a callback awaiter)
//   Ti_REL  0 ownership destructor | 1 release() discarded | 2 release() then clear() of the returned suspend point
//   Ti_ROUNDS number of lock/critical-section/release rounds (default 1)
// OWNER0=1: vf_setup takes the lock and thread 1 only releases it (Ti_ACQ of thread 1 ignored) - "a release that overlaps a request".
// PREQ=r (with OWNER0=1, NT=2): vf_setup also registers a coroutine-protocol request of party 3 that releases with flavour r.
// FIFO=1 (with OWNER0=1, NT=3): thread 2 requests first, signals, thread 3 requests after the signal, thread 1 releases after
//   both have requested; the grant order must then be 2 before 3 (C08 first come, first served).
#include "vf2.h"
#include <cocls/mutex.h>
#include <atomic>
#include <new>
using namespace cocls;

#ifndef NT
#define NT 2
#endif
#ifndef OWNER0
#define OWNER0 0
#endif
#ifndef FIFO
#define FIFO 0
#endif
#ifndef T1_ACQ
#define T1_ACQ 1
#endif
#ifndef T1_REL
#define T1_REL 0
#endif
#ifndef T2_ACQ
#define T2_ACQ 1
#endif
#ifndef T2_REL
#define T2_REL 0
#endif
#ifndef T3_ACQ
#define T3_ACQ 1
#endif
#ifndef T3_REL
#define T3_REL 0
#endif
#ifndef T1_ROUNDS
#define T1_ROUNDS 1
#endif
#ifndef T2_ROUNDS
#define T2_ROUNDS 1
#endif
#ifndef T3_ROUNDS
#define T3_ROUNDS 1
#endif

static mutex mx;
static int owner;                    // plain cell written inside the critical section
static int grant_seq;                // number of grants so far (written inside the critical section only)
static mutex::ownership own0;        // OWNER0: taken by vf_setup
static std::atomic<int> arrived2;    // FIFO: thread 2 has published its request

struct Stat { int granted, try_failed, not_suspended, suspended_ret, resumed, order; };
static Stat st[4][2];

#define INL __attribute__((always_inline)) inline
static INL void critical(int me, int round) {
    vf_assert(owner == 0, "C07 two parties inside the critical section at once (mutual exclusion)");
    owner = me;
    st[me][round].granted++;
    st[me][round].order = ++grant_seq;
    vf_assert(owner == me, "C07 critical section disturbed by another owner (mutual exclusion)");
    owner = 0;
}

template<int REL> static INL void release(mutex::ownership &own) {
    if (REL == 0) { mutex::ownership tmp(std::move(own)); }          // destructor unlocks
    else if (REL == 1) { own.release(); }                              // suspend point discarded
    else { auto sp = own.release(); sp.clear(); }
}

// The coroutine protocol exactly as the compiler drives it, with a callback instead of a frame.
// The object plays the coroutine frame: once the request is published the resumer may run body() on its own
// thread and destroy the "frame", so the suspending thread must not touch it any more.
template<int REL> struct CoroSim {
    co_awaiter<mutex> aw;
    int me, round;
    CoroSim(int m, int r) : aw(mx.lock()), me(m), round(r) {}
    static suspend_point<void> resume_cb(awaiter *, void *ctx) noexcept {
        CoroSim *self = static_cast<CoroSim *>(ctx);
        st[self->me][self->round].resumed++;
        self->body();
        return {};
    }
    void body() {
        mutex::ownership own = aw.await_resume();
        critical(me, round);
        int m = me, r = round; (void)m; (void)r;
        this->~CoroSim(); ::operator delete(this);                     // the frame dies when the coroutine finishes
        release<REL>(own);
    }
    void start() {
        if (aw.await_ready()) { st[me][round].not_suspended++; body(); return; }
        int m = me, r = round;
        if (aw.await_suspend(&CoroSim::resume_cb, this)) { st[m][r].suspended_ret++; return; }   // *this may be gone here
        st[m][r].not_suspended++;
        body();
    }
};

template<int ACQ, int REL> static INL void round_(int me, int round) {
    if (ACQ == 0) {
        mutex::ownership own = mx.try_lock();
        if (!own) { st[me][round].try_failed++; return; }
        vf_join();
        critical(me, round);
        vf_join();
        release<REL>(own);
    } else if (ACQ == 1) {
        mutex::ownership own = mx.lock().wait();
        vf_join();
        critical(me, round);
        vf_join();
        release<REL>(own);
    } else {
        auto *c = new CoroSim<REL>(me, round);
        c->start();
    }
}

extern "C" void vf_setup() {
#if OWNER0
    own0 = mx.try_lock();
#endif
#ifdef PREQ
    // a coroutine-protocol request (party 3) is already registered when the threads start: the releasing owner hands the mutex over to it
    // on its own thread, the new owner releases at once - the owner-private FIFO is written by a thread other than the next requester's
    { auto *c = new CoroSim<PREQ>(3, 0); c->start(); }
#endif
}

extern "C" void vf_thread_1() {
#if OWNER0
    // FIFO scenarios: the owner may release at any time; requests 2 and 3 are ordered by the arrived2 hand-shake
    release<T1_REL>(own0);
#ifdef REQ_AFTER_REL
    // the releasing owner comes straight back as a requester
    for (int r = 0; r < T1_ROUNDS; r++) round_<T1_ACQ, T1_REL>(1, r);
#endif
#else
    for (int r = 0; r < T1_ROUNDS; r++) round_<T1_ACQ, T1_REL>(1, r);
#endif
}
extern "C" void vf_thread_2() {
    for (int r = 0; r < T2_ROUNDS; r++) round_<T2_ACQ, T2_REL>(2, r);
#if FIFO
    arrived2.store(1);
#endif
}
#if NT >= 3
extern "C" void vf_thread_3() {
#if FIFO
    { int v = arrived2.load(); if (!v) arrived2.wait(0); }
#endif
    for (int r = 0; r < T3_ROUNDS; r++) round_<T3_ACQ, T3_REL>(3, r);
}
#endif

static void check_thread(int t, int acq, int rounds) {
    for (int r = 0; r < rounds; r++) {
        Stat &s = st[t][r];
        vf_assert(!(s.not_suspended && s.resumed), "C07 a waiter told 'not suspended' was resumed as well (resumed while still suspending / double grant)");
        vf_assert(s.resumed <= 1, "C07 a waiting coroutine resumed more than once");
        if (acq == 0) vf_assert(s.granted + s.try_failed == 1, "C07 try_lock neither failed nor granted exactly once");
        else vf_assert(s.granted == 1, "C07 lock request not granted exactly once (lost or duplicated grant)");
        if (acq == 2) vf_assert(s.suspended_ret == s.resumed, "C07 suspended waiter not resumed exactly once");
    }
}

extern "C" void vf_check() {
#if !OWNER0 || defined(REQ_AFTER_REL)
    check_thread(1, T1_ACQ, T1_ROUNDS);
#endif
    check_thread(2, T2_ACQ, T2_ROUNDS);
#if NT >= 3
    check_thread(3, T3_ACQ, T3_ROUNDS);
#elif defined(PREQ)
    check_thread(3, 2, 1);
#endif
    vf_assert(owner == 0, "C07 critical section left marked");
    vf_join();
    // C08: a mutex whose every ownership has been released can be locked again (not 'locked with no owner')
    // (the ownership is placed in a buffer and never destroyed: the unlock paths are exercised by the threads, not here)
    alignas(mutex::ownership) static unsigned char again_buf[sizeof(mutex::ownership)];
    mutex::ownership *again = new (again_buf) mutex::ownership(mx.try_lock());
    vf_assert(!!*again, "C08 mutex stays locked although every ownership was released (lost request / orphaned lock)");
#if FIFO && NT >= 3
    // both were waiting (suspended or blocked) => first come, first served
    if (st[2][0].granted && st[3][0].granted && !st[2][0].try_failed && !st[3][0].try_failed)
        vf_assert(st[2][0].order < st[3][0].order, "C08 a later request was granted before an earlier one (FIFO hand-off)");
#endif
    vf_reach("C07 check reached");
}
