// Litmus scenarios with known answers for the E2 engine (run by tools/selftest.py).
//  LIT=1 MP release/acquire: no race, reader sees data        LIT=2 MP relaxed flag: data race
//  LIT=3 MP relaxed store after release fence / relaxed load before acquire fence: no race
//  LIT=4 release sequence continued by an RMW of a third thread: no race     LIT=5 SB (store buffering) under SC: both-zero forbidden
//  LIT=6 CAS lock with acquire/release protects a plain counter: no race, counter == 2   LIT=7 same with relaxed unlock: race
//  LIT=8 lost wake-up: waiter checks flag then waits on another cell that is never changed afterwards: deadlock reachable
#include "vf2.h"
#include <atomic>
int data; std::atomic<int> flag, x, y, lock_; int r1, r2, counter;   // external linkage: the compiler must keep every access
extern "C" void vf_setup() {}
#if LIT == 1
extern "C" void vf_thread_1() { data = 42; flag.store(1, std::memory_order_release); }
extern "C" void vf_thread_2() { if (flag.load(std::memory_order_acquire)) vf_assert(data == 42, "MP: reader sees the data"); }
#elif LIT == 2
extern "C" void vf_thread_1() { data = 42; flag.store(1, std::memory_order_relaxed); }
extern "C" void vf_thread_2() { if (flag.load(std::memory_order_relaxed)) r1 = data; }
#elif LIT == 3
extern "C" void vf_thread_1() { data = 42; std::atomic_thread_fence(std::memory_order_release); flag.store(1, std::memory_order_relaxed); }
extern "C" void vf_thread_2() { if (flag.load(std::memory_order_relaxed)) { std::atomic_thread_fence(std::memory_order_acquire); r1 = data; } }
#elif LIT == 4
extern "C" void vf_thread_1() { data = 42; flag.store(1, std::memory_order_release); }
extern "C" void vf_thread_2() { flag.fetch_add(2, std::memory_order_relaxed); }
extern "C" void vf_thread_3() { int f = flag.load(std::memory_order_acquire); if (f & 1) r1 = data; }
#elif LIT == 5
extern "C" void vf_thread_1() { x.store(1); r1 = y.load(); }
extern "C" void vf_thread_2() { y.store(1); r2 = x.load(); }
extern "C" void vf_check() { vf_assert(r1 == 1 || r2 == 1, "SB: both loads zero under SC"); }
#elif LIT == 6 || LIT == 7
static void locked_inc() {
    int e = 0;
    while (!lock_.compare_exchange_strong(e, 1, std::memory_order_acquire)) e = 0;
    counter = counter + 1;
#if LIT == 6
    lock_.store(0, std::memory_order_release);
#else
    lock_.store(0, std::memory_order_relaxed);
#endif
}
extern "C" void vf_thread_1() { locked_inc(); }
extern "C" void vf_thread_2() { locked_inc(); }
extern "C" void vf_check() { vf_assert(counter == 2, "lock: both increments counted"); }
#elif LIT == 8
extern "C" void vf_thread_1() { x.store(1); y.store(1); y.notify_all(); }
extern "C" void vf_thread_2() { if (!x.load()) { y.wait(0); y.store(0); y.wait(0); } }
#endif
