"""C12 scheduler - plan.

h_manual skeleton vector:  api, nops, then per operation
    0 id tp   sleep_until(tp, id) (api 0) / schedule(id, promise, tp) (api 1)
    1 id      cancel(id)                     2 id   cancel(id, e)
    3 id      remove(id) (+ resolve the returned promise)
    4 now     get_expired(now) (+ resolve the returned promise)
Time points are skeleton inputs: scheduler code only ever *compares* time points, so a history is determined by the weak order
of its time values; sleeps use the odd values 2*rank+1 of an enumerated weak order, `now` ranges over every position relative to
the time points scheduled so far (below, equal, in each gap, above).
"""
import itertools

S, C, CE, R, G = 0, 1, 2, 3, 4


def weak_orders(k):
    """rank tuples of length k whose set of ranks is {0..r-1}"""
    for t in itertools.product(range(k), repeat=k):
        if k == 0 or set(t) == set(range(max(t) + 1)):
            yield t


def canon_ids(ids):
    seen = 0
    for x in ids:
        if x > seen:
            return False
        if x == seen:
            seen += 1
    return True


def now_positions(tps):
    """one representative `now` per position relative to the distinct time points scheduled so far"""
    vals = sorted(set(tps))
    if not vals:
        return [0]
    out = [vals[0] - 1]
    for v in vals:
        out += [v, v + 1]
    return out


def enum_histories(shapes, nids=3, lookup=(C,), orders=None, ids_filter=None):
    """shapes: iterable of strings over 'S' (sleep), 'L' (lookup: cancel/remove), 'G' (get_expired).
    Exhaustive over canonical id assignments (first-use order), weak orders of the sleeps' time points, every `now` position
    and every lookup kind in `lookup` (one kind per history)."""
    out = []
    for shape in shapes:
        ns = shape.count('S')
        nid = ns + shape.count('L')
        for ids in itertools.product(range(nids), repeat=nid):
            if not canon_ids(ids):
                continue
            if ids_filter and not ids_filter(shape, ids):
                continue
            for wo in (orders(ns) if orders else weak_orders(ns)):
                # expand get_expired positions step by step
                partial = [([], [])]    # (ops, tps so far)
                ii = 0; si = 0
                for ch in shape:
                    nxt = []
                    for ops, tps in partial:
                        if ch == 'S':
                            tp = 2 * wo[si] + 1
                            nxt.append((ops + [(S, ids[ii], tp)], tps + [tp]))
                        elif ch == 'L':
                            nxt.append((ops + [('L', ids[ii])], tps))
                        else:
                            for now in now_positions(tps):
                                nxt.append((ops + [(G, now)], tps))
                    if ch == 'S':
                        si += 1
                    if ch in 'SL':
                        ii += 1
                    partial = nxt
                for ops, _ in partial:
                    for lk in (lookup if 'L' in shape else lookup[:1]):
                        out.append([(lk, o[1]) if o[0] == 'L' else o for o in ops])
    return out


def vec(ops, api=0):
    v = [api, len(ops)]
    for o in ops:
        v += list(o)
    return v


def shapes_of_len(n, first_s=True):
    for t in itertools.product('SLG', repeat=n):
        s = ''.join(t)
        if first_s and n and s[0] != 'S':
            continue
        yield s


def strict_orders(k):
    return itertools.permutations(range(k))


def manual_vectors(tier):
    hs = []
    if tier == 'quick':
        # every history of <= 3 operations (cancel as the lookup), every history of <= 2 operations with each lookup kind
        for n in range(0, 4):
            hn = enum_histories(shapes_of_len(n, first_s=False) if n <= 2 else shapes_of_len(n), lookup=(C,))
            hs += hn if n <= 2 else hn[::2]        # quick: every second 3-operation history (h_cover adds a 4th operation to every state they reach)
        for n in range(1, 3):
            hs += enum_histories([s for s in shapes_of_len(n, first_s=False) if 'L' in s], lookup=(CE, R))
        # two sleeps, then three lookups/expiries: cancel of a non-top entry followed by its surfacing (repeated cancel, cancel after expiry)
        hs += enum_histories(['SSLLL'], nids=2, lookup=(C,), ids_filter=lambda sh, ids: len(set(ids[:2])) == 2)
        hs += [h for h in enum_histories(['SSLGL'], nids=2, lookup=(C,), ids_filter=lambda sh, ids: len(set(ids[:2])) == 2)
               if h[3][1] == max(h[0][2], h[1][2]) + 1]          # get_expired with everything due
        # three sleeps (strictly ordered time points), two lookups of the same id: duplicate ids below the top
        hs += enum_histories(['SSSLL'], nids=2, lookup=(C,), orders=strict_orders, ids_filter=lambda sh, ids: ids[3] == ids[4] and len(set(ids[:3])) == 2)
    else:
        for n in range(0, 5):
            hs += enum_histories(shapes_of_len(n, first_s=(n >= 3)), lookup=(C,))
        for n in range(1, 4):
            hs += enum_histories([s for s in shapes_of_len(n, first_s=(n >= 3)) if 'L' in s], lookup=(CE, R))
        hs += enum_histories(['SSLLL', 'SSLGL', 'SSLLG', 'SSGLL', 'SSLGG'], nids=2, lookup=(C, R))
        hs += enum_histories(['SSSLL', 'SSSLG', 'SSSGL'], nids=2, lookup=(C, R))
        hs += enum_histories(['SSSGG'], nids=1, lookup=(C,))
    seen = set(); out = []
    for h in hs:
        v = vec(h)
        if tuple(v) not in seen:
            seen.add(tuple(v)); out.append(v)
    # the schedule(id, promise, tp) entry point (api 1) on a slice: every history of <= 3 operations without ties
    for h in enum_histories(shapes_of_len(3), lookup=(C,), orders=strict_orders, nids=2) if tier != 'quick' else \
            enum_histories(['SSL', 'SLG'], lookup=(C,), orders=strict_orders, nids=2):
        out.append(vec(h, api=1))
    return out


# ---------------------------------------------------------------- one step from every reachable abstract heap state
# (selection device only: the abstract heap below mirrors what the library keeps - time point, identifier, alive / emptied, in
#  std::push_heap / pop_heap array order - so that histories can be chosen that *reach* every such state; the oracle stays the
#  reference model inside the harness)
from fractions import Fraction as F

def push_heap(a):
    # libstdc++ __push_heap with comp(a,b)= a.tp > b.tp  (min-heap on tp)
    i = len(a) - 1
    v = a[i]
    while i > 0:
        p = (i - 1) // 2
        if a[p][0] > v[0]:
            a[i] = a[p]; i = p
        else:
            break
    a[i] = v

def pop_heap(a):
    # libstdc++ __pop_heap: value = last; last = first; __adjust_heap(first, 0, len-1, value)
    n = len(a) - 1
    if n == 0:
        a.pop(); return
    v = a[n]; a[n] = a[0]
    hole = 0; child = 0
    while child < (n - 1) // 2:
        child = 2 * (child + 1)
        if a[child][0] > a[child - 1][0]:
            child -= 1
        a[hole] = a[child]; hole = child
    if (n & 1) == 0 and child == (n - 2) // 2:
        child = 2 * (child + 1)
        a[hole] = a[child - 1]; hole = child - 1
    # push_heap(hole, top=0, v)
    while hole > 0:
        p = (hole - 1) // 2
        if a[p][0] > v[0]:
            a[hole] = a[p]; hole = p
        else:
            break
    a[hole] = v
    a.pop()

def step(heap, op):
    """the repaired library's behaviour on the abstract heap (selection only)"""
    a = [list(x) for x in heap]
    if op[0] == S:
        a.append([op[2], op[1], True]); push_heap(a)
    elif op[0] in (C, CE, R):
        idv = op[1]
        done = False
        while a and a[0][1] == idv:
            alive = a[0][2]
            pop_heap(a)
            if alive:
                done = True; break
        if not done:
            for x in a:
                if x[1] == idv and x[2]:
                    x[2] = False; break
    else:
        now = op[1]
        while a and (a[0][0] <= now or not a[0][2]):
            alive = a[0][2]
            pop_heap(a)
            if alive: break
    return tuple(tuple(x) for x in a)

def key(heap):
    vals = sorted(set(x[0] for x in heap))
    rk = {v: i for i, v in enumerate(vals)}
    ids = {}
    out = []
    for tp, i, al in heap:
        if i not in ids: ids[i] = len(ids)
        out.append((rk[tp], ids[i], al))
    return tuple(out)

def positions(heap):
    vals = sorted(set(x[0] for x in heap))
    if not vals: return [F(0)]
    out = [vals[0] - 1]
    for i, v in enumerate(vals):
        out.append(v)
        out.append((v + vals[i + 1]) / 2 if i + 1 < len(vals) else v + 1)
    return out

def positions_coarse(heap):
    """below the earliest entry and equal to each distinct time point (a `now` strictly between two time points or above the latest one behaves like the next lower time point under `<=`)"""
    vals = sorted(set(x[0] for x in heap))
    if not vals: return [F(0)]
    return [vals[0] - 1] + vals


def ops_from(heap, nsleeps, maxheap, maxs, nids=3, lookups=(C,), coarse_now=False):
    ids = []
    for x in heap:
        if x[1] not in ids: ids.append(x[1])
    fresh = [i for i in range(nids) if i not in ids][:1]
    out = []
    if len(heap) < maxheap and nsleeps < maxs:
        for i in ids + fresh:
            for tp in positions(heap):
                out.append((S, i, tp))
    for lk in lookups:
        for i in ids + fresh:
            out.append((lk, i))
    for now in (positions_coarse(heap) if coarse_now else positions(heap)):
        out.append((G, now))
    return out

def cover(depth, maxheap=3, maxs=6, lookups=(C,)):
    start = ()
    seen = {key(start): []}
    frontier = [(start, [])]
    for d in range(depth):
        nxt = []
        for heap, pre in frontier:
            ns = sum(1 for o in pre if o[0] == S)
            for op in ops_from(heap, ns, maxheap, maxs):
                h2 = step(heap, op)
                k = key(h2)
                if k not in seen:
                    seen[k] = pre + [op]
                    nxt.append((h2, pre + [op]))
        frontier = nxt
    return seen

def normalise(ops):
    vals = sorted(set(o[2] if o[0] == S else o[1] for o in ops if o[0] in (S, G)))
    rk = {v: i for i, v in enumerate(vals)}
    # canonical ids by first use
    ids = {}
    out = []
    for o in ops:
        if o[0] == S:
            if o[1] not in ids: ids[o[1]] = len(ids)
            out.append((S, ids[o[1]], rk[o[2]]))
        elif o[0] == G:
            out.append((G, rk[o[1]]))
        else:
            if o[1] not in ids: ids[o[1]] = len(ids)
            out.append((o[0], ids[o[1]]))
    return out, len(vals), len(ids)



def cover_vectors(max_prefix, steps='LG', lookups=(C,), maxheap=3, maxs=8, coarse_now=False):
    """for every abstract heap state with <= maxheap entries (alive or emptied) reachable at all: its shortest history (<= max_prefix
    operations) followed by every single operation of the kinds in `steps` (S sleep with every identifier in use / a fresh one at
    every position relative to the entries present, L lookup of every identifier in use / an unused one, G get_expired at every
    position); time values are then renumbered densely (the scheduler only compares them)"""
    seen = cover(12, maxheap, maxs)
    out = []
    nstates = 0
    for k, pre in seen.items():
        if len(pre) > max_prefix:
            continue
        nstates += 1
        heap = ()
        for o in pre:
            heap = step(heap, o)
        ns = sum(1 for o in pre if o[0] == S)
        for op in ops_from(heap, ns, maxheap, maxs, lookups=lookups, coarse_now=coarse_now):
            if ('S' if op[0] == S else 'G' if op[0] == G else 'L') not in steps:
                continue
            h, nvals, nid = normalise(pre + [op])
            if nvals > 8 or nid > 3:
                continue
            out.append(vec(h))
    return out, nstates, len(seen)


# ---------------------------------------------------------------- interval() generator + stop token
def interval_vectors(maxlen, full_len=None):
    """every sequence over {0 gen(), 1 fire timer, 2 request_stop} of length <= maxlen that respects the generator's documented
    precondition (gen() only while it is idle: not started or parked at co_yield, and not finished); sequences longer than
    full_len leave out immediate repetitions of the timer expiry / the stop request (the second one finds nothing to do)"""
    out = []
    if full_len is None:
        full_len = maxlen

    def rec(seq, state, stop, nf):
        out.append([len(seq)] + seq)
        if len(seq) == maxlen:
            return
        longer = len(seq) + 1 > full_len
        if state == 'idle' and nf < 6:
            rec(seq + [0], 'done' if stop else 'sleeping', stop, nf + 1)
        if not (longer and seq and seq[-1] == 1):
            rec(seq + [1], 'idle' if state == 'sleeping' else state, stop, nf)
        if not (longer and seq and seq[-1] == 2):
            rec(seq + [2], 'done' if (state == 'sleeping' and not stop) else state, True, nf)
    rec([], 'idle', False, 0)
    # a sequence whose prefix already ended the generator and emptied the schedule adds nothing after length full_len
    return out


# ---------------------------------------------------------------- start(awaitable) under the virtual clock
def start_vectors(tier):
    out = [[0, 0], [5, 0]]
    q = tier == 'quick'

    def add(t0, sl):
        v = [t0, len(sl)]
        for tp, act, work in sl:
            v += [tp, act, work]
        if v not in out:
            out.append(v)
    t0s = [0, 2] if q else [0, 2, 4]
    # one sleeper: future / exact / past time point; cancel of itself (already awake) and of an unused id; busy after wake-up
    for t0 in t0s:
        for tp in ([1, 2, 3] if q else [0, 1, 2, 3, 4, 5]):
            for act, work in ([(0, 0), (1, 2), (2, 0)] if q else itertools.product((0, 1, 2), (0, 2))):
                add(t0, [(tp, act, work)])
    # two sleepers: every weak order of the two time points, around t0; who cancels whom; who is busy after waking
    if q:
        combos = [((0, 0), (0, 0)), ((2, 0), (0, 0)), ((0, 1), (0, 0)), ((0, 0), (3, 0)), ((2, 0), (0, 3)), ((3, 1), (0, 0))]
        tps2 = [(1, 1), (1, 3), (3, 1)]
    else:
        combos = list(itertools.product([(0, 0), (2, 0), (0, 1), (1, 0), (3, 0), (0, 3), (2, 1), (1, 2)], [(0, 0), (3, 0), (0, 3), (1, 1)]))
        tps2 = [(1, 1), (1, 3), (3, 1), (3, 3), (1, 2), (2, 1), (3, 5), (5, 3)]
    for t0 in ([0, 2] if q else t0s):
        for tps in tps2:
            for acts, works in combos:
                if q and t0 == 2 and works != (0, 0):
                    continue
                add(t0, [(tps[0], acts[0], works[0]), (tps[1], acts[1], works[1])])
    # three sleepers
    if q:
        add(0, [(1, 0, 0), (2, 0, 0), (3, 0, 0)])
        add(0, [(3, 0, 0), (1, 3, 0), (2, 0, 0)])
        add(2, [(3, 0, 0), (1, 0, 3), (3, 1, 0)])
        add(0, [(2, 0, 0), (2, 0, 0), (1, 0, 0)])
    else:
        for t0 in (0, 2):
            for tps in weak_orders(3):
                for acts in [(0, 0, 0), (3, 0, 0), (2, 3, 1)]:
                    for works in [(0, 0, 0), (2, 0, 0), (0, 0, 2)]:
                        add(t0, [(2 * tps[i] + 1, acts[i], works[i]) for i in range(3)])
    # sleep_until everywhere; sleep_for (= now() + d) on a slice
    res = [[0] + v for v in out]
    step = 9 if q else 8
    res += [[1] + v for v in out[2::step]]
    return res


COVER_QUICK_PREFIX = 5


def order_vectors(k, every=1):
    out = []
    for i, perm in enumerate(itertools.permutations(range(k))):
        if i % every:
            continue
        out.append(vec([(S, 0, tp) for tp in perm] + [(G, now) for now in range(k)]))
    return out


def plan(tier):
    units = []
    mv = manual_vectors(tier)
    conc = [([0, 4, 0, 0, 3, 0, 1, 1, 4, 2, 4, 7], []),
            ([0, 5, 0, 0, 3, 0, 1, 1, 1, 1, 2, 0, 1, 0], []),
            ([1, 5, 0, 0, 5, 0, 1, 5, 0, 2, 1, 3, 1, 4, 6], []),
            ([0, 6, 0, 0, 1, 0, 0, 1, 1, 0, 4, 0, 4, 1, 1, 0], []),
            ([0, 3, 0, 0, 7, 0, 1, 0, 3, 2], [])]
    units.append(dict(engine='e1', name='h_manual', tu='C12.cpp', defines=['C12_MANUAL'], entry='h_manual', unwind=10, vectors=mv, concrete=conc,
                      space='manual mode: histories over {sleep_until/schedule(tp,id), cancel(id), cancel(id,e), remove(id), get_expired(now)} then destruction of the scheduler; '
                            'per history: canonical identifier assignment over <= 3 ids, every weak order of the time points (ties included), every position of `now` '
                            'relative to the time points scheduled so far (past, equal, between, later); %s' %
                            ('all histories of <= 2 operations, every second one of 3 operations (they start with a sleep) + slices of 5-operation histories: 2 sleeps with different ids then 3 cancels / cancel, full expiry, cancel; 3 strictly ordered sleeps over 2 ids then 2 cancels of one id'
                             if tier == 'quick' else
                             'all histories of <= 4 operations + 5-operation families SSLLL SSLGL SSLLG SSGLL SSLGG SSSLL SSSLG SSSGL SSSGG over 2 ids'),
                      data='none symbolic in this unit: the scheduler only compares time points and identifiers, so time values are enumerated up to order isomorphism; '
                           'exception tags are concrete',
                      bounds='<= 5 operations, <= 3 sleeps alive, 3 identifiers',
                      outside='longer histories; time points as symbolic data (measured: a symbolic get_expired outcome makes the vector size and the resolved promise '
                              'symbolic and CBMC does not terminate in 300 s for 1 sleep + 1 get_expired); thread / thread-pool mode'))
    # one step from every reachable abstract heap state (<= 3 entries, alive or emptied)
    if tier == 'quick':
        cv, nst, ntot = cover_vectors(COVER_QUICK_PREFIX, 'G', (C,), coarse_now=True)
        cv += cover_vectors(COVER_QUICK_PREFIX - 2, 'L', (C,), coarse_now=True)[0]
        what = ('the %d of them whose shortest history has <= %d operations, followed by every single get_expired (below the earliest and at each time point; positions strictly between two time points and above the '
                'latest one are in the thorough tier) and, for the states reached within %d operations, by every single cancel' % (nst, COVER_QUICK_PREFIX, COVER_QUICK_PREFIX - 2))
    else:
        cv, nst, ntot = cover_vectors(11, 'SLG', (C, CE, R))
        what = 'all of them, followed by every single sleep / cancel / cancel(e) / remove / get_expired'
    have = set(tuple(v) for v in mv)
    cv = [v for v in cv if tuple(v) not in have]
    units.append(dict(engine='e1', name='h_cover', tu='C12.cpp', defines=['C12_MANUAL'], entry='h_manual', unwind=200, vectors=cv,
                      concrete=[([0, 6, 0, 0, 1, 0, 1, 3, 0, 2, 5, 1, 1, 4, 1, 4, 2], []), ([0, 5, 0, 0, 1, 0, 1, 3, 0, 2, 5, 1, 1, 1, 0], [])],
                      space='manual mode, one step from every reachable heap state: the scheduler\'s heap is abstracted to its array of (time-point rank, identifier, alive / emptied) '
                            'entries; a breadth-first search over that abstraction (operations as in h_manual, libstdc++ push_heap / pop_heap order mirrored) finds %d states with <= 3 entries; '
                            'decided here: %s, each at every position relative to the entries present and with every identifier in use or unused; the history then ends with the destruction of the scheduler' % (ntot, what),
                      data='none symbolic (time values enumerated up to order isomorphism)',
                      bounds='heap of <= 3 entries (alive or emptied) before the step, <= 8 sleeps per history, 3 identifiers',
                      outside='states with more than 3 heap entries; two consecutive steps from a state other than those that are themselves shortest histories'))
    # heap order: k sleeps in every arrival order, then one get_expired per time value in ascending order
    ov = order_vectors(6, 12 if tier == 'quick' else 1) + (order_vectors(5, 1) if tier != 'quick' else [])
    units.append(dict(engine='e1', name='h_order', tu='C12.cpp', defines=['C12_MANUAL'], entry='h_manual', unwind=200, vectors=ov,
                      concrete=[([0, 12, 0, 0, 0, 0, 0, 3, 0, 0, 1, 0, 0, 2, 0, 0, 4, 0, 0, 5, 4, 0, 4, 1, 4, 2, 4, 3, 4, 4, 4, 5], [])],
                      space='manual mode, heap order: k pending sleeps with pairwise different time points scheduled in a given arrival order (a permutation of 0..k-1), then get_expired(now) for now = 0, 1, .. k-1: '
                            'each call must hand out exactly the sleep that is due; %s' %
                            ('k = 6, every 12th of the 720 arrival orders (enumeration order of itertools.permutations, offset 0)' if tier == 'quick' else
                             'k = 5 and k = 6: every arrival order'),
                      data='none symbolic', bounds='<= 6 pending sleeps, distinct time points, one identifier',
                      outside='more pending sleeps; ties; cancels interleaved with a deep heap (h_cover has them for <= 3 entries)'))
    L = 4 if tier == 'quick' else 6
    units.append(dict(engine='e1', name='h_interval', tu='C12.cpp', defines=['C12_INTERVAL'], entry='h_interval', unwind=10, vectors=interval_vectors(L, 3 if tier == 'quick' else 5),
                      concrete=[([4, 0, 1, 0, 1], []), ([2, 0, 1], []), ([1, 0], []), ([3, 1, 0, 1], [])],
                      space='interval(10ms, stop_token) driven through its future interface: every sequence over {gen(), timer expiry (get_expired(max) + resolve), '
                            'request_stop()} of length <= %d in which gen() is only called while the generator is idle (beyond length %d without immediately repeated expiry / stop); then destruction (generator first when it is '
                            'parked at co_yield or finished, scheduler first when it still sleeps)' % (L, 3 if tier == 'quick' else 5),
                      data='none (the tick value is an uninitialised counter in cocls and is not observed)',
                      bounds='<= %d operations, one generator, one stop source' % L,
                      outside='request_stop() from another thread while the generator runs; destruction of a sleeping generator (documented as not allowed)'))
    units.append(dict(engine='e1', name='h_start', tu='C12.cpp', defines=['C12_START'], entry='h_start', unwind=14, vectors=start_vectors(tier),
                      concrete=[([0, 0, 0], []), ([0, 0, 1, 3, 0, 0], []), ([1, 2, 2, 1, 0, 3, 3, 0, 0], []), ([0, 0, 2, 1, 2, 0, 3, 0, 0], []), ([1, 0, 3, 2, 0, 0, 3, 0, 0, 1, 0, 0], [])],
                      space='single-thread start(awaitable) under the virtual clock: initial clock t0, n <= 3 scripted sleepers (sleep_until(tp, id), on a slice sleep_for(tp - t0, id); after a regular '
                            'wake-up burn `work` ticks, then optionally cancel another sleeper / itself / an unused id); the awaitable awaits all of them',
                      data='none symbolic (time values enumerated: future, equal and past time points, ties, a busy thread that makes later sleepers late)',
                      bounds='<= 3 sleepers, time values 0..7',
                      outside='start() in several threads / recursively; a second start() on the same scheduler (coroutine frame in alloca storage); thread and thread-pool mode (needs the C11 thread model)'))
    K = 8
    vm = [[0, d, e, k] for d in (1, 2) for e in range(5) for k in range(K)] + [[1, d, e, 0] for d in range(3) for e in range(5)]
    if tier == 'quick':
        vm = [v for v in vm if v[0] == 1 or (v[1] + v[2] + v[3]) % 2 == 0]      # every second (deadline, foreign time point, position) combination
    units.append(dict(engine='e1', name='h_start_mt', tu='C12.cpp', defines=['C12_START'], entry='h_start_mt', unwind=14, vectors=vm,
                      concrete=[([0, 1, 0, 1], []), ([0, 2, 1, 3], []), ([1, 1, 0, 0], []), ([1, 0, 2, 0], []), ([1, 2, 4, 0], []), ([0, 1, 3, 7], [])],
                      space='the scheduling thread (worker loop of start(awaitable), virtual clock, one local sleeper with deadline D in {4, 8} or none) against another thread that calls sleep_until(e), e in {2..10}: '
                            'the other thread\'s complete call is placed in front of the k-th acquisition of the scheduler mutex by the scheduling thread (k = 1..%d), or while the scheduling thread sits in its timed wait '
                            '(schedule() must wake it when the new entry is the earliest); %s' % (K, 'every second combination of the lock-region placements, all timed-wait placements' if tier == 'quick' else 'full product'),
                      data='none symbolic (time values enumerated)', bounds='one local sleeper, one sleep scheduled by the other thread, one pre-emption',
                      outside='a real second OS thread running the worker (thread / pool mode start-up and shutdown); several foreign sleeps'))
    return units
