// C11 - thread pool: every submission runs exactly once on a worker, or is cancelled exactly once; stop()/~thread_pool join all
// workers for every timing, also when called from a worker.
// History harness over the cooperative thread model (rt/rt.h, rt/native_threads.cpp): the pool's std::threads only run when the
// history says so (vf_thread_run) or when stop() joins them; a worker runs until it blocks in condition_variable::wait or returns.
// A skeleton vector selects: pool size, whom notify_one wakes, and a history over
//   submit(kind, inner action)   kinds: co_await pool | run(fn) | run_detached(fn) | run(async) | co_await pool(awaitable) | resume(suspend_point)
//                                inner action of the job when it runs on a worker: none | pool.stop() | submit another job | delete the pool |
//                                pool.stop() then submit another job
//   run worker t                 (must be runnable: not yet started, or parked and notified)
//   stop()                       from the harness thread
// then optionally drains (runs every runnable worker until all are idle) and destroys the pool. Job payloads are symbolic.
// Two entries share the driver: h_pool (histories in which every raw-handle job - run(async), pool(awaitable), resume() - gets to run)
// and h_raw_cancel (the few histories in which such a job meets a stopped pool: candidate defect D9, own assertion texts).
#include "vf_cocls.h"
#include <cocls/thread_pool.h>
#include <cocls/future.h>
#include <cocls/async.h>
using namespace cocls;

namespace {
constexpr int MAXJ = 6;          // <= 3 submissions by the history + those submitted by jobs
constexpr int MAXOPS = 6;
enum Kind { K_COAWAIT = 0, K_RUN_FN, K_DETACHED, K_RUN_ASYNC, K_POOL_AWT, K_RESUME_SP, NKIND };
enum Inner { I_NONE = 0, I_STOP, I_SUBMIT, I_DESTROY, I_STOP_SUBMIT, NINNER };

struct Job {
    int kind = -1, inner = I_NONE, val = 0;
    int ran = 0;                 // times the job's body was executed
    int cancelled = 0;           // times the cancellation was observed (coroutine saw await_canceled_exception / closure destroyed unrun)
    int released = 0;            // run_detached: times the owning closure was destroyed
    int tid = -1;                // modelled thread that executed the body
    int got = 0;                 // pool(awaitable): value delivered by the awaited future
    future<int> f;               // run(fn) / run(async): the returned future
    future<int> src;             // pool(awaitable): the awaited future ...
    promise<int> p;              // ... and its promise
    vf_fake_coro fake;           // resume(suspend_point): the handle
};
struct Ctx {
    thread_pool *pool = nullptr;
    int nthreads = 0;
    bool stop_requested = false; // somebody has called stop() or the destructor
    bool stop_returned = false;  // ... and that call has returned
    bool d9 = false;             // entry h_raw_cancel
    int njobs = 0;
    Job jobs[MAXJ];
};
Ctx *G;

void submit(int kind, int inner);

void note_cancel() {
    VF_ASSERT(G->stop_requested, "C11 a job is cancelled only when the pool has been stopped");
    // a cancellation handler may look at the pool (it is being stopped, not necessarily destroyed): this must neither block nor report a running pool
    if (G->pool) VF_ASSERT(G->pool->is_stopped(), "C11 a cancelled job that asks the pool finds it stopped (and is not blocked by the stop() in progress)");
}

void check_workers_after_stop() {
    int me = vf_thread_self();
    for (int i = 1; i <= G->nthreads; i++) {
        if (i == me) VF_ASSERT(vf_thread_detached(i), "C11 a worker that stops its own pool detaches itself");
        else VF_ASSERT(vf_thread_state(i) == 5, "C11 stop() returns only after every other worker has terminated");
    }
}
void do_stop() {
    G->stop_requested = true;
    G->pool->stop();
    check_workers_after_stop();
    G->stop_returned = true;
}
void do_destroy() {
    G->stop_requested = true;
    thread_pool *p = G->pool;
    G->pool = nullptr;
    delete p;
    check_workers_after_stop();
    G->stop_returned = true;
}

// what every job does when it finally runs
void body(int j) {
    Job &J = G->jobs[j];
    J.ran++;
    J.tid = vf_thread_self();
    switch (J.inner) {
    case I_STOP: do_stop(); break;
    case I_SUBMIT: submit(K_DETACHED, I_NONE); break;
    case I_DESTROY: do_destroy(); break;
    case I_STOP_SUBMIT: do_stop(); submit(K_DETACHED, I_NONE); break;      // a worker submits to the pool it has just stopped
    default: break;
    }
}

async<void> co_job(int j) {
    bool cancelled = false;
    try { co_await *G->pool; } catch (const await_canceled_exception &) { cancelled = true; }
    if (cancelled) { G->jobs[j].cancelled++; note_cancel(); }
    else body(j);
}
async<int> co_val(int j) {
    body(j);
    co_return G->jobs[j].val;
}
async<void> co_awt(int j) {
    Job &J = G->jobs[j];
    J.got = co_await (*G->pool)(J.src);
    body(j);
}
struct Token {                   // owned by the run_detached closure
    int j; bool own;
    explicit Token(int jj) : j(jj), own(true) {}
    Token(Token &&o) noexcept : j(o.j), own(o.own) { o.own = false; }
    Token(const Token &) = delete;
    ~Token() {
        if (!own) return;
        Job &J = G->jobs[j];
        J.released++;
        if (!J.ran) { J.cancelled++; note_cancel(); }
    }
};
extern "C" void c11_fake_resume(vf_fake_coro *f) { f->resumed++; body(f->id); }

void submit(int kind, int inner) {
    VF_ASSERT(G->njobs < MAXJ && G->pool != nullptr, "VF_SPEC too many jobs / submission after the pool is gone");
    VF_ASSUME(G->njobs < MAXJ && G->pool != nullptr);
    const int j = G->njobs++;
    Job &J = G->jobs[j];
    J.kind = kind; J.inner = inner; J.val = nondet_int();
    thread_pool &pool = *G->pool;
    switch (kind) {
    case K_COAWAIT: co_job(j).detach(); break;
    case K_RUN_FN: J.f << [&] { return pool.run([j] { body(j); return G->jobs[j].val; }); }; break;
    case K_DETACHED: pool.run_detached([t = Token(j)] { body(t.j); }); break;
    case K_RUN_ASYNC: J.f << [&] { return pool.run(co_val(j)); }; break;
    case K_POOL_AWT:
        J.p = J.src.get_promise();
        co_awt(j).detach();      // suspends on pool(src)
        J.p(J.val);              // resolving src hands the coroutine to the pool
        break;
    default: {
        suspend_point<void> sp(vf_fake_handle(J.fake, j));
        J.fake.resume_fn = &c11_fake_resume;
        pool.resume(sp);
        break; }
    }
}

int value_state(future<int> &f, int expect) {      // 1 = carries `expect`, 2 = no value (broken promise), 0 = anything else
    try { return f.value() == expect ? 1 : 0; } catch (const await_canceled_exception &) { return 2; } catch (...) { return 0; }
}

// invariants that hold after every step
void check_running() {
    for (int j = 0; j < G->njobs; j++) {
        Job &J = G->jobs[j];
        VF_ASSERT(J.ran <= 1, "C11 a job is never executed twice");
        VF_ASSERT(J.cancelled <= 1, "C11 a job is never cancelled twice");
        VF_ASSERT(J.ran + J.cancelled <= 1, "C11 a job is not both executed and cancelled");
        if (J.ran) VF_ASSERT(J.tid >= 1 && J.tid <= G->nthreads, "C11 a job is executed on one of the pool's worker threads");
    }
}
// between two steps of the history (nothing is running, no coroutine queue is active): once stop() has returned, nothing waits for the pool any more
void check_settled() {
    if (!G->stop_returned) return;
    for (int j = 0; j < G->njobs; j++) {
        Job &J = G->jobs[j];
        bool settled = true;
        if (J.kind == K_COAWAIT || J.kind == K_DETACHED) settled = (J.ran + J.cancelled == 1);
        else if (J.kind == K_RUN_FN) settled = J.f.ready();
        VF_ASSERT(settled, "C11 after stop() has returned no submitted job is left pending: each has run or has been cancelled (no waiter hangs until the pool object dies)");
    }
}

long summary() {
    long s = 0;
    for (int j = 0; j < G->njobs; j++) s = s * 4 + G->jobs[j].ran + 2 * G->jobs[j].cancelled;
    for (int i = 1; i <= G->nthreads; i++) s = s * 8 + vf_thread_state(i);
    return s;
}

void check_final(bool d9, long base);

void run_history(bool d9) {
    vf_warmup();
    Ctx cx; G = &cx; cx.d9 = d9;
    const int n = 1 + vf_choice(3);
    vf_cond_pick(vf_choice(2));
    const int nops = vf_choice(MAXOPS + 1);
    const long base = vf_live_allocs();
    cx.nthreads = n;
    cx.pool = new thread_pool(n);
    VF_ASSERT(vf_thread_count() == n, "C11 the pool starts the requested number of workers");
    for (int step = 0; step < nops; step++) {
        int op = vf_choice(NKIND + 2);
        if (op < NKIND) { int inner = vf_choice(NINNER); submit(op, inner); }
        else if (op == NKIND) { int t = 1 + vf_choice(n); vf_thread_run(t); }
        else do_stop();
        check_running();
        check_settled();
        vf_out(summary());
    }
    if (vf_choice(2)) {          // drain: let every runnable worker run until all are idle
        for (int k = 0; k < 10; k++) {
            int r = 0;
            for (int i = 1; i <= n; i++) if (!r && vf_thread_runnable(i)) r = i;
            if (!r) break;
            vf_thread_run(r);
        }
        check_running();
        if (!cx.stop_requested)
            for (int j = 0; j < cx.njobs; j++)
                VF_ASSERT(cx.jobs[j].ran == 1, "C11 no job is forgotten: the pool is running, all workers are idle, yet a submitted job has not run");
        check_settled();
        vf_out(summary());
    }
    if (cx.pool) do_destroy();
    check_final(d9, base);
    vf_choice_end();
    vf_witness();
}

void check_final(bool d9, long base) {
    Ctx &cx = *G;
    const int n = cx.nthreads;
    check_running();
    vf_out(summary());
    for (int i = 1; i <= n; i++)
        VF_ASSERT(vf_thread_state(i) == 5, "C11 after the pool is destroyed every worker has terminated");
    for (int j = 0; j < cx.njobs; j++) {
        Job &J = cx.jobs[j];
        switch (J.kind) {
        case K_COAWAIT:
            VF_ASSERT(J.ran + J.cancelled == 1, "C11 co_await pool: the coroutine ran on a worker or was resumed with await_canceled_exception, exactly once");
            break;
        case K_RUN_FN: {
            VF_ASSERT(J.f.ready(), "C11 run(fn): the returned future is resolved once the pool is gone (no waiter left hanging)");
            VF_ASSUME(J.f.ready());
            int vs = value_state(J.f, J.val);
            VF_ASSERT(vs == (J.ran ? 1 : 2), "C11 run(fn): the future carries the function's result if it ran, and reports a broken promise if it was cancelled");
            vf_out(vs);
            break; }
        case K_DETACHED:
            VF_ASSERT(J.ran + J.cancelled == 1, "C11 run_detached: the function ran on a worker or was discarded unrun, exactly once");
            VF_ASSERT(J.released == 1, "C11 run_detached: the function object is destroyed exactly once");
            break;
        case K_RUN_ASYNC:
            if (d9) {
                VF_ASSERT(!J.f.pending(), "C11 D9 run(async) meets a stopped pool (rejected by enqueue or discarded by stop): the coroutine is dropped and the returned future stays pending forever");
                VF_ASSUME(!J.f.pending());
            } else {
                VF_ASSERT(!J.f.pending(), "C11 run(async): the returned future is resolved once the pool is gone (no waiter left hanging)");
                VF_ASSUME(!J.f.pending());
            }
            { int vs = value_state(J.f, J.val);
              VF_ASSERT(vs == (J.ran ? 1 : 2), "C11 run(async): the future carries the coroutine's result if it ran, and reports a broken promise if it was cancelled");
              vf_out(vs); }
            break;
        case K_POOL_AWT:
            if (d9) {
                VF_ASSERT(J.ran + J.cancelled == 1, "C11 D9 co_await pool(awaitable) meets a stopped pool (rejected by enqueue or discarded by stop): the coroutine is dropped, never resumed, never cancelled");
                VF_ASSUME(J.ran + J.cancelled == 1);
            } else {
                VF_ASSERT(J.ran + J.cancelled == 1, "C11 co_await pool(awaitable): the coroutine continued on a worker or was cancelled, exactly once");
            }
            if (J.ran) VF_ASSERT(J.got == J.val, "C11 co_await pool(awaitable) delivers the awaited value");
            break;
        default:
            VF_ASSERT(J.fake.resumed == J.ran && J.fake.destroyed <= 1, "C11 resume(suspend_point): handle resumed at most once");
            if (d9) {
                VF_ASSERT(J.fake.resumed + J.fake.destroyed == 1, "C11 D9 resume(suspend_point) meets a stopped pool (rejected by enqueue or discarded by stop): the handle is dropped, neither resumed nor destroyed");
                VF_ASSUME(J.fake.resumed + J.fake.destroyed == 1);
            } else {
                VF_ASSERT(J.fake.resumed + J.fake.destroyed == 1, "C11 resume(suspend_point): the handle is resumed on a worker (or disposed of), exactly once");
            }
            break;
        }
    }
    VF_ASSERT(vf_live_allocs() == base, "C11 nothing leaked (closures, coroutine frames, thread start states, workers' thread-local queues)");
}

// A submission from one thread against stop() from another: the complete stop() is injected in front of the k-th mutex acquisition of the
// submission (vf_inject_arm; every access of enqueue()/stop() to the pool's state is made under its mutex), or happens after it.
// Whatever the order, once stop() has returned the job has run or has been cancelled - it is not left in the queue of a pool without workers.
void injected_stop() { do_stop(); }
void stop_race() {
    vf_warmup();
    Ctx cx; G = &cx;
    const int n = 1 + vf_choice(2);
    vf_cond_pick(0);
    const int parked = vf_choice(2);         // 0: the workers have not run yet, 1: every worker is parked in its wait
    const int kind = vf_choice(3);           // co_await pool | run(fn) | run_detached(fn)
    const int k = 1 + vf_choice(3);
    const int drain = vf_choice(2);
    const long base = vf_live_allocs();
    cx.nthreads = n;
    cx.pool = new thread_pool(n);
    if (parked) for (int i = 1; i <= n; i++) vf_thread_run(i);
    vf_inject_arm(&injected_stop, k);
    submit(kind, I_NONE);
    if (vf_inject_pending()) { vf_inject_disarm(); do_stop(); }
    check_running();
    check_settled();
    vf_out(summary());
    if (drain) {
        for (int t = 0; t < 6; t++) {
            int r = 0;
            for (int i = 1; i <= n; i++) if (!r && vf_thread_runnable(i)) r = i;
            if (!r) break;
            vf_thread_run(r);
        }
        check_running();
        check_settled();
    }
    do_destroy();
    check_final(false, base);
    vf_choice_end();
    vf_witness();
}

// A batch of units handed to the pool in ONE suspend point (pool.resume(sp)) while several workers are parked. The unit that happens to run first does not
// return before its siblings have run (a rendezvous): it lets the other runnable workers run meanwhile. Every unit must be executed - a unit queued on a
// running pool must not wait for a busy worker while another worker sleeps un-notified.
int bw_first = -1, bw_m = 0;
vf_fake_coro bw_fake[3];
extern "C" void c11_bw_resume(vf_fake_coro *f) {
    f->resumed++;
    const int me = vf_thread_self();
    VF_ASSERT(me >= 1 && me <= G->nthreads, "C11 a job is executed on one of the pool's worker threads");
    if (bw_first >= 0) return;
    bw_first = f->id;
    for (int tries = 0; tries < 4; tries++) {
        bool all = true;
        for (int i = 0; i < bw_m; i++) if (i != f->id && !bw_fake[i].resumed) all = false;
        if (all) return;
        int r = 0;
        for (int i = 1; i <= G->nthreads; i++) if (!r && i != me && vf_thread_runnable(i)) r = i;
        VF_ASSERT(r != 0, "C11 a unit queued on a running pool is never executed although a worker is idle (it was not notified: lost wake-up)");
        VF_ASSUME(r != 0);
        vf_thread_run(r);
    }
}
void batch_wake() {
    vf_warmup();
    Ctx cx; G = &cx;
    const int n = 2 + vf_choice(2);
    bw_m = 2 + vf_choice(2);
    vf_cond_pick(vf_choice(2));
    bw_first = -1;
    const long base = vf_live_allocs();
    cx.nthreads = n;
    cx.pool = new thread_pool(n);
    for (int i = 1; i <= n; i++) vf_thread_run(i);             // every worker is parked in its wait
    {
        suspend_point<void> sp;
        for (int i = 0; i < bw_m; i++) { sp << vf_fake_handle(bw_fake[i], i); bw_fake[i].resume_fn = &c11_bw_resume; }
        cx.pool->resume(sp);
    }
    for (int t = 0; t < 8; t++) {
        int r = 0;
        for (int i = 1; i <= n; i++) if (!r && vf_thread_runnable(i)) r = i;
        if (!r) break;
        vf_thread_run(r);
    }
    for (int i = 0; i < bw_m; i++) { VF_ASSERT(bw_fake[i].resumed == 1, "C11 resume(suspend_point): every handle of the batch is resumed on a worker exactly once"); vf_out(bw_fake[i].resumed); }
    do_destroy();
    for (int i = 1; i <= n; i++) VF_ASSERT(vf_thread_state(i) == 5, "C11 after the pool is destroyed every worker has terminated");
    VF_ASSERT(vf_live_allocs() == base, "C11 nothing leaked (closures, coroutine frames, thread start states, workers' thread-local queues)");
    vf_choice_end();
    vf_witness();
}
}


#ifdef VF_DISCIPLINE
// C03 (b) for the thread pool: lock discipline. The pool object (task queue header, worker list, exit flag) is registered as protected by the
// pool mutex after construction; with -DVF_DISCIPLINE every translated access to it asserts that the mutex is held. Operations come from the
// harness thread and from jobs running on workers: submissions, stop(), the state queries is_stopped() / any_enqueued() (also through
// thread_pool::current), and a coroutine job that does `co_await thread_pool::current()` (re-schedule on the pool it runs in).
// vector: [n-1, nops, ops...]: 0 k = submit run_detached job whose body does action k; 1 k = submit coroutine job (co_await pool) with action k;
//         2 t = run worker t+1; 3 = stop() from the harness thread; 4 = is_stopped() + any_enqueued() from the harness thread
//         action: 0 none, 1 current::is_stopped(), 2 current::any_enqueued(), 3 co_await current() (coroutine jobs only), 4 submit another job
struct TP : thread_pool { using thread_pool::thread_pool; std::mutex &mx() { return _mx; } };
int disc_ran = 0;
void disc_action(int k) {
    disc_ran++;
    if (k == 1) vf_out(thread_pool::current::is_stopped());
    else if (k == 2) vf_out(thread_pool::current::any_enqueued());
    else if (k == 4 && G->pool && !G->stop_requested) G->pool->run_detached([] { disc_ran++; });
}
async<void> disc_co(int k) {
    bool cancelled = false;
    try { co_await *G->pool; } catch (const await_canceled_exception &) { cancelled = true; }
    if (cancelled) co_return;
    if (k == 3) {
        try { co_await thread_pool::current(); } catch (const await_canceled_exception &) { cancelled = true; }
        disc_ran++;
    } else disc_action(k);
}
void disc_pool() {
    vf_warmup();
    Ctx cx; G = &cx;
    const int n = 1 + vf_choice(2);
    vf_cond_pick(0);
    const int nops = vf_choice(6);
    cx.nthreads = n;
    disc_ran = 0;
    TP *tp = new TP(n);
    cx.pool = tp;
    vf_protect_obj(static_cast<thread_pool *>(tp), sizeof(thread_pool), &tp->mx());
    for (int step = 0; step < nops; step++) {
        const int op = vf_choice(5);
        if (op == 0) { const int k = vf_choice(5); tp->run_detached([k] { disc_action(k); }); }
        else if (op == 1) { const int k = vf_choice(5); disc_co(k).detach(); }
        else if (op == 2) { const int t = 1 + vf_choice(n); VF_ASSERT(vf_thread_runnable(t), "VF_SPEC worker not runnable"); VF_ASSUME(vf_thread_runnable(t)); vf_thread_run(t); }
        else if (op == 3) { cx.stop_requested = true; tp->stop(); }
        else { vf_out(tp->is_stopped()); vf_out(tp->any_enqueued()); }
        vf_out(disc_ran);
    }
    cx.stop_requested = true;
    tp->stop();
    vf_unprotect_all();          // the destructor runs when no other thread can reach the pool any more
    cx.pool = nullptr;
    delete tp;
    vf_choice_end();
    vf_witness();
}
extern "C" void h_disc_pool() { disc_pool(); }
#endif
// stop() of another thread while a worker is on its way into condition_variable::wait (it has found nothing to do and no exit request, holds the mutex, is not
// yet registered as a waiter): pre-park hook of the runtime model. Whatever stop() does before it needs the pool mutex happens in that window; a correct stop()
// needs the mutex first, i.e. it waits until the worker waits. vector: [n-1, job kind (0 none, 1 co_await pool, 2 run(fn), 3 run_detached), w-1 = the worker in whose
// wait stop() lands, others (0: the other workers have not run yet, 1: they are parked)]
void prepark_stop() {
    vf_warmup();
    Ctx cx; G = &cx;
    const int n = 1 + vf_choice(3);
    vf_cond_pick(0);
    const int jk = vf_choice(4);
    const int w = 1 + vf_choice(n);
    const int others = vf_choice(2);
    const long base = vf_live_allocs();
    cx.nthreads = n;
    cx.pool = new thread_pool(n);
    if (others) for (int i = 1; i <= n; i++) if (i != w) vf_thread_run(i);
    if (jk) submit(jk == 1 ? K_COAWAIT : jk == 2 ? K_RUN_FN : K_DETACHED, I_NONE);
    vf_prepark_arm(&injected_stop);
    if (vf_thread_runnable(w)) vf_thread_run(w);           // runs the job (if it gets it), then goes to wait: stop() lands there
    if (vf_prepark_pending()) { VF_ASSERT(false, "VF_SPEC the selected worker did not reach its wait"); }
    VF_ASSERT(cx.stop_returned, "C11 stop() issued while a worker is entering its wait returns (no lost wake-up, no deadlock in join)");
    check_running();
    check_settled();
    vf_out(summary());
    do_destroy();
    check_final(false, base);
    vf_choice_end();
    vf_witness();
}
extern "C" void h_stop_prepark() { prepark_stop(); }
extern "C" void h_batch_wake() { batch_wake(); }
extern "C" void h_pool() { run_history(false); }
extern "C" void h_raw_cancel() { run_history(true); }
extern "C" void h_stop_race() { stop_race(); }
