// C15 (a listener subscribing on another thread than the collector) - E2 scenarios.
// Listener 0 (a connected callback) is already waiting (vf_setup). Thread 1 is the collector: it emits one value. Thread 2 connects
// listener 1 (a callback that keeps listening). vf_check emits once more, then drops every strong handle.
// A listener that does nothing but keep listening misses no value emitted while it is waiting: listener 1 must receive the final value
// (and possibly the concurrent one); listener 0 receives both; after the disconnect the callback objects are released (lifetime query).
#include "vf2.h"
#include <cocls/signal.h>
#include <new>
using namespace cocls;
using Sig = signal<int>;
alignas(Sig) static unsigned char sgbuf[sizeof(Sig)];
alignas(Sig::collector) static unsigned char colbuf[sizeof(Sig::collector)];
static Sig *sg; static Sig::collector *col;
static int calls[2], last[2], sum[2];
static bool cb0(int v) { calls[0]++; last[0] = v; sum[0] += v; return true; }
static bool cb1(int v) { calls[1]++; last[1] = v; sum[1] += v; return true; }
extern "C" void vf_setup() {
    sg = new (sgbuf) Sig();
    col = new (colbuf) Sig::collector(sg->get_collector());
    sg->connect(&cb0);
}
extern "C" void vf_thread_1() { (*col)(5); }
extern "C" void vf_thread_2() { sg->connect(&cb1); }
extern "C" void vf_check() {
    vf_assert(calls[0] == 1 && last[0] == 5, "C15 a listener waiting at the moment of an emission did not receive exactly that value once");
    (*col)(9);
    vf_assert(calls[0] == 2 && last[0] == 9, "C15 a listener that only re-awaits missed a value");
    vf_assert(calls[1] >= 1 && last[1] == 9, "C15 a listener connected on another thread receives neither the concurrent emission nor the next one (lost listener)");
    vf_assert(calls[1] <= 2 && sum[1] == (calls[1] == 2 ? 14 : 9), "C15 a listener received a value more than once or a value that was not emitted");
    col->~collector(); sg->~Sig();                 // last strong handles gone: the callbacks are released
    vf_assert(calls[0] == 2 && calls[1] <= 2, "C15 a callback was called for the disconnect");
    vf_reach("C15 mt check reached");
}
