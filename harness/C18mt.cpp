// C18 (completion registered while the awaited future is resolved concurrently on another thread) - E2 scenarios.
// ADAPTER: 0 future_conv (free-function converter) | 1 make_promise callback | 2 discard
// Thread 2 registers the completion; the operation it starts hands its promise to thread 1 (through a flag), which resolves it while the
// registration is still in progress or later. vf_check resolves what is still unresolved. The completion must run exactly once.
#include "vf2.h"
#include <cocls/future.h>
#include <cocls/future_conv.h>
#include <atomic>
using namespace cocls;
#ifndef ADAPTER
#define ADAPTER 0
#endif
static promise<int> src;
static std::atomic<int> pub;
static int calls, got;
static int conv_fn(int &v) { calls++; got = v; return v + 1000; }
static future_conv<&conv_fn> conv;
static future<int> outer;
static future<int> start_op() { return future<int>([&](promise<int> p) { src = std::move(p); pub.store(1); }); }
extern "C" void vf_setup() {}
extern "C" void vf_thread_1() { if (pub.load()) src(5); }
extern "C" void vf_thread_2() {
#if ADAPTER == 0
    outer << [&] { return conv << [&] { return start_op(); }; };
#elif ADAPTER == 1
    promise<int> p = make_promise<int>([](future<int> &f) { calls++; got = f.has_value() ? *f : -1; });
    src = std::move(p); pub.store(1);
#else
    discard([&] { return start_op(); });
#endif
}
extern "C" void vf_check() {
    { promise<int> last(std::move(src)); last(5); }          // resolve now if thread 1 did not
#if ADAPTER == 0
    vf_assert(calls == 1 && got == 5, "C18 the converter did not run exactly once with the source's value");
    vf_assert(outer.ready(), "C18 the outer future of a conversion stays pending although the source is resolved");
#elif ADAPTER == 1
    vf_assert(calls == 1 && got == 5, "C18 the make_promise callback did not run exactly once with the value");
#endif
    vf_reach("C18 mt check reached");
}
