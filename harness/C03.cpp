// C03 (b) - lock discipline of the mutex-protected components (queue, limited_queue, scheduler, publisher).
// The symbolic build is compiled with -DVF_DISCIPLINE: every translated memory access asserts that the component object and every
// heap block allocated while its mutex was held are only touched with that mutex held (rt/rt.h rt_access). Together with the
// lock-region histories of C09/C10/C12/C16 this is the data-race verdict for these files (DESIGN.md 3.7): accesses that are
// always made under one common lock cannot race. Every public operation is issued from states that a short history produces.
#include "vf_cocls.h"
#include <cocls/queue.h>
#include <cocls/scheduler.h>
#include <cocls/publisher.h>
using namespace cocls;

namespace {
// observation only: expose the protected mutex member so that it can be registered
struct Q : queue<int> { std::mutex &mx() { return _mx; } };
struct LQ : limited_queue<int> { using limited_queue<int>::limited_queue; using queue<int>::unblock_pop; std::mutex &mx() { return _mx; } };
struct PQ : publisher<long>::queue { using publisher<long>::queue::queue; std::mutex &mx() { return _mx; } };
struct SCH : scheduler { std::mutex &mx() { return _mx; } };
constexpr int MAXN = 6;
}

#if C03_PART == 1
extern "C" void h_disc_queue() {
    vf_warmup();
    const int nops = vf_choice(MAXN + 1);
    future<int> pops[MAXN];
    {
        Q q;
        vf_protect(&q, sizeof(q), &q.mx());
        int np = 0;
        for (int i = 0; i < nops; i++) {
            switch (vf_choice(5)) {
                case 0: q.push(nondet_int()); break;
                case 1: pops[np++] << [&] { return q.pop(); }; break;
                case 2: q.unblock_pop(vf_make_exc(1)); break;
                case 3: vf_out((long)q.size()); break;
                default: vf_out(q.empty()); break;
            }
        }
        vf_unprotect_all();
    }
    vf_choice_end(); vf_witness();
}
#elif C03_PART == 2
extern "C" void h_disc_lqueue() {
    vf_warmup();
    const int limit = 1 + vf_choice(2);
    const int nops = vf_choice(MAXN + 1);
    future<int> pops[MAXN]; future<void> pushes[MAXN];
    {
        LQ q(limit);
        vf_protect(&q, sizeof(q), &q.mx());
        int np = 0, nu = 0;
        for (int i = 0; i < nops; i++) {
            switch (vf_choice(6)) {
                case 0: { int v = nondet_int(); pushes[nu++] << [&] { return q.push(v); }; break; }
                case 1: pops[np++] << [&] { return q.pop(); }; break;
                case 2: q.unblock_pop(vf_make_exc(1)); break;
                case 3: q.unblock_push(vf_make_exc(2)); break;
                case 4: vf_out((long)q.size()); break;
                default: vf_out(q.empty()); break;
            }
        }
        vf_unprotect_all();
    }
    vf_choice_end(); vf_witness();
}
#elif C03_PART == 3
extern "C" void h_disc_sched() {
    vf_warmup();
    const int nops = vf_choice(MAXN + 1);
    future<void> sl[MAXN];
    int ids[3];
    {
        SCH sch;
        vf_protect(&sch, sizeof(sch), &sch.mx());
        int ns = 0;
        for (int i = 0; i < nops; i++) {
            int k = vf_choice(4);
            int id = vf_choice(3);
            int t = vf_choice(4);
            auto tp = std::chrono::system_clock::time_point(std::chrono::seconds(t));
            if (k == 0) sl[ns++] << [&] { return sch.sleep_until(tp, &ids[id]); };
            else if (k == 1) { bool r = sch.cancel(&ids[id]); vf_out(r); }
            else if (k == 2) { auto p = sch.remove(&ids[id]); vf_out(!!p); }
            else {
                auto e = sch.get_expired(tp);
                if (std::holds_alternative<scheduler::promise>(e)) std::get<scheduler::promise>(e)();
            }
        }
        vf_unprotect_all();
    }
    vf_choice_end(); vf_witness();
}
#elif C03_PART == 4
extern "C" void h_disc_pub() {
    vf_warmup();
    const int nops = vf_choice(MAXN + 1);
    {
        publisher<long> pub(2, 1);
        auto q = pub.get_queue();
        vf_protect(q.get(), sizeof(PQ), &static_cast<PQ *>(q.get())->mx());
        {
            subscriber<long> a(pub);
            std::optional<subscriber<long>> b;
            for (int i = 0; i < nops; i++) {
                switch (vf_choice(8)) {
                    case 0: pub.publish(nondet_long()); break;
                    case 1: { long v[2] = {nondet_long(), nondet_long()}; pub.publish(&v[0], &v[2]); break; }
                    case 2: if (a.next_ready()) vf_out(1); break;
                    case 3: if (!b) b.emplace(a); break;
                    case 4: if (b && b->next_ready()) vf_out(2); break;
                    case 5: pub.kick(&a); break;
                    case 6: vf_out((long)a.position()); break;        // documented accessor, no lock inside (see DESIGN.md)
                    default: pub.close(); break;
                }
            }
        }
        vf_unprotect_all();
    }
    vf_choice_end(); vf_witness();
}
#endif
