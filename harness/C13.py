"""C13 generator: plan of solver queries.

Skeleton vector layout (see C13.cpp run()):
  [rmode, n, kind_0..kind_{n-1}, (first_null: argument generator only), nacc, style_0..style_{nacc-1}]
"""
import random

# script entry kinds
Y, YRV, AR, AP, TH, RET = range(6)
# access styles
(S_NEXT, S_ITER, S_ITER_POST, S_FOR1, S_FOR2, S_FORALL, S_FUT_HV, S_FUT_WAIT, S_CO_NEXT, S_CO_CALL_HV, S_CO_CALL) = range(11)
STYLE_NAMES = ['next()/value()', 'iterator begin/++/*', 'iterator postfix ++', 'range-for left after 1 item', 'range-for left after 2 items',
               'range-for to the end', 'gen() future + has_value()/wait()', 'gen() future + wait()', 'co_await gen.next()',
               'coroutine: gen() future + co_await has_value()', 'co_await gen()']
SINGLE = [S_NEXT, S_ITER, S_ITER_POST, S_FOR1, S_FUT_HV, S_FUT_WAIT, S_CO_NEXT, S_CO_CALL_HV, S_CO_CALL]   # one access each
ALL = list(range(11))
ARG_STYLES = [S_NEXT, S_FUT_HV, S_FUT_WAIT, S_CO_NEXT, S_CO_CALL_HV, S_CO_CALL]                            # no iterators with an argument


def events(script):
    """what the consumer must see: 'v'* then 'x' (exception) or 'e' (end)"""
    ev = []
    for k in script:
        if k in (Y, YRV):
            ev.append('v')
        elif k == TH:
            return ev + ['x']
        elif k == RET:
            return ev + ['e']
    return ev + ['e']


def consumed(styles, nev):
    pos = 0
    for s in styles:
        pos += 2 if s == S_FOR2 else nev if s == S_FORALL else 1
    return min(pos, nev)


class Plan:
    def __init__(self, arg):
        self.arg = arg
        self.vecs = []
        self.seen = set()
        self.rm = 0

    def add(self, script, styles, first_null=0, rmode=None):
        script = [k for k in script if k is not None]
        if rmode is None:
            if AP in script:
                rmode = self.rm % 3
                self.rm += 1
            else:
                rmode = 0
        v = [rmode, len(script)] + script + ([first_null] if self.arg else []) + [len(styles)] + list(styles)
        assert len(script) <= 6 and len(styles) <= 7
        t = tuple(v)
        if t not in self.seen:
            self.seen.add(t)
            self.vecs.append(v)

    def fill(self, script, styles, pool):
        """extend `styles` with styles from pool until the terminal event has been observed"""
        nev = len(events(script))
        styles = list(styles)
        i = 0
        while consumed(styles, nev) < nev:
            styles.append(pool[i % len(pool)])
            i += 1
        return styles


def term_of(i):
    return [TH, RET, None][i % 3]      # None = fall off the end (implicit return)


def build(arg, tier):
    P = Plan(arg)
    styles1 = ARG_STYLES if arg else SINGLE
    every = ARG_STYLES if arg else ALL
    quick = tier == 'quick'
    rnd = random.Random(1313 + (1 if arg else 0))
    # -- 1. consecutive accesses in every combination of styles; the body is synchronous or waits for somebody else in between
    if quick:
        pairs = [s for s in styles1 if s not in (S_FOR1, S_FUT_WAIT)]
        for i1, s1 in enumerate(pairs):
            for i2, s2 in enumerate(pairs):
                for si, seg in enumerate([None, AP]):
                    P.add([Y, seg, YRV, term_of(i1 + i2 + si)], [s1, s2, s1], first_null=(i1 + i2) % 2)
    else:
        segpats = [(None, None, None), (AP, AP, AP), (AR, AP, None)]
        n = 0
        for s1 in styles1:
            for s2 in styles1:
                for s3 in styles1:
                    for pi, (g0, g1, g2) in enumerate(segpats):
                        for fn in ([0, 1] if arg else [0]):
                            n += 1
                            P.add([g0, Y if n % 2 else YRV, g1, YRV if n % 2 else Y, g2, term_of(n // 2)], [s1, s2, s3], first_null=fn)
    # -- 2. first activation runs straight into the end / an exception / after an await; then (after an end) one more access
    for i, s in enumerate(every):
        for si, seg in enumerate([None, AR, AP]):
            for ti, term in enumerate([TH, RET] if quick else [TH, RET, None]):
                for fn in ([0, 1] if arg else [0]):
                    P.add([seg, term], [s] + ([s] if term != TH and (quick or ti == 1) else []), first_null=fn)
    if not quick:
        for s_end in every:
            for s_post in every:
                P.add([Y, RET], P.fill([Y, RET], [S_NEXT, s_end], [S_NEXT]) + [s_post])
    # -- 3. generator destroyed early: never started, or parked at a yield after an access in each style
    inf = [Y, AP, YRV, Y, AR, Y]
    P.add(inf, [])
    for i, s in enumerate(styles1):
        P.add(inf, [s], first_null=i % 2)
        if quick:
            P.add(inf, [s, styles1[(i + 1) % len(styles1)]], first_null=(i + 1) % 2)
        else:
            for s2 in styles1:
                P.add(inf, [s, s2], first_null=i % 2)
                P.add(inf, [s, s2, s], first_null=(i + 1) % 2)
    # -- 4. range-for over several items, entered after other styles and continued by other styles
    if not arg:
        scripts = [[Y, Y, Y], [Y, AP, Y, TH], [AR, Y, AP, YRV, RET]]
        if not quick:
            scripts += [[Y, YRV, Y, Y, TH], [AP, Y, AP, Y, AP, Y], [Y, Y, AR, TH], [YRV, AP, RET]]
        prefixes = [[], [S_NEXT], [S_FUT_HV], [S_CO_NEXT]] if quick else [[]] + [[s] for s in SINGLE] + [[S_FOR2], [S_CO_CALL, S_ITER]]
        for sc in scripts:
            for pre in prefixes:
                for multi in (S_FOR2, S_FORALL):
                    P.add(sc, P.fill(sc, pre + [multi], [S_NEXT, S_CO_CALL, S_ITER_POST]))
    # -- 5. longer mixed runs (fixed seed: the plan is deterministic)
    for _ in range(12 if quick else 300):
        n = rnd.randint(2, 5)
        sc = [rnd.choice([Y, YRV, Y, AR, AP]) for _ in range(n)]
        t = rnd.choice([None, TH, RET])
        if t is not None:
            sc.append(t)
        nev = len(events(sc))
        st = []
        while consumed(st, nev) < nev and len(st) < 7:
            st.append(rnd.choice(every))
        if rnd.random() < 0.3 and st:
            st.pop()            # leave early
        P.add(sc, st, first_null=rnd.randint(0, 1), rmode=rnd.randint(0, 2))
    return P.vecs


def plan(tier):
    units = []
    for arg in (False, True):
        vecs = build(arg, tier)
        if not arg:
            conc = [([0, 3, Y, AR, YRV, 3, S_NEXT, S_NEXT, S_NEXT], [5, 6, 7]),
                    ([0, 4, Y, AP, Y, TH, 3, S_FUT_HV, S_CO_NEXT, S_CO_CALL], [5, 6, 7, 8]),
                    ([1, 4, Y, AP, YRV, TH, 3, S_ITER, S_ITER_POST, S_ITER], [-5, 6, 70000, 8]),
                    ([2, 5, AP, Y, AP, Y, RET, 2, S_CO_CALL_HV, S_FORALL], [1, 2, 3, 4]),
                    ([2, 3, Y, AP, Y, 2, S_FOR2, S_FUT_WAIT], [11, 22, 33]),
                    ([0, 6, Y, AP, YRV, Y, AR, Y, 2, S_CO_CALL, S_FOR1], [1, 2, 3, 4, 5, 6]),
                    ([0, 2, Y, RET, 3, S_NEXT, S_CO_NEXT, S_FUT_HV], [9, 9])]
            name, entry, defines = 'h_gen', 'h_gen', []
            what = 'generator<int>'
            styles = ALL
        else:
            conc = [([0, 3, Y, AP, Y, 1, 3, S_NEXT, S_CO_NEXT, S_CO_CALL], [5, 6, 7, 100, 200, 300]),
                    ([1, 4, Y, AP, YRV, TH, 0, 3, S_FUT_HV, S_FUT_WAIT, S_CO_CALL_HV], [5, 6, 7, 8, 1000, 2000, 3000]),
                    ([2, 3, AP, Y, RET, 1, 3, S_CO_NEXT, S_NEXT, S_NEXT], [1, 2, 3, 40, 50, 60]),
                    ([0, 6, Y, AP, YRV, Y, AR, Y, 0, 2, S_CO_CALL, S_NEXT], [1, 2, 3, 4, 5, 6, 7, 8])]
            name, entry, defines = 'h_gen_arg', 'h_gen_arg', ['VF_C13_ARG']
            what = 'generator<int,int> (body echoes the received argument into the next yielded value; optional co_yield nullptr on first activation)'
            styles = ARG_STYLES
        units.append(dict(
            engine='e1', name=name, tu='C13.cpp', entry=entry, defines=defines, unwind=10, vectors=vecs, concrete=conc,
            space=('%s: body script (<= 6 entries from {co_yield lvalue, co_yield temporary, co_await ready future, co_await pending future, throw, return}) '
                   'x consumer access sequence (<= 7 accesses, styles: %s) x who resolves a pending awaited future (plain code / coroutine discarding the '
                   'suspend point / coroutine awaiting it); %s; early destruction after 0..3 accesses; %d vectors'
                   % (what, '; '.join(STYLE_NAMES[s] for s in styles),
                      'quick: all pairs of consecutive styles x {synchronous, pending await in between}, every style on a first activation that ends / throws / awaits, '
                      'early destruction after every style, range-for prefixes, 12 longer mixed runs' if tier == 'quick' else
                      'thorough: all triples of consecutive single-access styles x 3 await patterns, all (end style, post-end style) pairs, early destruction after '
                      'every style pair, range-for after every style, 300 longer mixed runs', len(vecs))),
            data='yielded payloads, results of awaited futures and call arguments: unconstrained 32-bit ints (symbolic)',
            bounds='script <= 6 entries, <= 7 accesses, value type int, one generator',
            outside=('a synchronous read while the body is still waiting for a pending future (the reader blocks until another thread acts: needs a second thread; '
                     'here the awaited future is resolved before such a read); resolution of awaited futures on another OS thread; accesses after an exception '
                     'surfaced; misuse (access while the generator is busy, destroying a generator whose body waits on a pending future)')))
    # a synchronous reader blocked on a body that waits for a pending future which ANOTHER THREAD completes (rmode 3, next()/value() style)
    ot = [[3, 3, Y, AP, Y, 3, S_NEXT, S_NEXT, S_NEXT], [3, 4, Y, AP, Y, RET, 4, S_NEXT, S_NEXT, S_NEXT, S_NEXT], [3, 3, AP, Y, Y, 3, S_NEXT, S_NEXT, S_NEXT],
          [3, 5, Y, Y, AP, YRV, RET, 5, S_NEXT, S_ITER, S_NEXT, S_NEXT, S_NEXT], [3, 4, Y, AP, TH, Y, 2, S_NEXT, S_NEXT], [3, 4, AR, Y, AP, Y, 3, S_NEXT, S_FUT_HV, S_NEXT],
          [3, 5, Y, AP, Y, AP, Y, 5, S_NEXT, S_NEXT, S_NEXT, S_NEXT, S_NEXT], [3, 3, Y, AP, RET, 3, S_NEXT, S_NEXT, S_NEXT]]
    units.append(dict(engine='e1', name='sync_other_thread', tu='C13.cpp', entry='h_gen', defines=[], unwind=10, vectors=ot, concrete=[(ot[0], [5, 6, 7]), (ot[2], [1, 2, 3])],
                      space='generator<int>: scripts in which a synchronous next() runs into a pending awaited future that another thread completes while the reader is blocked in the wait '
                            '(the wait hook of the runtime model runs the resolver exactly when the reader would otherwise block forever): %s' % ot,
                      data='payloads symbolic', bounds='8 hand-written script / access combinations, one pending await per blocking read',
                      outside='two pending awaits inside one blocking read; the iterator styles under this timing'))
    import itertools as _it
    vcb = []
    for mode in (0, 1):
        for n in range(4):
            for pend in _it.product((0, 1), repeat=n):
                vcb.append([mode, n] + list(pend))
    units.append(dict(engine='e1', name='cb_consumer', tu='C13cb.cpp', entry='h_gen_cb', unwind=12, vectors=vcb,
                      concrete=[([0, 2, 0, 1], [1, 2, 3, 4, 5, 6, 7]), ([1, 3, 1, 0, 1], [1, 2, 3, 4, 5, 6, 7, 8]), ([1, 0], [9, 9, 9, 9, 9])],
                      space='generator<int,int> read by a callback awaiter (as generator_aggregator does): on every notification the consumer hands over the argument of its next request inside the notification and lets the '
                            'generator run at once (still inside the notification) or after the notification has returned; bodies of 0..3 yields, each preceded by nothing or by an await of a pending future completed by the harness; full product',
                      data='arguments and awaited results: unconstrained 32-bit ints (symbolic)', bounds='<= 3 yields', outside='see h_gen_arg'))
    units.append(dict(engine='e1', name='fut_cb_consumer', tu='C13cb.cpp', entry='h_gen_fut_cb', unwind=12, vectors=vcb,
                      concrete=[([0, 2, 0, 1], [1, 2, 3, 4, 5, 6, 7]), ([1, 3, 1, 0, 1], [1, 2, 3, 4, 5, 6, 7, 8]), ([1, 0], [9, 9, 9, 9, 9])],
                      space='generator<int,int> read through its future interface by a callback awaiter: every request is g(arg), the awaiter is subscribed to the returned future<int>; on every notification the consumer reads the value '
                            'and issues its next request inside the notification or after it has returned; bodies of 0..3 yields, each preceded by nothing or by an await of a pending future completed by the harness; full product',
                      data='arguments and awaited results: unconstrained 32-bit ints (symbolic)', bounds='<= 3 yields', outside='see h_gen_arg'))
    return units
