// C19 - coroutine storage policies give every frame exclusive, correctly freed memory (sequential half).
// Real coroutines with_allocator<Policy, async<int>> of two frame sizes are created, suspended, completed or
// destroyed unstarted in short sequences. The policy under test is wrapped in spy<Policy>, which forwards to the
// real alloc()/dealloc() and records what they hand out:
//   * the whole requested range [p, p+sz) is read (a block that is invalid, freed or too small is a memory failure
//     of the runtime model / ASan), for buffer policies p must be the supplied buffer;
//   * p is never handed to two simultaneously live frames; every block is released exactly once (table + heap balance,
//     a double free is a failure of the runtime model);
//   * every frame keeps a canary pattern in its locals across its suspension;
//   * under the reusing policies no operator new happens for a size class that was created before (after warm-up);
//   * promise_extra_storage: exactly one extra object lives while the frame lives, it is usable through operator->
//     as soon as the coroutine object exists, none lives afterwards.
// Documented precondition of the non-thread-safe policies: one live frame per storage (sequential programs);
// default_storage and reusable_storage_mtsafe are also run with overlapping frame lifetimes.
//
// Compiled once per policy (-DC19_PART=n): 0 default_storage, 1 reusable_storage, 2 reusable_storage_mtsafe,
// 3 stack_storage, 4 placement_alloc, 5 reusable_buffer_storage<std::vector<char>>,
// 6 promise_extra_storage<T, default_storage>, 7 promise_extra_storage<T, reusable_storage>.
#include "vf_cocls.h"
#include <cocls/future.h>
#include <cocls/async.h>
#include <cocls/coro_storage.h>
#include <cocls/alloca_storage.h>
#include <vector>
using namespace cocls;

#define NOINL __attribute__((noinline))

// ---------------------------------------------------------------- bookkeeping of what the policy hands out
struct Block { void *p; std::size_t sz; int live; };
Block g_tab[8];
int g_ntab;
void *g_last_p;            // block of the most recent alloc
std::size_t g_last_sz;
unsigned char g_sink;

NOINL void note_alloc(void *p, std::size_t sz) {
    VF_ASSERT(p != nullptr && sz > 0, "C19 the policy returns a block");
    const unsigned char *c = static_cast<const unsigned char *>(p);
    g_sink ^= c[0]; g_sink ^= c[sz / 2]; g_sink ^= c[sz - 1];      // the requested range is accessible memory (else: memory failure)
    for (int i = 0; i < g_ntab; ++i)
        if (g_tab[i].live) VF_ASSERT(g_tab[i].p != p, "C19 a block is never handed to two simultaneously live frames");
    VF_ASSERT(g_ntab < 8, "VF_SPEC block table full");
    g_tab[g_ntab].p = p; g_tab[g_ntab].sz = sz; g_tab[g_ntab].live = 1; ++g_ntab;
    g_last_p = p; g_last_sz = sz;
}
NOINL void note_dealloc(void *p, std::size_t sz) {
    int found = -1;
    for (int i = 0; i < g_ntab; ++i) if (g_tab[i].live && g_tab[i].p == p) found = i;
    VF_ASSERT(found >= 0, "C19 only live blocks are released, each exactly once");
    if (found >= 0) {
        VF_ASSERT(g_tab[found].sz == sz, "C19 a block is released with the size it was requested with");
        g_tab[found].live = 0;
    }
}
int live_blocks() { int n = 0; for (int i = 0; i < g_ntab; ++i) n += g_tab[i].live; return n; }

template<typename P> struct spy : P {
    using P::P;
    using P::operator=;
    void *alloc(std::size_t sz) { void *p = P::alloc(sz); note_alloc(p, sz); return p; }
    static void dealloc(void *p, std::size_t sz) { note_dealloc(p, sz); P::dealloc(p, sz); }
};

// ---------------------------------------------------------------- the coroutines: N ints of canary in the frame
template<typename S, int N>
NOINL with_allocator<S, async<int> > worker(S &, future<void> *gate, int seed, int *ok) {
    int c[N];
    for (int i = 0; i < N; ++i) c[i] = seed ^ (i * 0x01010101);
    co_await *gate;
    bool good = true;
    for (int i = 0; i < N; ++i) good = good && c[i] == (seed ^ (i * 0x01010101));
    *ok = good ? 1 : -1;
    co_return seed;
}
constexpr int SMALL = 2, LARGE = 12;

#if C19_PART == 0
using Policy = default_storage;
#elif C19_PART == 1
using Policy = reusable_storage;
#elif C19_PART == 2
using Policy = reusable_storage_mtsafe;
#elif C19_PART == 3
using Policy = stack_storage;
#elif C19_PART == 4
using Policy = placement_alloc;
#elif C19_PART == 5
using Policy = reusable_buffer_storage<std::vector<char> >;
#elif C19_PART == 6
using Policy = promise_extra_storage<vf_probe, default_storage>;
#else
using Policy = promise_extra_storage<vf_probe, reusable_storage>;
#endif
using S = spy<Policy>;
using Co = with_allocator<S, async<int> >;
constexpr bool REUSING = C19_PART == 1 || C19_PART == 2 || C19_PART == 3 || C19_PART == 5 || C19_PART == 7;
constexpr bool EXTRA = C19_PART >= 6;

alignas(16) char g_buf[256];           // supplied buffer (stack_storage, placement_alloc)

struct Slot {
    future<void> gate; promise<void> open; future<int> res;
    int ok = 0, seed = 0, size = 0, started = 0, finished = 0;
};

NOINL Co make(S &st, Slot &s) {
    if (s.size == 0) return worker<S, SMALL>(st, &s.gate, s.seed, &s.ok);
    return worker<S, LARGE>(st, &s.gate, s.seed, &s.ok);
}

// checks right after the coroutine object exists (frame allocated, suspended at its initial suspend point)
template<typename St> void after_create(St &st, Slot &s, long news, bool seen_before, vf_probe_counts &pc, int before_live_extra) {
    (void)st; (void)pc; (void)before_live_extra;
#if C19_PART == 4
    VF_ASSERT(g_last_p == static_cast<void *>(g_buf), "C19 the frame lives in the supplied buffer");
    VF_ASSERT(g_last_sz <= sizeof(g_buf), "VF_SPEC supplied buffer large enough for the harness coroutines");
#elif C19_PART == 3
    // the caller supplies std::size_t(st) bytes (here: the start of g_buf); anything else must come from the heap
    if (g_last_p == static_cast<void *>(g_buf))
        VF_ASSERT(g_last_sz + 1 <= std::size_t(st), "C19 stack_storage places a frame (and its flag byte) in the caller's memory only if it fits the size it asked for");
#endif
    if (REUSING && seen_before) VF_ASSERT(news == 0, "C19 a reusing policy allocates no heap memory for a frame size it has served before");
#if C19_PART >= 6
    VF_ASSERT(pc.constructed - pc.destroyed == before_live_extra + 1, "C19 exactly one extra object is constructed with the frame");
    VF_ASSERT(st->v == s.seed && (*st).c == &pc, "C19 the extra object is usable as soon as the coroutine object exists");
#endif
    vf_out(news);
}


// ================================================================= requested sizes as symbolic data (no coroutine: the policy is called directly)
// Three requests alloc(sz_i) on one storage with sz_i an arbitrary size in [1, 400]; between two requests the earlier block is released
// (skeleton: sequential) or kept alive (overlapping - only for the policies that allow it). Every byte of [p, p+sz) must be memory the caller may
// write (probed at 0, sz-1 and at an arbitrary offset; the policy's own bookkeeping writes - the owner pointer behind the frame - are checked by
// the memory obligations of the encoding), blocks that are live at the same time do not overlap, a size not larger than one served before
// needs no new heap block under the reusing policies, everything is released at the end.
#if C19_PART == 0 || C19_PART == 1 || C19_PART == 2 || C19_PART == 5
extern "C" void h_sizes() {
    const int n = 1 + vf_choice(3);
    const int overlap = vf_choice(2);
    vf_warmup();
    const long base = vf_live_allocs();
    {
#if C19_PART == 5
        std::vector<char> vbuf;
        S st(vbuf);
#else
        S st;
#endif
        g_ntab = 0;
        void *ps[3]; std::size_t szs[3]; std::size_t maxsz = 0;
        for (int i = 0; i < n; ++i) {
            std::size_t sz = (std::size_t)nondet_int();
            VF_ASSUME(sz >= 1 && sz <= 400);
            szs[i] = sz;
            const long n0 = vf_total_allocs();
            unsigned char *p = static_cast<unsigned char *>(st.alloc(sz));
            const long news = vf_total_allocs() - n0;
            ps[i] = p;
            std::size_t off = (std::size_t)nondet_int();
            VF_ASSUME(off < sz);
            p[off] = 0xC0 + i; p[0] = 0xA0 + i; p[sz - 1] = 0xB0 + i;         // the whole requested range belongs to the caller
            if (overlap)
                for (int j = 0; j < i; ++j) {
                    unsigned char *q = static_cast<unsigned char *>(ps[j]);
                    VF_ASSERT(p + sz <= q || q + szs[j] <= p, "C19 two simultaneously live frames never share memory");
                }
            if (REUSING && !overlap && sz <= maxsz) VF_ASSERT(news == 0, "C19 a reusing policy allocates no heap memory for a frame size it has served before");
            if (sz > maxsz) maxsz = sz;
            if (!overlap) { VF_ASSERT(p[sz - 1] == 0xB0 + i && (off == 0 || off == sz - 1 || p[off] == 0xC0 + i), "C19 the frame's memory keeps what was written to it"); S::dealloc(p, sz); }
        }
        if (overlap) for (int i = n - 1; i >= 0; --i) {
            unsigned char *p = static_cast<unsigned char *>(ps[i]);
            VF_ASSERT((szs[i] == 1 || p[0] == 0xA0 + i) && p[szs[i] - 1] == 0xB0 + i, "C19 a live frame's memory is not disturbed by later requests on the same storage");
            S::dealloc(p, szs[i]);
        }
        VF_ASSERT(live_blocks() == 0, "C19 every block handed out was released");
    }
    VF_ASSERT(vf_live_allocs() == base, "C19 all heap memory of the policy is released exactly once when the storage dies");
    vf_choice_end();
    vf_witness();
}
#endif

// ================================================================= sequential programs: one live frame per storage
extern "C" void h_seq() {
    const int nframes = 1 + vf_choice(3);
    Slot slot[3];
    int life[3] = {0, 0, 0};          // 0 start, suspend at the gate, complete later; 1 destroyed without being started; 2 gate already open: runs to completion inside start()
    for (int i = 0; i < nframes; ++i) { slot[i].size = vf_choice(2); life[i] = vf_choice(3); slot[i].seed = nondet_int(); }
    vf_warmup();
    const long base = vf_live_allocs();
    vf_probe_counts pc;
    int cur_seed = 0;
    {
        std::size_t state = 0;        // stack_storage: the shared size state
        std::vector<char> vec;        // reusable_buffer_storage: the recycled buffer
        (void)state; (void)vec; (void)cur_seed;
#if C19_PART == 0
        S st;
#elif C19_PART == 1 || C19_PART == 2
        S st;
#elif C19_PART == 4
        S st(static_cast<void *>(g_buf));
#elif C19_PART == 5
        S st(vec);
#elif C19_PART >= 6
        S st([&] { return vf_probe(pc, cur_seed); });
#endif
        bool seen[2] = {false, false};
        for (int i = 0; i < nframes; ++i) {
            Slot &s = slot[i];
            s.open = s.gate.get_promise();
            if (life[i] == 2) s.open();
            cur_seed = s.seed;
            const int live_extra = pc.constructed - pc.destroyed;
#if C19_PART == 3
            S st(state);               // the documented usage: a fresh stack_storage per call, sized by the shared state, memory supplied by the caller
            VF_ASSERT(std::size_t(st) <= sizeof(g_buf), "VF_SPEC supplied buffer large enough for the learned size");
            st = static_cast<void *>(g_buf);
#endif
            {
                vf_region_begin();
                Co co = make(st, s);
                long news = vf_region_end();
                VF_ASSERT(live_blocks() == 1, "C19 creating a coroutine obtains exactly one block from its storage");
                after_create(st, s, news, seen[s.size], pc, live_extra);
                seen[s.size] = true;
                if (life[i] != 1) { s.started = 1; s.res << [&] { return co.start(); }; }
            }                          // life 1: the unstarted coroutine object dies here and destroys its frame
            if (life[i] == 0) {
                VF_ASSERT(s.res.pending() && live_blocks() == 1, "VF_SPEC harness: frame suspended at its gate");
                s.open();
            }
            VF_ASSERT(live_blocks() == 0, "C19 the block is released when the frame is destroyed");
            if (s.started) {
                VF_ASSERT(s.res.ready() && s.res.value() == s.seed, "VF_SPEC harness: coroutine delivered its result");
                VF_ASSERT(s.ok == 1, "C19 the frame's locals survive its suspension unmodified (canary)");
            }
            if (EXTRA) VF_ASSERT(pc.constructed == pc.destroyed, "C19 the extra object is destroyed exactly once with the frame");
            vf_out(s.ok); vf_out(pc.constructed);
#if C19_PART == 3
            vf_out(state > 0);
#endif
        }
    }
    VF_ASSERT(vf_live_allocs() == base, "C19 all heap memory of the policy (blocks, fallbacks) is released, none twice");
    VF_ASSERT(pc.constructed == pc.destroyed, "C19 every extra object is destroyed exactly once");
    vf_choice_end();
    vf_witness();
}

#if C19_PART == 0 || C19_PART == 2
// ================================================================= overlapping lifetimes (policies that allow several live frames)
extern "C" void h_ovl() {
    const int nops = vf_choice(7);
    Slot slot[3];
    int ncreated = 0;
    vf_warmup();
    const long base = vf_live_allocs();
    vf_probe_counts pc;
    {
        S st;
        bool seen[2] = {false, false};   // size classes that have been served from the storage's own block
        int holder = -1;                 // reference model: which live frame occupies the storage's reusable block
        for (int k = 0; k < nops; ++k) {
            const int op = vf_choice(5); // 0 create small, 1 create large, 2.. complete the (op-2)-th created frame
            if (op < 2) {
                VF_ASSERT(ncreated < 3, "VF_SPEC at most three frames");
                Slot &s = slot[ncreated];
                s.size = op; s.seed = nondet_int();
                s.open = s.gate.get_promise();
                const int before = live_blocks();
                const bool takes_block = holder < 0;
                vf_region_begin();
                Co co = make(st, s);
                long news = vf_region_end();
                VF_ASSERT(live_blocks() == before + 1, "C19 creating a coroutine obtains exactly one block from its storage");
                if (C19_PART == 2 && takes_block) {
                    if (seen[s.size]) VF_ASSERT(news == 0, "C19 a reusing policy allocates no heap memory for a frame size it has served before");
                    seen[s.size] = true; holder = ncreated;
                }
                vf_out(news);
                s.started = 1;
                s.res << [&] { return co.start(); };
                ++ncreated;
            } else {
                const int i = op - 2;
                VF_ASSERT(i < ncreated && !slot[i].finished, "VF_SPEC completes a live frame");
                const int before = live_blocks();
                slot[i].open();
                slot[i].finished = 1;
                if (holder == i) holder = -1;
                VF_ASSERT(live_blocks() == before - 1, "C19 the block is released when the frame is destroyed");
                VF_ASSERT(slot[i].ok == 1 && slot[i].res.value() == slot[i].seed, "C19 the frame's locals survive its suspension unmodified (canary)");
            }
        }
        for (int i = 0; i < ncreated; ++i) if (!slot[i].finished) {      // wind down
            slot[i].open();
            VF_ASSERT(slot[i].ok == 1 && slot[i].res.value() == slot[i].seed, "C19 the frame's locals survive its suspension unmodified (canary)");
        }
        VF_ASSERT(live_blocks() == 0, "C19 the block is released when the frame is destroyed");
        for (int i = 0; i < ncreated; ++i) vf_out(slot[i].ok);
    }
    VF_ASSERT(vf_live_allocs() == base, "C19 all heap memory of the policy (blocks, fallbacks) is released, none twice");
    vf_choice_end();
    vf_witness();
}
#endif


#if C19_PART == 0 || C19_PART == 2
// ================================================================= the same with allocation failures: a creation may meet std::bad_alloc
// Program as in h_ovl; every create carries a flag: the first operator new made during that creation throws std::bad_alloc (vf_new_fail_at). A failed
// creation creates no frame and leaves no block behind; the frames that are live keep their memory to themselves, before and after.
extern "C" void h_ovl_oom() {
    const int nops = vf_choice(7);
    Slot slot[6];                // one per attempt
    int idx[3]; int nattempt = 0;
    int ncreated = 0;
    vf_warmup();
    const long base = vf_live_allocs();
    {
        S st;
        for (int k = 0; k < nops; ++k) {
            const int op = vf_choice(5); // 0 create small, 1 create large, 2.. complete the (op-2)-th created frame
            if (op < 2) {
                const int fail = vf_choice(2);
                VF_ASSERT(ncreated < 3, "VF_SPEC at most three frames");
                Slot &s = slot[nattempt]; idx[ncreated] = nattempt; ++nattempt;
                s.size = op; s.seed = nondet_int();
                s.open = s.gate.get_promise();
                const int before = live_blocks();
                bool threw = false;
                vf_new_fail_at(fail);
                try {
                    Co co = make(st, s);
                    vf_new_fail_at(0);
                    VF_ASSERT(live_blocks() == before + 1, "C19 creating a coroutine obtains exactly one block from its storage");
                    s.started = 1;
                    s.res << [&] { return co.start(); };
                } catch (...) { threw = true; }
                vf_new_fail_at(0);
                if (threw) {
                    VF_ASSERT(live_blocks() == before, "C19 a creation that fails with bad_alloc leaves no block behind");
                    s.open(drop);
                    vf_out(-1);
                } else {
                    ++ncreated;
                    vf_out(1);
                }
            } else {
                const int i = op - 2;
                if (i >= ncreated || slot[idx[i]].finished) continue;          // (the frame this step refers to was never created: its creation failed)
                const int before = live_blocks();
                Slot &s = slot[idx[i]];
                s.open();
                s.finished = 1;
                VF_ASSERT(live_blocks() == before - 1, "C19 the block is released when the frame is destroyed");
                VF_ASSERT(s.ok == 1 && s.res.value() == s.seed, "C19 the frame's locals survive its suspension unmodified (canary)");
            }
        }
        for (int i = 0; i < ncreated; ++i) if (!slot[idx[i]].finished) {      // wind down
            Slot &s = slot[idx[i]];
            s.open();
            VF_ASSERT(s.ok == 1 && s.res.value() == s.seed, "C19 the frame's locals survive its suspension unmodified (canary)");
        }
        VF_ASSERT(live_blocks() == 0, "C19 the block is released when the frame is destroyed");
        for (int i = 0; i < ncreated; ++i) vf_out(slot[idx[i]].ok);
    }
    VF_ASSERT(vf_live_allocs() == base, "C19 all heap memory of the policy (blocks, fallbacks) is released, none twice");
    vf_choice_end();
    vf_witness();
}
#endif

#if C19_PART >= 6
// ================================================================= extra object whose factory throws
// Up to three frames are created and completed one after another on one promise_extra_storage; the factory of frame `bad` throws. That creation creates no
// frame: no extra object exists for it (none constructed, none destroyed), its block does not stay behind, and the other frames are not affected.
extern "C" void h_extra_throw() {
    const int nframes = 1 + vf_choice(3);
    const int bad = vf_choice(nframes);
    Slot slot[3];
    for (int i = 0; i < nframes; ++i) { slot[i].size = vf_choice(2); slot[i].seed = nondet_int(); }
    vf_warmup();
    const long base = vf_live_allocs();
    vf_probe_counts pc;
    int cur_seed = 0; bool throw_now = false;
    {
        S st([&]() -> vf_probe { if (throw_now) throw vf_tag_exc{7}; return vf_probe(pc, cur_seed); });
        for (int i = 0; i < nframes; ++i) {
            Slot &s = slot[i];
            s.open = s.gate.get_promise();
            cur_seed = s.seed; throw_now = i == bad;
            const int before_c = pc.constructed, before_d = pc.destroyed;
            bool threw = false;
            try {
                Co co = make(st, s);
                VF_ASSERT(pc.constructed - pc.destroyed == 1 && st->v == s.seed, "C19 the extra object is usable as soon as the coroutine object exists");
                s.started = 1;
                s.res << [&] { return co.start(); };
            } catch (const vf_tag_exc &) { threw = true; }
            VF_ASSERT(threw == (i == bad), "VF_SPEC the creation fails exactly when its factory throws");
            if (threw) {
                VF_ASSERT(pc.constructed == before_c, "VF_SPEC the throwing factory constructs nothing");
                VF_ASSERT(pc.destroyed == before_d, "C19 no extra object is destroyed for a frame whose extra object was never constructed");
                VF_ASSERT(live_blocks() == 0, "C19 a creation that fails leaves no block behind");
                s.open(drop);
            } else {
                s.open();
                VF_ASSERT(s.res.ready() && s.res.value() == s.seed && s.ok == 1, "C19 the frame's locals survive its suspension unmodified (canary)");
                VF_ASSERT(live_blocks() == 0, "C19 the block is released when the frame is destroyed");
                VF_ASSERT(pc.constructed == pc.destroyed, "C19 the extra object is destroyed exactly once with the frame");
            }
            vf_out(pc.constructed * 10 + pc.destroyed);
        }
    }
    VF_ASSERT(vf_live_allocs() == base, "C19 all heap memory of the policy (blocks, fallbacks) is released, none twice");
    VF_ASSERT(pc.constructed == pc.destroyed, "C19 every extra object is destroyed exactly once");
    vf_choice_end();
    vf_witness();
}
#endif

#if C19_PART == 3
// ================================================================= stack_storage: two activations prepared before either coroutine exists
// The documented usage is: construct the storage from the shared state, alloca(size_t(storage)) bytes, create the coroutine. When two
// activations overlap, both have asked for their memory before the first heap fallback teaches the shared state the real frame size.
// Whatever the state learns later, a frame may use the caller's block only if it fits the size THAT storage asked for.
alignas(16) char g_buf2[256];
extern "C" void h_stack2() {
    const int warm = vf_choice(3);          // 0 cold start, 1 state learned the small frame, 2 state learned the large frame
    const int sza = vf_choice(2), szb = vf_choice(2);
    vf_warmup();
    const long base = vf_live_allocs();
    {
        std::size_t state = 0;
        Slot w, a, b;
        w.seed = 1; a.seed = nondet_int(); b.seed = nondet_int(); a.size = sza; b.size = szb;
        if (warm) {
            w.size = warm - 1; w.open = w.gate.get_promise(); w.open();
            S st(state); st = static_cast<void *>(g_buf);
            Co co = make(st, w);
            w.res << [&] { return co.start(); };
            VF_ASSERT(w.res.ready(), "VF_SPEC warm-up frame ran to completion");
        }
        a.open = a.gate.get_promise(); b.open = b.gate.get_promise();
        S sa(state); const std::size_t asked_a = std::size_t(sa); VF_ASSERT(asked_a <= sizeof(g_buf), "VF_SPEC buffer"); sa = static_cast<void *>(g_buf);
        S sb(state); const std::size_t asked_b = std::size_t(sb); VF_ASSERT(asked_b <= sizeof(g_buf2), "VF_SPEC buffer"); sb = static_cast<void *>(g_buf2);
        {
            Co ca = make(sa, a);
            if (g_last_p == static_cast<void *>(g_buf))
                VF_ASSERT(g_last_sz + 1 <= asked_a, "C19 stack_storage places a frame (and its flag byte) in the caller's memory only if it fits the size that storage asked for");
            a.res << [&] { return ca.start(); };
            Co cb = make(sb, b);
            if (g_last_p == static_cast<void *>(g_buf2))
                VF_ASSERT(g_last_sz + 1 <= asked_b, "C19 stack_storage places a frame (and its flag byte) in the caller's memory only if it fits the size that storage asked for");
            b.res << [&] { return cb.start(); };
        }
        VF_ASSERT(live_blocks() == 2, "VF_SPEC both frames suspended at their gates");
        b.open(); a.open();
        VF_ASSERT(live_blocks() == 0, "C19 the block is released when the frame is destroyed");
        VF_ASSERT(a.res.ready() && a.res.value() == a.seed && b.res.ready() && b.res.value() == b.seed, "VF_SPEC results delivered");
        VF_ASSERT(a.ok == 1 && b.ok == 1, "C19 the frame's locals survive its suspension unmodified (canary)");
        vf_out(asked_a > 0); vf_out(asked_b > 0);          // (frame sizes differ between compilers: only compiler-independent observations)
    }
    VF_ASSERT(vf_live_allocs() == base, "C19 all heap memory of the policy (blocks, fallbacks) is released, none twice");
    vf_choice_end();
    vf_witness();
}
#endif
