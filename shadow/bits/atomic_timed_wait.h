// Verification operational model of libstdc++ <bits/atomic_timed_wait.h> (environment, not cocls code).
#ifndef _GLIBCXX_ATOMIC_TIMED_WAIT_H
#define _GLIBCXX_ATOMIC_TIMED_WAIT_H 1
#pragma GCC system_header
#include <bits/atomic_wait.h>
#include <bits/chrono.h>
namespace std _GLIBCXX_VISIBILITY(default)
{
_GLIBCXX_BEGIN_NAMESPACE_VERSION
  namespace __detail {
    inline constexpr size_t __platform_wait_alignment = 4;
    template<typename _Pred> bool __atomic_spin(_Pred& __pred) noexcept { return __pred(); }
  }
  // "bare" waits are used by std::counting_semaphore only: block until the predicate holds
  template<typename _Pred>
    void __atomic_wait_address_bare(const __detail::__platform_wait_t* __addr, _Pred __pred) noexcept
    { while (!__pred()) vf_atomic_wait(__addr, (unsigned)*__addr, 4); }
  template<typename _Pred, typename _Clock, typename _Dur>
    bool __atomic_wait_address_until_bare(const __detail::__platform_wait_t* __addr, _Pred __pred,
                                          const chrono::time_point<_Clock, _Dur>&) noexcept
    { return __pred(); }
  template<typename _Pred, typename _Rep, typename _Period>
    bool __atomic_wait_address_for_bare(const __detail::__platform_wait_t* __addr, _Pred __pred,
                                        const chrono::duration<_Rep, _Period>&) noexcept
    { return __pred(); }
  inline void __atomic_notify_address_bare(const __detail::__platform_wait_t* __addr, bool __all) noexcept
  { vf_atomic_notify(__addr, __all); }
_GLIBCXX_END_NAMESPACE_VERSION
}
#endif
