// Verification operational model of libstdc++ <bits/atomic_wait.h> (environment, not cocls code):
// std::atomic<T>::wait / notify_* are mapped onto two extern "C" primitives the engines model directly.
#ifndef _GLIBCXX_ATOMIC_WAIT_H
#define _GLIBCXX_ATOMIC_WAIT_H 1
#pragma GCC system_header
#include <bits/c++config.h>
#include <bits/functional_hash.h>
#include <bits/gthr.h>
#include <ext/numeric_traits.h>
#include <cerrno>
#include <climits>
#include <bits/functexcept.h>
#include <bits/std_mutex.h>
#include <bits/move.h>
#define __cpp_lib_atomic_wait 201907L
extern "C" void vf_atomic_wait(const void *addr, unsigned long long old, unsigned size);
extern "C" void vf_atomic_notify(const void *addr, int all);
namespace std _GLIBCXX_VISIBILITY(default)
{
_GLIBCXX_BEGIN_NAMESPACE_VERSION
  namespace __detail {
    using __platform_wait_t = int;
    inline void __thread_yield() noexcept {}
    inline void __thread_relax() noexcept {}
  }
  template<typename _Tp, typename _ValFn>
    void
    __atomic_wait_address_v(const _Tp* __addr, _Tp __old, _ValFn __vfn) noexcept
    {
      // block until the value differs from __old (spurious wake-ups are not modelled)
      unsigned long long __o = 0;
      __builtin_memcpy(&__o, &__old, sizeof(_Tp) < 8 ? sizeof(_Tp) : 8);
      vf_atomic_wait(__addr, __o, sizeof(_Tp));
    }
  template<typename _Tp>
    void
    __atomic_notify_address(const _Tp* __addr, bool __all) noexcept
    { vf_atomic_notify(__addr, __all); }
_GLIBCXX_END_NAMESPACE_VERSION
}
#endif
