/* Native counterpart of the harness interface (g++ replay builds and gcc builds of translated C).
 * Inputs come from the file named by VF_REPLAY: whitespace separated tokens
 *   c <v>   next skeleton choice      n <v>   next nondet value (64-bit, two's complement)
 * Missing nondet values read as 0. Exit codes: 42 = assertion failed, 77 = assumption violated. */
#define _GNU_SOURCE
#include <stdio.h>
#include <stdlib.h>
#include <string.h>
#include <stdint.h>
static long long *nd_vals; static int nd_n, nd_pos;
static int *ch_vals; static int ch_n, ch_pos;
static int loaded;
static void load(void) {
  if (loaded) return; loaded = 1;
  const char *fn = getenv("VF_REPLAY");
  if (!fn) return;
  FILE *f = fopen(fn, "r"); if (!f) { fprintf(stderr, "cannot open %s\n", fn); exit(3); }
  nd_vals = malloc(sizeof(long long) * 65536); ch_vals = malloc(sizeof(int) * 65536);
  char k[8]; long long v;
  while (fscanf(f, "%7s %lld", k, &v) == 2) {
    if (k[0] == 'c') ch_vals[ch_n++] = (int)v; else nd_vals[nd_n++] = v;
  }
  fclose(f);
}
static long long next_nd(void) { load(); return nd_pos < nd_n ? nd_vals[nd_pos++] : 0; }
int nondet_int(void) { return (int)next_nd(); }
unsigned nondet_uint(void) { return (unsigned)next_nd(); }
unsigned char nondet_uchar(void) { return (unsigned char)next_nd(); }
long nondet_long(void) { return (long)next_nd(); }
#ifndef VF_TRANSLATED
void __CPROVER_assert(int c, const char *m) { if (!c) { fflush(stdout); fprintf(stderr, "VF_ASSERT_FAILED: %s\n", m); fflush(stderr); _Exit(42); } }
void __CPROVER_assume(int c) { if (!c) { fflush(stdout); fprintf(stderr, "VF_ASSUME_VIOLATED\n"); _Exit(77); } }
int vf_choice(int n) {
  load();
  if (ch_pos >= ch_n) { fprintf(stderr, "VF_SPEC skeleton vector too short\n"); _Exit(3); }
  int v = ch_vals[ch_pos++];
  if (v < 0) v = (int)next_nd();
  if (v < 0 || v >= n) { fprintf(stderr, "VF_SPEC skeleton value out of range\n"); _Exit(3); }
  return v;
}
void vf_choice_end(void) { if (ch_pos != ch_n) { fprintf(stderr, "VF_SPEC skeleton vector not fully consumed\n"); _Exit(3); } }
void vf_out(long v) { printf("OUT %ld\n", v); fflush(stdout); }
void vf_witness(void) { }
/* native counterpart of the wait hook: a real helper thread runs the function a little later, while the main thread is (supposed to be) blocked */
typedef void rt_wait_fn(void);
#include <pthread.h>
#include <unistd.h>
static pthread_t wait_thr; static int wait_thr_on; static rt_wait_fn *wait_fn;
static void *wait_runner(void *a) { (void)a; usleep(30000); wait_fn(); return 0; }
void vf_wait_arm(rt_wait_fn *f) { wait_fn = f; wait_thr_on = 1; pthread_create(&wait_thr, 0, wait_runner, 0); }
void vf_wait_done(void) { if (wait_thr_on) { pthread_join(wait_thr, 0); wait_thr_on = 0; } }
/* native counterpart of the lock-region injection hook (rt/rt.h): pthread_mutex_lock is interposed */
typedef void rt_inject_fn(void);
static rt_inject_fn *inject_f; static int inject_at, lock_events, in_hook;
void vf_inject_arm(rt_inject_fn *fn, int k) { inject_f = fn; inject_at = k; lock_events = 0; }
int vf_inject_pending(void) { return inject_f != 0; }
void vf_inject_disarm(void) { inject_f = 0; inject_at = 0; }
#include <pthread.h>
#include <dlfcn.h>
int pthread_mutex_lock(pthread_mutex_t *m) {
  static int (*real)(pthread_mutex_t*);
  if (!real) real = (int (*)(pthread_mutex_t*))dlsym(RTLD_NEXT, "pthread_mutex_lock");
  if (inject_f && !in_hook) {
    lock_events++;
    if (lock_events == inject_at) { rt_inject_fn *f = inject_f; inject_f = 0; in_hook = 1; f(); in_hook = 0; }
  }
  return real(m);
}
/* IR-built reference (shadow <bits/atomic_wait.h>): wait by polling, so that the wait-hook helper thread can end it; a wait nobody ends is a hang */
#include <sched.h>
void vf_atomic_wait(const void *addr, unsigned long long old, unsigned size) {
  for (;;) {
    unsigned long long cur = size == 1 ? *(volatile uint8_t*)addr : size == 2 ? *(volatile uint16_t*)addr : size == 4 ? *(volatile uint32_t*)addr : *(volatile uint64_t*)addr;
    if (cur != old) return;
    sched_yield();
  }
}
void vf_atomic_notify(const void *addr, int all) { (void)addr; (void)all; }
/* native counterpart of the atomic-window injection hook: the reference build of a TU that uses it is compiled from the same LLVM IR with a call
   to vf_atomic_point() inserted in front of every atomic instruction (tools/e1.py instrument_atomics) */
static rt_inject_fn *ainject_f; static int ainject_at, atomic_events;
extern char __libc_single_threaded;   /* the program modelled has a second thread: libstdc++ must take its atomic paths, as it does in the encoding (the flag reads 0 there) */
void vf_ainject_arm(rt_inject_fn *fn, int k) { __libc_single_threaded = 0; ainject_f = fn; ainject_at = k; atomic_events = 0; }
int vf_ainject_pending(void) { return ainject_f != 0; }
void vf_ainject_disarm(void) { ainject_f = 0; ainject_at = 0; }
int vf_ainject_events(void) { return atomic_events; }
void vf_atomic_point(void) {
  if (ainject_f && !in_hook) {
    atomic_events++;
    if (atomic_events == ainject_at) { rt_inject_fn *f = ainject_f; ainject_f = 0; in_hook = 1; f(); in_hook = 0; }
  }
}
void vf_protect(void *obj, unsigned long size, void *lock) { (void)obj; (void)size; (void)lock; }
void vf_protect_obj(void *obj, unsigned long size, void *lock) { (void)obj; (void)size; (void)lock; }
void vf_unprotect_all(void) { }
#else
/* translated-C build: rt.h provides the interface; it only needs the choice vector */
int VF_CHOICES[65536]; int VF_NCHOICES;
void vf_native_load_choices(void) { load(); for (int i = 0; i < ch_n; i++) VF_CHOICES[i] = ch_vals[i]; VF_NCHOICES = ch_n; }
#endif

#ifndef VF_TRANSLATED
/* Native virtual clock (C12), the counterpart of rt_clock_ns in rt.h. Inactive until a harness calls vf_clock_set():
 * from then on std::chrono::system_clock::now() reads the virtual clock and a timed condition-variable wait advances it to
 * the deadline and reports a time-out (no other thread exists in these harnesses). Before that, both behave as usual. */
#include <time.h>
#include <errno.h>
#include <dlfcn.h>
#include <pthread.h>
static int vclock_on; static long long vclock_ns; static long vclock_waits;
void vf_clock_set(long ns) { vclock_on = 1; vclock_ns = ns; }
long vf_clock_now(void) { return (long)vclock_ns; }
long vf_clock_waits(void) { return vclock_waits; }
long _ZNSt6chrono3_V212system_clock3nowEv(void) {
  if (vclock_on) return (long)vclock_ns;
  struct timespec ts; clock_gettime(CLOCK_REALTIME, &ts);
  return (long)ts.tv_sec * 1000000000L + ts.tv_nsec;
}
/* native counterpart of the timed-wait hook (rt.h vf_cwait_arm); notifications are seen by interposing pthread_cond_broadcast / pthread_cond_signal */
static rt_inject_fn *cwait_f; static int cond_notified;
void vf_cwait_arm(rt_inject_fn *fn) { cwait_f = fn; }
/* pre-park hook: exists in the runtime model (rt.h) only; the g++ build just links */
#ifndef VF_TRANSLATED
void vf_prepark_arm(rt_inject_fn *fn) { (void)fn; }
int vf_prepark_pending(void) { return 0; }
#endif
int vf_cwait_pending(void) { return cwait_f != 0; }
void vf_cwait_disarm(void) { cwait_f = 0; }
int pthread_cond_broadcast(pthread_cond_t *c) {
  static int (*real)(pthread_cond_t*);
  if (!real) real = (int (*)(pthread_cond_t*))dlsym(RTLD_NEXT, "pthread_cond_broadcast");
  cond_notified = 1; return real(c);
}
int pthread_cond_signal(pthread_cond_t *c) {
  static int (*real)(pthread_cond_t*);
  if (!real) real = (int (*)(pthread_cond_t*))dlsym(RTLD_NEXT, "pthread_cond_signal");
  cond_notified = 1; return real(c);
}
static int vclock_hook(pthread_mutex_t *m) {
  if (cwait_f && !in_hook) {
    static int (*rlock)(pthread_mutex_t*);
    if (!rlock) rlock = (int (*)(pthread_mutex_t*))dlsym(RTLD_NEXT, "pthread_mutex_lock");
    rt_inject_fn *f = cwait_f; cwait_f = 0; cond_notified = 0;
    pthread_mutex_unlock(m); in_hook = 1; f(); in_hook = 0; rlock(m);
    if (cond_notified) return 1;
  }
  return 0;
}
static int vclock_wait(const struct timespec *ts) {
  if (ts->tv_sec >= 9223372036L) { fflush(stdout); fprintf(stderr, "VF_ASSERT_FAILED: rt: condition_variable wait without deadline and no other thread to notify (blocks forever)\n"); _Exit(42); }
  long long d = (long long)ts->tv_sec * 1000000000LL + ts->tv_nsec;
  if (d > vclock_ns) vclock_ns = d;
  vclock_waits++;
  return ETIMEDOUT;
}
int pthread_cond_timedwait(pthread_cond_t *c, pthread_mutex_t *m, const struct timespec *ts) {
  if (vclock_on) return vclock_hook(m) ? 0 : vclock_wait(ts);
  static int (*real)(pthread_cond_t*, pthread_mutex_t*, const struct timespec*);
  if (!real) real = (int (*)(pthread_cond_t*, pthread_mutex_t*, const struct timespec*))dlsym(RTLD_NEXT, "pthread_cond_timedwait");
  return real(c, m, ts);
}
int pthread_cond_clockwait(pthread_cond_t *c, pthread_mutex_t *m, clockid_t clk, const struct timespec *ts) {
  if (vclock_on) return vclock_hook(m) ? 0 : vclock_wait(ts);
  static int (*real)(pthread_cond_t*, pthread_mutex_t*, clockid_t, const struct timespec*);
  if (!real) real = (int (*)(pthread_cond_t*, pthread_mutex_t*, clockid_t, const struct timespec*))dlsym(RTLD_NEXT, "pthread_cond_clockwait");
  return real(c, m, clk, ts);
}
#endif
