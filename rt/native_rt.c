/* Native counterpart of the harness interface (g++ replay builds and gcc builds of translated C).
 * Inputs come from the file named by VF_REPLAY: whitespace separated tokens
 *   c <v>   next skeleton choice      n <v>   next nondet value (64-bit, two's complement)
 * Missing nondet values read as 0. Exit codes: 42 = assertion failed, 77 = assumption violated. */
#include <stdio.h>
#include <stdlib.h>
#include <string.h>
#include <stdint.h>
static long long *nd_vals; static int nd_n, nd_pos;
static int *ch_vals; static int ch_n, ch_pos;
static int loaded;
static void load(void) {
  if (loaded) return; loaded = 1;
  const char *fn = getenv("VF_REPLAY");
  if (!fn) return;
  FILE *f = fopen(fn, "r"); if (!f) { fprintf(stderr, "cannot open %s\n", fn); exit(3); }
  nd_vals = malloc(sizeof(long long) * 65536); ch_vals = malloc(sizeof(int) * 65536);
  char k[8]; long long v;
  while (fscanf(f, "%7s %lld", k, &v) == 2) {
    if (k[0] == 'c') ch_vals[ch_n++] = (int)v; else nd_vals[nd_n++] = v;
  }
  fclose(f);
}
static long long next_nd(void) { load(); return nd_pos < nd_n ? nd_vals[nd_pos++] : 0; }
int nondet_int(void) { return (int)next_nd(); }
unsigned nondet_uint(void) { return (unsigned)next_nd(); }
unsigned char nondet_uchar(void) { return (unsigned char)next_nd(); }
long nondet_long(void) { return (long)next_nd(); }
#ifndef VF_TRANSLATED
void __CPROVER_assert(int c, const char *m) { if (!c) { fflush(stdout); fprintf(stderr, "VF_ASSERT_FAILED: %s\n", m); fflush(stderr); _Exit(42); } }
void __CPROVER_assume(int c) { if (!c) { fflush(stdout); fprintf(stderr, "VF_ASSUME_VIOLATED\n"); _Exit(77); } }
int vf_choice(int n) {
  load();
  if (ch_pos >= ch_n) { fprintf(stderr, "VF_SPEC skeleton vector too short\n"); _Exit(3); }
  int v = ch_vals[ch_pos++];
  if (v < 0) v = (int)next_nd();
  if (v < 0 || v >= n) { fprintf(stderr, "VF_SPEC skeleton value out of range\n"); _Exit(3); }
  return v;
}
void vf_choice_end(void) { if (ch_pos != ch_n) { fprintf(stderr, "VF_SPEC skeleton vector not fully consumed\n"); _Exit(3); } }
void vf_out(long v) { printf("OUT %ld\n", v); }
void vf_witness(void) { }
#else
/* translated-C build: rt.h provides the interface; it only needs the choice vector */
int VF_CHOICES[65536]; int VF_NCHOICES;
void vf_native_load_choices(void) { load(); for (int i = 0; i < ch_n; i++) VF_CHOICES[i] = ch_vals[i]; VF_NCHOICES = ch_n; }
#endif
