/* Turnstile runtime for replaying an E2 counterexample against the real code: the scenario's own LLVM IR gets a call to
 * vf_sched_point() in front of every memory instruction (tools/e2replay.py), is compiled natively and linked with this file.
 * Real pthreads execute the scenario threads; the controller admits them in exactly the order the solver's model gives.
 * Schedule file (VF_SCHEDULE): lines "s <tid> <ordinal>" (let thread tid complete its ordinal-th memory instruction),
 * "n <tid> <value>" (nondet values per thread, in call order; tid 0 = vf_setup).
 * Exit codes: 42 vf_assert failed, 45 hang/deadlock after the schedule, 3 schedule could not be followed, 0 nothing failed. */
#define _GNU_SOURCE
#include <pthread.h>
#include <stdatomic.h>
#include <stdio.h>
#include <stdlib.h>
#include <string.h>
#include <unistd.h>
#include <sched.h>
#include <limits.h>
#include <time.h>
#define MAXT 8
extern void vf_setup(void);
extern void vf_check(void) __attribute__((weak));
extern void vf_thread_1(void) __attribute__((weak));
extern void vf_thread_2(void) __attribute__((weak));
extern void vf_thread_3(void) __attribute__((weak));
extern void vf_thread_4(void) __attribute__((weak));
static void (*entries[MAXT])(void);
static __thread int my_tid; static __thread long my_count;
static atomic_long allowed[MAXT], arrived[MAXT]; static atomic_int finished[MAXT];
static long long nd_vals[MAXT][256]; static int nd_n[MAXT]; static __thread int nd_pos;
static int sched_t[65536]; static long sched_o[65536]; static int sched_n;
static int nthreads;
static double now(void) { struct timespec ts; clock_gettime(CLOCK_MONOTONIC, &ts); return ts.tv_sec + ts.tv_nsec * 1e-9; }

void vf_sched_point(void) {
  if (my_tid == 0) return;
  long k = ++my_count;
  atomic_store(&arrived[my_tid], k);
  while (atomic_load(&allowed[my_tid]) < k) sched_yield();
}
void vf_assert(int c, const char *m) { if (!c) { fprintf(stderr, "VF_ASSERT_FAILED: %s\n", m); fflush(stderr); _Exit(42); } }
void vf_reach(const char *m) { (void)m; }
/* merge point of the symbolic engine: memory-instruction ordinals restart, keyed by the segment number in the high bits */
void vf_join(void) { if (my_tid) my_count = ((my_count >> 32) + 1) << 32; }
void __CPROVER_assume(int c) { if (!c) { fprintf(stderr, "VF_ASSUME_VIOLATED\n"); _Exit(77); } }
static long long next_nd(void) { int t = my_tid; return nd_pos < nd_n[t] ? nd_vals[t][nd_pos++] : 0; }
int nondet_int(void) { return (int)next_nd(); }
unsigned nondet_uint(void) { return (unsigned)next_nd(); }
/* std::atomic<T>::wait through the shadow header: a scheduling point, then block while the value is unchanged */
void vf_atomic_wait(const void *addr, unsigned long long old, unsigned size) {
  vf_sched_point();
  for (;;) {
    unsigned long long cur = 0;
    if (size == 1) cur = atomic_load((_Atomic unsigned char *)addr); else if (size == 2) cur = atomic_load((_Atomic unsigned short *)addr);
    else if (size == 4) cur = atomic_load((_Atomic unsigned *)addr); else cur = atomic_load((_Atomic unsigned long long *)addr);
    if (cur != old) return;
    sched_yield();
  }
}
void vf_atomic_notify(const void *addr, int all) { (void)addr; (void)all; }
static void *runner(void *a) { my_tid = (int)(long)a; my_count = 0; nd_pos = 0; entries[my_tid](); atomic_store(&arrived[my_tid], LONG_MAX); atomic_store(&finished[my_tid], 1); return 0; }
int main(int argc, char **argv) {
  const char *fn = getenv("VF_SCHEDULE");
  entries[1] = vf_thread_1; entries[2] = vf_thread_2; entries[3] = vf_thread_3; entries[4] = vf_thread_4;
  for (nthreads = 0; nthreads < 4 && entries[nthreads + 1]; nthreads++) ;
  if (fn) {
    FILE *f = fopen(fn, "r"); if (!f) { perror(fn); return 3; }
    char k[8]; long long a, b;
    while (fscanf(f, "%7s %lld %lld", k, &a, &b) == 3) {
      if (k[0] == 's') { sched_t[sched_n] = (int)a; sched_o[sched_n] = (long)b; sched_n++; }
      else if (k[0] == 'n') nd_vals[a][nd_n[a]++] = b;
    }
    fclose(f);
  }
  my_tid = 0;
  vf_setup();
  pthread_t th[MAXT];
  for (int t = 1; t <= nthreads; t++) pthread_create(&th[t], 0, runner, (void *)(long)t);
  for (int i = 0; i < sched_n; i++) {
    int t = sched_t[i]; long o = sched_o[i];
    if (t < 1 || t > nthreads) continue;      /* vf_check events are not scheduled */
    if (atomic_load(&allowed[t]) < o) atomic_store(&allowed[t], o);
    double t0 = now();
    while (atomic_load(&arrived[t]) <= o) {
      if (now() - t0 > 5.0) { fprintf(stderr, "VF_REPLAY: thread %d does not get past memory instruction %ld (schedule diverged)\n", t, o); _Exit(3); }
      sched_yield();
    }
  }
  for (int t = 1; t <= nthreads; t++) atomic_store(&allowed[t], LONG_MAX);
  double t0 = now();
  for (int t = 1; t <= nthreads; t++) {
    while (!atomic_load(&finished[t])) {
      if (now() - t0 > 3.0) { fprintf(stderr, "VF_HANG: thread %d is still blocked after every other step of the schedule was taken\n", t); _Exit(45); }
      sched_yield();
    }
    pthread_join(th[t], 0);
  }
  if (vf_check) vf_check();
  fflush(stdout); fflush(stderr);
  _Exit(0);       /* no static destructors: a scenario may legitimately end with a mutex still owned, which the library's destructor assert()s on */
}
