/* runtime model for ir2c output (sequential). Everything here is part of the claim. */
#include <stdint.h>
#include <stddef.h>
void *malloc(size_t); void free(void*); void *memcpy(void*, const void*, size_t); void *memmove(void*, const void*, size_t);
void *memset(void*, int, size_t); void abort(void); void exit(int);

#ifndef __CPROVER__
#include <stdio.h>
#include <assert.h>
static void __CPROVER_assert(int c, const char *m) { if (!c) { fflush(stdout); fprintf(stderr, "VF_ASSERT_FAILED: %s\n", m); exit(42); } }
static void __CPROVER_assume(int c) { if (!c) { fflush(stdout); fprintf(stderr, "VF_ASSUME_VIOLATED\n"); exit(77); } }
#endif

/* ---------------- lock discipline (C03 b): with -DVF_DISCIPLINE every translated load/store/atomic access additionally asserts that an access to
   protected memory (objects registered with vf_protect, and heap blocks allocated while their lock was held) happens with that lock held */
struct rt_prot { const void *base; const int *lock; unsigned long size; int objonly; };
struct rt_prot rt_prots[32]; int rt_nprot; int rt_discipline;
#if defined(__CPROVER__) && defined(VF_DISCIPLINE)
static void rt_access(const void *p) {
  int i;
  if (!rt_discipline) return;
  for (i = 0; i < rt_nprot; i++)
    if (__CPROVER_same_object(p, rt_prots[i].base) && __CPROVER_POINTER_OFFSET(p) >= __CPROVER_POINTER_OFFSET(rt_prots[i].base) &&
        (unsigned long)(__CPROVER_POINTER_OFFSET(p) - __CPROVER_POINTER_OFFSET(rt_prots[i].base)) < rt_prots[i].size)
      __CPROVER_assert(*rt_prots[i].lock == 1, "C03 lock discipline: state of a lock-protected component accessed without holding its mutex");
}
#define RT_ACC(p) rt_access((const void*)(p))
#elif defined(VF_DISCIPLINE)
/* native execution of the translation (counterexample confirmation): the same obligation by address range */
static void rt_access(const void *p) {
  int i;
  if (!rt_discipline) return;
  for (i = 0; i < rt_nprot; i++)
    if ((const char*)p >= (const char*)rt_prots[i].base && (const char*)p < (const char*)rt_prots[i].base + rt_prots[i].size && *rt_prots[i].lock != 1)
      __CPROVER_assert(0, "C03 lock discipline: state of a lock-protected component accessed without holding its mutex");
}
#define RT_ACC(p) rt_access((const void*)(p))
#else
#define RT_ACC(p) do { } while (0)
#endif
void vf_protect(void *obj, unsigned long size, void *lock) { if (rt_nprot < 32) { rt_prots[rt_nprot].base = obj; rt_prots[rt_nprot].lock = (const int*)lock; rt_prots[rt_nprot].size = size; rt_prots[rt_nprot].objonly = 0; rt_nprot++; } rt_discipline = 1; }
/* the object only: heap blocks allocated under its lock are not tracked (for components that hand such blocks to a local owner under the lock and release them outside it, e.g. thread_pool::stop) */
void vf_protect_obj(void *obj, unsigned long size, void *lock) { vf_protect(obj, size, lock); rt_prots[rt_nprot - 1].objonly = 1; }
void vf_unprotect_all(void) { rt_nprot = 0; rt_discipline = 0; }
static void rt_prot_note_alloc(void *p, unsigned long size) {
  int i, n = rt_nprot;
  if (!rt_discipline) return;
  for (i = 0; i < n; i++)
    if (!rt_prots[i].objonly && *rt_prots[i].lock == 1 && rt_nprot < 32) { rt_prots[rt_nprot].objonly = 0; rt_prots[rt_nprot].base = p; rt_prots[rt_nprot].lock = rt_prots[i].lock; rt_prots[rt_nprot].size = size; rt_nprot++; break; }
}

#ifdef __CPROVER__
#define RT_CHK(p, n) do { __CPROVER_assert(__CPROVER_rw_ok((p), (n)), "memory: invalid/freed/out-of-bounds access"); __CPROVER_assume(__CPROVER_rw_ok((p), (n))); RT_ACC(p); } while (0)
#else
#define RT_CHK(p, n) do { RT_ACC(p); } while (0)
#endif
/* memmove between two different objects may copy in either direction: lets symex fold the direction test (pointers into distinct objects have no constant order) */
#ifdef __CPROVER__
#define RT_DISTINCT_OBJ(a, b) (!__CPROVER_same_object((a), (b)))
#else
#define RT_DISTINCT_OBJ(a, b) 0
#endif
struct rt_cx_ptr { uint8_t *f0; uint8_t f1; };

/* ---------------- harness interface (see harness/vf.h) */
/* skeleton inputs: per-query constant vector linked in from a three-line file; -1 = nondet (mode M1) */
#ifdef __CPROVER__
extern const int VF_CHOICES[];
extern const int VF_NCHOICES;
#else
extern int VF_CHOICES[];
extern int VF_NCHOICES;
int strcmp(const char*, const char*);
#endif
unsigned nondet_uint(void); unsigned char nondet_uchar(void); long nondet_long(void);
int vf_choice_pos;
uint64_t vf_nd_log;            /* every nondet value is copied here so that --trace lists them in call order */
#define RT_ND(x) (vf_nd_log = (uint64_t)(x))
int vf_choice_log;
int nondet_int(void);
static int vf_choice(int n) {
  __CPROVER_assert(vf_choice_pos < VF_NCHOICES, "VF_SPEC skeleton vector too short");
  __CPROVER_assume(vf_choice_pos < VF_NCHOICES);
  int v = VF_CHOICES[vf_choice_pos++];
  if (v < 0) { v = nondet_int(); RT_ND((uint32_t)v); __CPROVER_assume(v >= 0 && v < n); }
  __CPROVER_assert(v < n, "VF_SPEC skeleton value out of range");
  __CPROVER_assume(v < n);
  return v;
}
static void vf_choice_end(void) { __CPROVER_assert(vf_choice_pos == VF_NCHOICES, "VF_SPEC skeleton vector not fully consumed"); }
#ifdef __CPROVER__
static void vf_witness(void) { __CPROVER_assert(0, "VF_WITNESS"); }
#else
static void vf_witness(void) { }
#endif
#ifdef __CPROVER__
static void vf_out(long v) { }
#else
static void vf_out(long v) { printf("OUT %ld\n", v); fflush(stdout); }   /* flushed like native_rt.c: traces must agree up to a crash */
#endif

/* ---------------- allocation accounting */
long rt_live_allocs;      /* blocks currently allocated by operator new */
long rt_total_allocs;     /* number of operator new calls */
long rt_count_allocs;     /* number of operator new calls while rt_counting != 0 */
int  rt_counting;

/* allocation failure on demand (the default environment never fails an allocation): vf_new_fail_at(k) makes the k-th operator new from now on throw
   std::bad_alloc. ir2c emits the test in front of every operator new of a TU whose harness uses it. */
int rt_new_fail_k, rt_new_calls;
void vf_new_fail_at(int k) { rt_new_fail_k = k; rt_new_calls = 0; }
static int rt_new_fails(void) {
  if (rt_new_fail_k != 0 && ++rt_new_calls == rt_new_fail_k) { rt_new_fail_k = 0; return 1; }
  return 0;
}
static void *rt_new(uint64_t n) {
  void *p = malloc(n ? n : 1);
  __CPROVER_assume(p != 0);
  rt_live_allocs++; rt_total_allocs++;
  if (rt_counting) rt_count_allocs++;
  rt_prot_note_alloc(p, n);
  return p;
}
static void rt_new_note(void *p, uint64_t size_) {
  __CPROVER_assume(p != 0);
  rt_live_allocs++; rt_total_allocs++;
  if (rt_counting) rt_count_allocs++;
  rt_prot_note_alloc(p, size_);
}
static void rt_delete(void *p) {
  if (p) { rt_live_allocs--; free(p); }
}

long vf_live_allocs(void) { return rt_live_allocs; }
long vf_total_allocs(void) { return rt_total_allocs; }
void vf_region_begin(void) { rt_counting = 1; rt_count_allocs = 0; }
long vf_region_end(void) { rt_counting = 0; return rt_count_allocs; }

/* ---------------- exceptions */
int rt_exc_pending;
int rt_uncaught;            /* std::uncaught_exceptions(): thrown or rethrown and not yet entered a handler */
void *rt_exc_obj;
struct rt_exc_hdr { long refs; void *ti; void *pad; void *pad2; };
#define RT_HDR(o) ((struct rt_exc_hdr*)((char*)(o) - sizeof(struct rt_exc_hdr)))
void *rt_caught[8]; int rt_caught_n;
long rt_exc_live;
extern void *rt_si_vptr(void);   /* generated */

static void *rt_cxa_allocate_exception(uint64_t n) {
  char *p = malloc(n + sizeof(struct rt_exc_hdr));
  __CPROVER_assume(p != 0);
  struct rt_exc_hdr *h = (struct rt_exc_hdr*)p;
  h->refs = 0; h->ti = 0;
  rt_exc_live++;
  return p + sizeof(struct rt_exc_hdr);
}
static void rt_exc_release(void *o) {
  struct rt_exc_hdr *h = RT_HDR(o);
  if (--h->refs == 0) { rt_exc_live--; free(h); }
}
static void rt_cxa_free_exception(void *o) { rt_exc_live--; free(RT_HDR(o)); }
static void *rt_cxa_init_primary_exception(void *o, void *ti, void *dtor) {
  RT_HDR(o)->ti = ti; RT_HDR(o)->refs = 0; return RT_HDR(o);
}
static void rt_cxa_throw(void *o, void *ti, void *dtor) {
  RT_HDR(o)->ti = ti; RT_HDR(o)->refs = 1;
  rt_exc_obj = o; rt_exc_pending = 1; rt_uncaught++;
}
static int rt_type_matches(void *t, void *c) {
  int i;
  for (i = 0; i < 4 && t; i++) {
    if (t == c) return 1;
    if (*(void**)t == rt_si_vptr()) t = ((void**)t)[2]; else break;
  }
  return 0;
}
/* returns thrown object; *sel = selector (translator-assigned concrete id of the matching clause's typeinfo),
   0 for a cleanup-only pad, or 0xffffffff when this pad does not apply */
static void *rt_landing(uint32_t *sel, int n, void **clauses, uint32_t *ids, int cleanup) {
  int i;
  void *ti = RT_HDR(rt_exc_obj)->ti;
  rt_exc_pending = 0;
  for (i = 0; i < n; i++) {
    if (clauses[i] == 0) { *sel = 0x7fffff; return rt_exc_obj; }
    if (rt_type_matches(ti, clauses[i])) { *sel = ids[i]; return rt_exc_obj; }
  }
  *sel = cleanup ? 0 : 0xffffffffu;
  return rt_exc_obj;
}
static void rt_resume_unwind(void *o) { rt_exc_obj = o; rt_exc_pending = 1; }
static void *rt_cxa_begin_catch(void *o) {
  __CPROVER_assert(rt_caught_n < 8, "rt: caught stack overflow");
  rt_caught[rt_caught_n++] = o; rt_exc_pending = 0; if (rt_uncaught > 0) rt_uncaught--;
  return o;
}
static void rt_cxa_end_catch(void) {
  __CPROVER_assert(rt_caught_n > 0, "rt: end_catch without begin_catch");
  void *o = rt_caught[--rt_caught_n];
  rt_exc_release(o);
}
static void rt_cxa_rethrow(void) {
  __CPROVER_assert(rt_caught_n > 0, "rt: rethrow without active exception (std::terminate)");
  void *o = rt_caught[rt_caught_n - 1];
  RT_HDR(o)->refs++;
  rt_exc_obj = o; rt_exc_pending = 1; rt_uncaught++;
}
/* std::current_exception(): sret exception_ptr { void *obj } */
static void rt_current_exception(void **ep) {
  if (rt_caught_n > 0) { *ep = rt_caught[rt_caught_n - 1]; RT_HDR(*ep)->refs++; } else *ep = 0;
}
static void rt_rethrow_exception(void **ep) {
  void *o = *ep;
  __CPROVER_assert(o != 0, "rt: rethrow_exception(null)");
  RT_HDR(o)->refs++;
  rt_exc_obj = o; rt_exc_pending = 1; rt_uncaught++;
}
static int rt_uncaught_exceptions(void) { return rt_uncaught; }
static char rt_ti_bad_alloc[32];      /* stands for typeid(std::bad_alloc): only catch (...) handlers match it */
static void rt_throw_bad_alloc(void) {
  void *o = rt_cxa_allocate_exception(8);
  rt_cxa_throw(o, rt_ti_bad_alloc, 0);
}
static void rt_eptr_addref(void **ep) { if (*ep) RT_HDR(*ep)->refs++; }
static void rt_eptr_release(void **ep) { if (*ep) { rt_exc_release(*ep); *ep = 0; } }
static void rt_eptr_ctor(void **ep, void *o) { *ep = o; if (o) RT_HDR(o)->refs++; }

static void rt_unreachable(void) {
  if (!rt_exc_pending) { __CPROVER_assert(0, "rt: 'unreachable' reached"); __CPROVER_assume(0); }
}
static void rt_trap(void) { __CPROVER_assert(0, "rt: llvm.trap"); __CPROVER_assume(0); }
static void rt_terminate(void) { __CPROVER_assert(0, "rt: std::terminate called"); __CPROVER_assume(0); }

/* ---------------- pthread mutex: first word of the object is the lock flag */
int rt_parking;  /* cooperative thread model below: set while a parked thread's frames are being left */
/* Injection of another thread's operation at lock-region granularity: the harness arms the hook with vf_inject_arm(fn, k); the k-th mutex
   acquisition after that first runs fn() (the lock is free at that moment) - i.e. the other thread's operation takes place between two critical
   sections of the operation in progress. With k ranging over all acquisitions this covers every interleaving of two operations whose shared
   accesses all happen under the lock (which the lock-discipline obligation of C03 establishes). */
typedef void rt_inject_fn(void);
rt_inject_fn *rt_inject_f; int rt_inject_at; int rt_lock_events; int rt_in_hook;
void vf_inject_arm(rt_inject_fn *fn, int k) { rt_inject_f = fn; rt_inject_at = k; rt_lock_events = 0; }
int vf_inject_pending(void) { return rt_inject_f != 0; }
void vf_inject_disarm(void) { rt_inject_f = 0; rt_inject_at = 0; }
static void rt_lock_hook(void) {
  if (rt_inject_f != 0 && !rt_in_hook) {
    rt_lock_events++;
    if (rt_lock_events == rt_inject_at) { rt_inject_fn *f = rt_inject_f; rt_inject_f = 0; rt_in_hook = 1; f(); rt_in_hook = 0; }
  }
}
/* The same at atomic-operation granularity (lock-free code): the k-th atomic instruction (load, store, exchange, compare-exchange, fetch-op)
   executed after vf_ainject_arm(fn, k) is preceded by fn() - the complete operation of another thread lands in the window between two atomic
   steps of the operation in progress. ir2c emits RT_ATOMIC_POINT() in front of every atomic instruction of a TU that uses the hook. */
rt_inject_fn *rt_ainject_f; int rt_ainject_at; int rt_atomic_events;
void vf_ainject_arm(rt_inject_fn *fn, int k) { rt_ainject_f = fn; rt_ainject_at = k; rt_atomic_events = 0; }
int vf_ainject_pending(void) { return rt_ainject_f != 0; }
void vf_ainject_disarm(void) { rt_ainject_f = 0; rt_ainject_at = 0; }
int vf_ainject_events(void) { return rt_atomic_events; }
static void rt_atomic_hook(void) {
  if (rt_ainject_f != 0 && !rt_in_hook) {
    rt_atomic_events++;
    if (rt_atomic_events == rt_ainject_at) { rt_inject_fn *f = rt_ainject_f; rt_ainject_f = 0; rt_in_hook = 1; f(); rt_in_hook = 0; }
  }
}
#define RT_ATOMIC_POINT() rt_atomic_hook()
/* "another thread acts while a worker is about to wait" (cooperative thread model, C11): one-shot hook armed by the harness (vf_prepark_arm). When a modelled
   thread calls condition_variable::wait (its predicate was false, it holds the mutex, it is not yet registered as a waiter), fn() runs as the harness thread.
   What fn does before it needs that mutex happens while the thread is not waiting yet (a notification is lost on it); when fn locks the mutex it blocks until
   the waiter releases it by waiting - the model completes the park at that moment and lets fn go on (notifications from then on wake the thread, a join may run it). */
rt_inject_fn *rt_prepark_f; int rt_prepark_thread; int *rt_prepark_mutex; void *rt_prepark_cv;
void vf_prepark_arm(rt_inject_fn *fn) { rt_prepark_f = fn; }
int vf_prepark_pending(void) { return rt_prepark_f != 0; }
static void rt_prepark_complete(int *st);
static int rt_mutex_lock(void *m) {
  int *st = (int*)m;
  if (rt_prepark_thread && st == rt_prepark_mutex && *st == 1) rt_prepark_complete(st);
  rt_lock_hook();
  __CPROVER_assert(!rt_parking, "rt: model limitation: a parked thread kept running (wait reached through an indirect call)");
  __CPROVER_assert(*st == 0, "rt: std::mutex locked twice by the only thread (self-deadlock)");
  __CPROVER_assume(*st == 0);   /* the thread never gets past a self-deadlock: report it once, do not explore what cannot run */
  *st = 1; return 0;
}
static int rt_mutex_unlock(void *m) {
  int *st = (int*)m;
  __CPROVER_assert(*st == 1, "rt: std::mutex unlocked while not locked");
  *st = 0; return 0;
}

static int rt_ret0(void) { return 0; }
static void rt_nop(void) { }
static void rt_throw_lib(void) { __CPROVER_assert(0, "rt: libstdc++ __throw_* (length_error/bad_alloc/...)"); __CPROVER_assume(0); }

int rt_cur;   /* current modelled thread (cooperative thread model below): 0 = the harness (main) thread */
static unsigned long rt_pthread_self(void) { return 1 + (unsigned long)rt_cur; }
static int rt_errno; static int *rt_errno_location(void) { return &rt_errno; }
static int rt_strcmp(const void *a, const void *b) {
  const unsigned char *x = a, *y = b; int i;
  for (i = 0; i < 128; i++) { if (x[i] != y[i]) return x[i] < y[i] ? -1 : 1; if (!x[i]) return 0; }
  return 0;
}
/* futex: op 0/128 = WAIT(_PRIVATE) would block the only thread forever; WAKE is a no-op */
static long rt_syscall(long nr, void *addr, long op, long val) {
  if ((op & 127) == 0 || (op & 127) == 9) { __CPROVER_assert(0, "rt: blocking futex wait with no other thread (hang)"); __CPROVER_assume(0); }
  return 0;
}

/* std::atomic<T>::wait / notify (via shadow bits/atomic_wait.h) */
/* "another thread acts while this one is blocked": the harness arms a one-shot hook; a blocking wait that would otherwise never end first runs it
   (e.g. the other thread completes the operation a generator body is waiting for) and then looks at the value again */
typedef void rt_wait_fn(void);
rt_wait_fn *rt_wait_f;
void vf_wait_arm(rt_wait_fn *f) { rt_wait_f = f; }
void vf_wait_done(void) { rt_wait_f = 0; }
static uint64_t rt_wait_read(uint8_t *addr, uint32_t size) {
  if (size == 1) return *(uint8_t*)addr; else if (size == 2) return *(uint16_t*)addr; else if (size == 4) return *(uint32_t*)addr; else return *(uint64_t*)addr;
}
void vf_atomic_wait(uint8_t *addr, uint64_t old, uint32_t size) {
  uint64_t cur = rt_wait_read(addr, size);
  if (cur == old && rt_wait_f != 0) { rt_wait_fn *f = rt_wait_f; rt_wait_f = 0; f(); cur = rt_wait_read(addr, size); }
  __CPROVER_assert(cur != old, "rt: atomic wait would block forever (no other thread can change the value)");
  __CPROVER_assume(cur != old);
}
void vf_atomic_notify(uint8_t *addr, uint32_t all) { }

/* ---------------- virtual clock (C12). std::chrono::system_clock::now() / clock_gettime read rt_clock_ns. A timed
   condition-variable wait in the only modelled thread can only end by time-out: it advances the clock to the deadline
   (never backwards) and reports ETIMEDOUT; a deadline of time_point::max() (or a plain wait, see C11) can never be woken. */
int64_t rt_clock_ns;
long rt_clock_waits;          /* number of timed waits performed (an observation for harnesses) */
long vf_clock_now(void) { return (long)rt_clock_ns; }
void vf_clock_set(long ns) { rt_clock_ns = ns; }
long vf_clock_waits(void) { return rt_clock_waits; }
static int64_t rt_system_clock_now(void) { return rt_clock_ns; }
struct rt_timespec { int64_t tv_sec; int64_t tv_nsec; };
static int rt_clock_gettime(long clk, void *ts) {
  struct rt_timespec *t = (struct rt_timespec*)ts;
  t->tv_sec = rt_clock_ns / 1000000000; t->tv_nsec = rt_clock_ns % 1000000000; return 0;
}
/* "another thread acts while this one sits in a timed condition-variable wait": one-shot hook armed by the harness (vf_cwait_arm). The wait has released
   the mutex; the other thread's operation runs; if it notified the condition variable the wait returns at once (woken, clock unchanged), otherwise it
   times out as usual. A notification issued while nobody waits is lost, as in reality. */
rt_inject_fn *rt_cwait_f; int rt_cond_notified;
void vf_cwait_arm(rt_inject_fn *fn) { rt_cwait_f = fn; }
int vf_cwait_pending(void) { return rt_cwait_f != 0; }
void vf_cwait_disarm(void) { rt_cwait_f = 0; }
static int rt_cond_timedwait(void *c, void *m, void *ts) {
  struct rt_timespec *t = (struct rt_timespec*)ts;
  int *st = (int*)m;
  __CPROVER_assert(*st == 1, "rt: condition_variable timed wait while the mutex is not locked");
  if (rt_cwait_f != 0 && !rt_in_hook) {
    rt_inject_fn *f = rt_cwait_f; rt_cwait_f = 0; rt_cond_notified = 0;
    *st = 0; rt_in_hook = 1; f(); rt_in_hook = 0;
    __CPROVER_assert(*st == 0, "rt: the other thread left the mutex locked");
    *st = 1;
    if (rt_cond_notified) return 0;
  }
  if (t->tv_sec >= 9223372036L) {   /* time_point::max() */
    __CPROVER_assert(0, "rt: condition_variable wait without deadline and no other thread to notify (blocks forever)");
    __CPROVER_assume(0);
  }
  int64_t d = t->tv_sec * 1000000000 + t->tv_nsec;
  if (d > rt_clock_ns) rt_clock_ns = d;
  rt_clock_waits++;
  return 110; /* ETIMEDOUT */
}
static int rt_cond_clockwait(void *c, void *m, long clk, void *ts) { return rt_cond_timedwait(c, m, ts); }

/* ---------------- cooperative thread model (C11). A std::thread is an entry of a table holding its start closure; it does not run by
   itself: the harness (or a join) runs it with vf_thread_run(i) as an ordinary call on the single modelled CPU, until its function
   returns (finished) or it reaches std::condition_variable::wait (parked). Parking sets rt_parking; the translator makes every frame
   between the wait and rt_thread_run return at once, without landing pads (the wait released the mutex). A parked thread that was
   notified is run again by calling its start function again from the beginning. MODEL ASSUMPTION (stated in the evidence): the
   thread function reaches the wait with no live state other than the lock it re-acquires, so "continue after the wait" and "start
   over" are the same behaviour (true of cocls::thread_pool::worker(): `_current = this`, lock, re-evaluate the predicate).
   A parked thread only becomes runnable through notify_one/notify_all issued after it parked (lost notifications stay visible);
   spurious wake-ups are not modelled. notify_one wakes the parked thread with the lowest (mode 0) or highest (mode 1) index.
   join(t) runs t (and, while t is not runnable, other runnable threads) until t has finished; nothing runnable = deadlock.
   thread_local variables have one copy per modelled thread (translator: g[rt_cur]); their destructors run when the thread finishes. */
#define RT_MAXT 4
enum { RT_T_NONE = 0, RT_T_READY = 1, RT_T_PARKED = 2, RT_T_WOKEN = 3, RT_T_RUNNING = 4, RT_T_FINISHED = 5 };
int rt_parking;
int rt_nthreads;
int rt_t_state[RT_MAXT + 1];
int rt_t_detached[RT_MAXT + 1];
void *rt_t_closure[RT_MAXT + 1];
void *rt_t_cond[RT_MAXT + 1];
void *rt_t_atexit_fn[RT_MAXT + 1][2]; void *rt_t_atexit_obj[RT_MAXT + 1][2]; int rt_t_atexit_n[RT_MAXT + 1];
int rt_cond_pick;
extern void rt_thread_invoke(void *state);            /* generated: state->_M_run() */
extern void rt_thread_dispose(void *state);           /* generated: delete state */
extern void rt_call_atexit(void *fn, void *obj);      /* generated: fn(obj) */

static int rt_thread_atexit(void *fn, void *obj) {
  if (rt_cur == 0) return 0;     /* main thread: never torn down (allocation baselines are taken after warm-up) */
  int n = rt_t_atexit_n[rt_cur];
  __CPROVER_assert(n < 2, "rt: more than 2 thread_local destructors in a modelled thread"); __CPROVER_assume(n < 2);
  rt_t_atexit_fn[rt_cur][n] = fn; rt_t_atexit_obj[rt_cur][n] = obj; rt_t_atexit_n[rt_cur] = n + 1;
  return 0;
}
static unsigned rt_hw_concurrency(void) { return 0; }
static void rt_thread_start(void *thr, void *uptr) {
  __CPROVER_assert(rt_nthreads < RT_MAXT, "rt: more than RT_MAXT modelled threads"); __CPROVER_assume(rt_nthreads < RT_MAXT);
  int i = ++rt_nthreads;
  rt_t_state[i] = RT_T_READY; rt_t_detached[i] = 0; rt_t_atexit_n[i] = 0;
  rt_t_closure[i] = *(void**)uptr; *(void**)uptr = 0;
  *(uint64_t*)thr = 1 + (uint64_t)i;       /* std::thread::id == pthread_self() of the new thread */
}
int vf_thread_count(void) { return rt_nthreads; }
int vf_thread_self(void) { return rt_cur; }
int vf_thread_state(int i) { return (i >= 1 && i <= rt_nthreads) ? rt_t_state[i] : RT_T_NONE; }
int vf_thread_detached(int i) { return (i >= 1 && i <= rt_nthreads) ? rt_t_detached[i] : 0; }
int vf_thread_runnable(int i) { return i >= 1 && i <= rt_nthreads && (rt_t_state[i] == RT_T_READY || rt_t_state[i] == RT_T_WOKEN); }
void vf_cond_pick(int mode) { rt_cond_pick = mode; }
void vf_thread_run(int i) {
  __CPROVER_assert(vf_thread_runnable(i), "VF_SPEC vf_thread_run of a thread that is not runnable"); __CPROVER_assume(vf_thread_runnable(i));
  __CPROVER_assert(!rt_parking, "rt: model limitation: a parked thread kept running");
  int prev = rt_cur;
  rt_cur = i; rt_t_state[i] = RT_T_RUNNING;
  rt_thread_invoke(rt_t_closure[i]);
  if (rt_parking) {
    rt_parking = 0;                         /* rt_cond_wait left the state PARKED */
  } else {
    __CPROVER_assert(!rt_exc_pending, "rt: exception leaves a thread function (std::terminate)"); __CPROVER_assume(!rt_exc_pending);
    rt_thread_dispose(rt_t_closure[i]); rt_t_closure[i] = 0;
    while (rt_t_atexit_n[i] > 0) { int n = --rt_t_atexit_n[i]; rt_call_atexit(rt_t_atexit_fn[i][n], rt_t_atexit_obj[i][n]); }
    rt_t_state[i] = RT_T_FINISHED;
  }
  rt_cur = prev;
}
static void rt_cond_wait(void *cv, void *ulock) {
  int *st = *(int**)ulock;                  /* std::unique_lock { mutex *_M_device; bool _M_owns; } */
  __CPROVER_assert(*st == 1, "rt: condition_variable::wait while the mutex is not locked");
  if (rt_cur == 0) {
    __CPROVER_assert(0, "rt: condition_variable::wait in the main thread with its predicate false (blocks forever in this model)");
    __CPROVER_assume(0);
  }
  if (rt_prepark_f != 0 && !rt_in_hook) {
    rt_inject_fn *f = rt_prepark_f; int me = rt_cur;
    rt_prepark_f = 0; rt_prepark_thread = me; rt_prepark_mutex = st; rt_prepark_cv = cv;
    rt_cur = 0; rt_in_hook = 1;
    f();
    rt_in_hook = 0; rt_cur = me;
    if (rt_prepark_thread == 0) { rt_parking = 1; return; }     /* fn blocked on the mutex: the park was completed there (the thread may even have run to its end since) */
    rt_prepark_thread = 0;
  }
  *st = 0;
  rt_t_state[rt_cur] = RT_T_PARKED; rt_t_cond[rt_cur] = cv;
  rt_parking = 1;
}
static void rt_prepark_complete(int *st) {
  int t = rt_prepark_thread;
  rt_prepark_thread = 0;
  *st = 0;
  rt_t_state[t] = RT_T_PARKED; rt_t_cond[t] = rt_prepark_cv;
}
static void rt_cond_notify_all(void *cv) {
  int i;
  rt_cond_notified = 1;
  for (i = 1; i <= rt_nthreads; i++) if (rt_t_state[i] == RT_T_PARKED && rt_t_cond[i] == cv) rt_t_state[i] = RT_T_WOKEN;
}
static void rt_cond_notify_one(void *cv) {
  int i, pick = 0;
  rt_cond_notified = 1;
  for (i = 1; i <= rt_nthreads; i++)
    if (rt_t_state[i] == RT_T_PARKED && rt_t_cond[i] == cv && (pick == 0 || rt_cond_pick == 1)) pick = i;
  if (pick) rt_t_state[pick] = RT_T_WOKEN;
}
static void rt_thread_join(void *thr) {
  uint64_t id = *(uint64_t*)thr;
  __CPROVER_assert(id >= 2 && id <= 1 + (uint64_t)rt_nthreads, "rt: join of a std::thread that is not joinable (std::system_error)");
  __CPROVER_assume(id >= 2 && id <= 1 + (uint64_t)rt_nthreads);
  int i = (int)(id - 1), k, u, r;
  __CPROVER_assert(i != rt_cur, "rt: a thread joins itself (deadlock)"); __CPROVER_assume(i != rt_cur);
  for (k = 0; k < 2 * RT_MAXT && rt_t_state[i] != RT_T_FINISHED; k++) {
    if (vf_thread_runnable(i)) { vf_thread_run(i); continue; }
    if (rt_t_state[i] == RT_T_RUNNING) {
      __CPROVER_assert(0, "rt: join of a thread that is itself waiting for the joining thread (deadlock)"); __CPROVER_assume(0);
    }
    r = 0;
    for (u = 1; u <= rt_nthreads; u++) if (!r && vf_thread_runnable(u)) r = u;
    if (!r) {
      __CPROVER_assert(0, "rt: join blocks forever: the thread is parked in condition_variable::wait and nothing can notify it (deadlock)");
      __CPROVER_assume(0);
    }
    vf_thread_run(r);
  }
  __CPROVER_assert(rt_t_state[i] == RT_T_FINISHED, "rt: join did not complete within the model's bound"); __CPROVER_assume(rt_t_state[i] == RT_T_FINISHED);
  *(uint64_t*)thr = 0;
}
static void rt_thread_detach(void *thr) {
  uint64_t id = *(uint64_t*)thr;
  __CPROVER_assert(id >= 2 && id <= 1 + (uint64_t)rt_nthreads, "rt: detach of a std::thread that is not joinable (std::system_error)");
  __CPROVER_assume(id >= 2 && id <= 1 + (uint64_t)rt_nthreads);
  rt_t_detached[(int)(id - 1)] = 1;
  *(uint64_t*)thr = 0;
}
