// Native counterpart of the cooperative thread model in rt.h (C11). Linked into the g++ builds of harnesses that create std::threads.
// The out-of-line libstdc++ entry points the translator models (std::thread::_M_start_thread/join/detach/hardware_concurrency,
// std::condition_variable::wait/notify_one/notify_all) are defined here, so the harness binds to them instead of libstdc++.so.
// Every std::thread is a real pthread (real stacks, real thread_local storage, real std::this_thread::get_id()), but a turnstile lets
// exactly one of them run at a time and only when the harness (or a join) says so with vf_thread_run(i): a thread runs until its
// function returns or until it blocks in condition_variable::wait, then control goes back to whoever ran it. The scheduling rules
// (who is runnable, whom notify_one wakes, what join does, what counts as a deadlock) are the same as in rt.h, so a schedule found by
// the solver replays deterministically here. Unlike the model, a woken thread really continues after its wait.
#include <thread>
#include <condition_variable>
#include <mutex>
#include <memory>
#include <cstdio>
#include <cstdlib>
#include <cstdint>
#include <pthread.h>
#include <semaphore.h>

extern "C" void __CPROVER_assert(int c, const char *m);

namespace {
constexpr int MAXT = 4;
enum { T_NONE = 0, T_READY = 1, T_PARKED = 2, T_WOKEN = 3, T_RUNNING = 4, T_FINISHED = 5, T_FINISHING = 6 };
struct T {
    int st = T_NONE; int detached = 0; int runner = 0;
    std::thread::_State *closure = nullptr; const void *cond = nullptr;
    pthread_t real{}; sem_t sem;
};
T th[MAXT + 1];
int nthreads = 0, pick_mode = 0;
bool inited = false;
thread_local int self_idx = 0;

[[noreturn]] void fail(const char *m) { __CPROVER_assert(0, m); std::_Exit(42); }
void init() { if (!inited) { inited = true; for (auto &t : th) sem_init(&t.sem, 0, 0); } }
int index_of(pthread_t id) { for (int i = 1; i <= nthreads; i++) if (pthread_equal(th[i].real, id)) return i; return 0; }
bool runnable(int i) { return i >= 1 && i <= nthreads && (th[i].st == T_READY || th[i].st == T_WOKEN); }

void *trampoline(void *arg) {
    int i = (int)(intptr_t)arg;
    self_idx = i;
    sem_wait(&th[i].sem);
    {
        std::unique_ptr<std::thread::_State> st(th[i].closure);
        th[i].closure = nullptr;
        st->_M_run();                        // an escaping exception calls std::terminate, as in a real std::thread
    }
    th[i].st = T_FINISHING;                  // thread_local destructors run after this function returns: the runner joins the pthread
    sem_post(&th[th[i].runner].sem);
    return nullptr;
}

void run(int i) {
    if (!runnable(i)) fail("VF_SPEC vf_thread_run of a thread that is not runnable");
    int me = self_idx;
    th[i].runner = me; th[i].st = T_RUNNING;
    sem_post(&th[i].sem);
    sem_wait(&th[me].sem);
    if (th[i].st == T_FINISHING) { pthread_join(th[i].real, nullptr); th[i].st = T_FINISHED; }
}
}

extern "C" {
int vf_thread_count(void) { return nthreads; }
int vf_thread_self(void) { return self_idx; }
int vf_thread_state(int i) { return (i >= 1 && i <= nthreads) ? th[i].st : T_NONE; }
int vf_thread_detached(int i) { return (i >= 1 && i <= nthreads) ? th[i].detached : 0; }
int vf_thread_runnable(int i) { return runnable(i); }
void vf_cond_pick(int mode) { pick_mode = mode; }
void vf_thread_run(int i) { run(i); }
}

unsigned int std::thread::hardware_concurrency() noexcept { return 0; }

void std::thread::_M_start_thread(_State_ptr state, void (*)()) {
    init();
    if (nthreads >= MAXT) fail("rt: more than RT_MAXT modelled threads");
    int i = ++nthreads;
    th[i].st = T_READY; th[i].detached = 0; th[i].closure = state.release();
    if (pthread_create(&th[i].real, nullptr, trampoline, (void *)(intptr_t)i)) fail("rt: pthread_create failed");
    _M_id._M_thread = th[i].real;
}

void std::thread::join() {
    int i = index_of(_M_id._M_thread);
    if (!i) fail("rt: join of a std::thread that is not joinable (std::system_error)");
    if (i == self_idx) fail("rt: a thread joins itself (deadlock)");
    for (int k = 0; k < 2 * MAXT && th[i].st != T_FINISHED; k++) {
        if (runnable(i)) { run(i); continue; }
        if (th[i].st == T_RUNNING) fail("rt: join of a thread that is itself waiting for the joining thread (deadlock)");
        int r = 0;
        for (int u = 1; u <= MAXT; u++) if (!r && runnable(u)) r = u;
        if (!r) fail("rt: join blocks forever: the thread is parked in condition_variable::wait and nothing can notify it (deadlock)");
        run(r);
    }
    if (th[i].st != T_FINISHED) fail("rt: join did not complete within the model's bound");
    _M_id = id();
}

void std::thread::detach() {
    int i = index_of(_M_id._M_thread);
    if (!i) fail("rt: detach of a std::thread that is not joinable (std::system_error)");
    th[i].detached = 1;                      // the pthread stays joinable: whoever runs it to its end reaps it
    _M_id = id();
}

void std::condition_variable::wait(std::unique_lock<std::mutex> &lk) {
    int me = self_idx;
    if (!lk.owns_lock()) fail("rt: condition_variable::wait while the mutex is not locked");
    if (me == 0) fail("rt: condition_variable::wait in the main thread with its predicate false (blocks forever in this model)");
    lk.mutex()->unlock();
    th[me].st = T_PARKED; th[me].cond = this;
    sem_post(&th[th[me].runner].sem);
    sem_wait(&th[me].sem);
    lk.mutex()->lock();
}

void std::condition_variable::notify_all() noexcept {
    for (int i = 1; i <= nthreads; i++) if (th[i].st == T_PARKED && th[i].cond == this) th[i].st = T_WOKEN;
}

void std::condition_variable::notify_one() noexcept {
    int pick = 0;
    for (int i = 1; i <= nthreads; i++)
        if (th[i].st == T_PARKED && th[i].cond == this && (pick == 0 || pick_mode == 1)) pick = i;
    if (pick) th[pick].st = T_WOKEN;
}
