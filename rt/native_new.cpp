// Native replacement of global operator new/delete with the same counters the runtime model keeps.
#include <cstdlib>
#include <new>
static long live_allocs, total_allocs, count_allocs; static int counting;
static long fail_at, new_calls;      // vf_new_fail_at(k): the k-th operator new from now on throws std::bad_alloc (0 = never)
extern "C" void vf_new_fail_at(int k) { fail_at = k; new_calls = 0; }
void *operator new(std::size_t n) { if (fail_at && ++new_calls == fail_at) { fail_at = 0; throw std::bad_alloc(); } void *p = std::malloc(n ? n : 1); if (!p) std::abort(); ++live_allocs; ++total_allocs; if (counting) ++count_allocs; return p; }
void *operator new[](std::size_t n) { return operator new(n); }
void operator delete(void *p) noexcept { if (p) { --live_allocs; std::free(p); } }
void operator delete[](void *p) noexcept { operator delete(p); }
void operator delete(void *p, std::size_t) noexcept { operator delete(p); }
void operator delete[](void *p, std::size_t) noexcept { operator delete(p); }
extern "C" long vf_live_allocs(void) { return live_allocs; }
extern "C" long vf_total_allocs(void) { return total_allocs; }
extern "C" void vf_region_begin(void) { counting = 1; count_allocs = 0; }
extern "C" long vf_region_end(void) { counting = 0; return count_allocs; }
