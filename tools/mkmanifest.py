#!/usr/bin/env python3
"""Writes /verif/MANIFEST.json from the table below (single source of truth for what is claimed)."""
import json, os
VERIF = os.path.dirname(os.path.dirname(os.path.abspath(__file__)))
ALL = ['C%02d' % i for i in range(1, 21)]

E1_NOTE = ('Bounded: holds for every value of the symbolic data inputs within the stated skeleton space (operation histories / scripts / '
           'counts up to the stated length) and loop bounds checked by unwinding assertions; nothing is claimed outside. Trusted base: clang-14 -O1 '
           'lowering of the real headers, tools/irparse.py + tools/ir2c.py (validated on every run against a native g++ build on concrete vectors), '
           'the runtime model rt/rt.h (allocation never fails, EH model, single modelled thread), shadow <bits/atomic_wait.h>, CBMC 6.11 + its SAT back end.')

E2_NOTE = ('Bounded: holds for every sequentially consistent interleaving (at instruction granularity) of the stated scenarios - 2..3 modelled threads, one or two '
           'library operations per thread, loop / CAS-retry / recursion bounds whose exceedance is itself queried and reported as "bound insufficient". Trusted base: clang-14 -O1 '
           'lowering of the real headers, tools/irparse.py + tools/irdag.py (guarded symbolic execution of the IR into an event DAG; value sets of shared cells computed by a fixpoint) + '
           'tools/mm.py (SC encoding), shadow <bits/atomic_wait.h> (no spurious wake-ups), z3. Counterexamples are replayed with real pthreads on the natively compiled, '
           'schedule-instrumented IR before they are reported.')


def e1(text, ref, technique):
    return dict(technique=technique, text=text, design_ref=ref, note=E1_NOTE, engine='E1')


def e2(text, ref, technique, engine='E2'):
    return dict(technique=technique, text=text, design_ref=ref, note=E2_NOTE if engine == 'E2' else E2_NOTE + ' Sequential units: ' + E1_NOTE, engine=engine)


T_E1 = 'bounded symbolic model checking of the real code: clang LLVM IR -> C (tools/ir2c.py) -> CBMC/SAT, one query per skeleton vector (history / script / configuration) with symbolic data, differential against a reference model in the harness'
T_INJ = (' ; concurrent units: the complete operation of a second thread is placed by the runtime model in front of the k-th mutex acquisition / k-th atomic instruction of the operation in progress, or when it blocks '
         '(one pre-emption per pair of operations, k enumerated over all positions), each placement one CBMC query with symbolic data')
T_E2 = 'SMT-based bounded model checking of schedules: clang LLVM IR -> guarded event DAG (tools/irdag.py) -> sequential-consistency encoding with one clock per event (tools/mm.py) -> z3; assertion, lifetime, deadlock and bound queries per scenario'

CLAIMED = {
    'C01': e2('For every SC interleaving of 2 (thorough: 3) threads that call the same promise object with value / drop / exception / destruction (and a polling reader), the solver shows: at most one call '
              'reports success, the future carries exactly the winner\'s payload (values symbolic, pairwise distinct), a resolved result never changes, the final promise destruction resolves an '
              'unresolved future to no-value, has_value() agrees; library asserts, lifetime and deadlock queries included.', 'DESIGN.md 3, 5/C01', T_E2),
    'C02': e2('Resolver thread (value / drop / exception / promise destruction) against waiter threads of every kind (callback awaiter, blocking wait()/sync(), coroutine protocol with a frame that dies on resume, '
              'has_value(), poller): every waiter is released exactly once or told "already resolved" (never both), never before the result is set, it observes the final result, nobody stays blocked '
              '(deadlock query), nothing touches a waiter after its release (lifetime query).', 'DESIGN.md 3, 5/C02', T_E2),
    'C03': e2('(a) Lock-free core (E2, happens-before over all SC interleavings): resolver against poller / callback subscriber / blocking wait / coroutine protocol / has_value, two resolvers, and the mutex contention '
              'scenarios whose critical section writes plain cells (incl. an owner that hands over to a request registered earlier while another thread requests), the generic awaiter chain (registering threads against the collecting thread) and two threads on one reusable_storage_mtsafe: no pair of conflicting accesses with a non-atomic member is unordered by C++20 happens-before (release/acquire, release sequences, fences). '
              '(b) Lock discipline (E1, -DVF_DISCIPLINE): in every history of 3 (thorough 4) operations on queue, limited_queue, scheduler (manual mode) and publisher (quick tier: a third of the limited_queue and a quarter of the publisher histories, selected by a checksum, plus all publisher histories that start with two publishes), every access to the component object and to heap '
              'blocks allocated under its lock happens with the lock held; the same for the thread_pool object (unit disc_pool, cooperative thread model of C11: submissions, workers, stop(), state queries also through thread_pool::current, co_await thread_pool::current()). Non-SC executions are outside.', 'DESIGN.md 3.3, 3.7, 5/C03',
              T_E2.replace('sequential-consistency encoding', 'sequential-consistency encoding plus C++20 happens-before as vector clocks (data-race query)') + ' ; lock discipline: ' + T_E1, engine='E1+E2'),
    'C04': e1('16 start modes (detach discarded / awaited, start(), start(promise) live / claimed, co_await from a parent, join(), future<T>(coro), returned as future<T>, never started; normal and coroutine mode) x 7 completion modes '
              '(sync value / throw, suspension on a future resolved from normal mode, from a coroutine discarding or awaiting the suspend point) x {int, void, counted} x nesting depth 0..3: body counters, RAII probes of arguments, '
              'locals and values, allocation balance, value or exact exception reaches exactly the bound party, bound future pending while suspended, start(claimed) returns false and ~async frees the frame. Unit start_mt: start(promise) against another thread that sets / drops / moves away the same promise, the other operation placed in front of every atomic instruction of start(promise) (one pre-emption): exactly one party owns the outcome, the body runs iff start() reports true. Unit reuse_raw: children awaited one after another in one reusable_storage, suspended on a foreign awaitable and resumed by a raw handle.resume() or through coro_queue: the finished frame is destroyed before its awaiter goes on.', 'DESIGN.md 3.8, 5/C04', T_E1 + T_INJ),
    'C05': e1('Programs of real async<void> coroutines interpreting scripts (spawn-discard, spawn-and-await, pause, resolve promise k and discard / await, await future k, finish) from normal code or from a coroutine-mode context, all '
              'programs of <=2 (thorough 3) steps plus slices of longer ones and round-robin pause programs up to 4x4, against a lock-step ghost FIFO: nothing made ready runs before the running coroutine suspends or finishes, '
              'FIFO resumption (symmetric-transfer target may overtake), strict round-robin for pause, never resumed while running, empty queue after every outermost activation; also when the pending promises are resolved from ordinary code while an exception propagates (unit unwind_resolve).', 'DESIGN.md 5/C05', T_E1),
    'C06': e1('(1) One operation (<< handle, << suspend_point&&, move-construct, move-assign, pop, clear, destructor, await_suspend in both modes, typed construct+move, create_suspend_point) from directly built representations '
              '(inline 0..3, heap capacity 6/12/24/48 with any count, decoy handles in unused slots): invariant restored, held + handed out + resumed == 1 per handle, source emptied, exact allocation balance, typed value kept. '
              '(2) Histories from empty (<=3, thorough 4 operations over two objects, add 1 or 4 handles) in normal and coroutine mode, everything destroyed at the end: every handle resumed exactly once.', 'DESIGN.md 5/C06', T_E1),
    'C07': e2('Contenders of every flavour (try_lock, blocking lock().wait(), coroutine protocol) and release flavour (ownership destructor, release() discarded, release()+clear()) on one mutex, owner releasing while a '
              'request is in flight and free-mutex contention: no two parties in the critical section, each request granted exactly once, a waiter told "not suspended" is never resumed as well, suspended '
              'waiters resumed exactly once, library asserts, lifetime of the awaiter/frame, no thread blocked forever, mutex lockable again.', 'DESIGN.md 3, 5/C07', T_E2),
    'C08': e2('Sequential units (E1): for every N<=3 (thorough 4) queued coroutines and every release style of owner and waiters (quick tier: N=3 every sixth style combination), grant order = arrival order, every request granted, try_lock fails while held and succeeds '
              'afterwards; the same with 1..2 requests that arrive while an earlier waiter owns the mutex and older ones are still queued (fifo_late). Concurrent units (E2): the C07 scenarios (orphaned lock / lost request / deadlock queries) and, in the thorough tier, owner + two requesters whose arrival order is fixed by a hand-shake: '
              'grant order must equal arrival order in every interleaving.', 'DESIGN.md 5/C08', T_E1 + ' ; ' + T_E2, engine='E1+E2'),
    'C09': e1('Every history over {push(v), pop, unblock_pop(e)} up to the stated length, then destruction, for queue<int>, queue<void>, a single_item_queue consumer variant and a real consumer coroutine: '
              'the real queue agrees with a FIFO-pair reference model after every step (which pop completes, with which value / exception, arrival order of waiters, size()/empty(), never both internal '
              'queues non-empty, cancellation at destruction, allocation balance); values symbolic. Unit q_conc: two operations out of {push, pop, unblock_pop} of two threads interleaved at lock-region granularity. libstdc++ container preconditions (-D_GLIBCXX_ASSERTIONS) are proof obligations.', 'DESIGN.md 3.7, 5/C09', T_E1 + T_INJ),
    'C10': e1('For every history over {push(v), pop, unblock_push(e), unblock_pop(e)} up to the stated length and limits (quick tier: limit 2 every second history of length 4), and for all pushed values (solver-decided), the real limited_queue<int> agrees with a reference '
              'model on the state of every push/pop future after every step, on size()/empty(), on which waiter an unblock hits and with which exception, and on cancellation + allocation balance at destruction. Unit h_lq_conc: two operations out of {push, pop, unblock_push} of two threads interleaved at lock-region granularity. libstdc++ container preconditions (-D_GLIBCXX_ASSERTIONS) are proof obligations.',
              'DESIGN.md 2, 3.7, 5/C10', T_E1 + T_INJ),
    'C11': e1('Thread pool under a cooperative thread model (std::thread = table entry run by the harness scheduler, condition_variable::wait parks and unwinds to the scheduler, a notified worker restarts worker() - equivalent because '
              'it parks holding only the lock; notify_one pick is a skeleton input): pools of 1..3 workers, <=3 submissions of six kinds plus jobs submitting jobs, own-thread stop(), delete pool from a worker, stop then submit; '
              'per job ran + cancelled == 1, ran only on a worker id, cancelled coroutines see await_canceled_exception, run() futures report a broken promise, nothing forgotten after a drain (lost notification) or after stop(), '
              'workers joined / self-detached, no join deadlock, allocation balance. Unit h_stop_prepark: stop() of another thread while a worker is entering condition_variable::wait (pre-park hook; counterexamples confirmed on the natively executed translation). Unit h_stop_race: a submission against stop() of another thread placed in front of every mutex acquisition of the submission: nothing is left pending once stop() has returned. Known finding (printed, exit 0): raw-handle jobs meeting a stopped pool are dropped (D9).', 'DESIGN.md 3.7, 5/C11', T_E1 + T_INJ),
    'C12': e1('Manual-mode histories over sleep_until/schedule, cancel(id[,e]), remove(id), get_expired(now) with time points enumerated up to weak order (ties included) and identifiers canonical, against a per-sleep '
              'reference model; unit h_cover: one step (every cancel / get_expired, thorough also sleep / cancel(e) / remove, at every position) from every abstract heap state with <= 3 entries (alive or emptied) that a breadth-first search over the abstraction reaches (209 states; quick: get_expired from the 90 states reached within 5 operations, cancel from the 38 reached within 3); unit h_order: 6 (thorough 5..6) pending sleeps in arrival orders (quick: every 12th of the 720), then get_expired at each time value in turn hands out exactly the due sleep; the interval() generator with a stop token (request_stop while sleeping / parked / before start; double-lock of the scheduler mutex is a failure); start(awaitable) under a virtual '
              'clock with up to 3 scripted sleepers (never early, on time when idle, in deadline order, cancels hit exactly their target); destruction cancels pending sleeps. Unit h_start_mt: another thread\'s sleep_until placed in front of every acquisition of the scheduler mutex by the scheduling thread, or inside its timed wait (the wait must be woken when the new entry is the earliest): the foreign sleep is woken at its own time point.', 'DESIGN.md 3.8, 5/C12', T_E1 + T_INJ),
    'C13': e1('Scripted generator bodies (yield lvalue/temporary, await ready / pending future, throw, return; up to 6 entries) x sequences of 11 consumer access styles (next()/value(), iterators, range-for, call -> future, '
              'co_await of either) for generator<int> and generator<int,int>: observed values, argument echo, exception position, single end indication then done(), RAII probes and allocation balance when '
              'destroyed unstarted / parked / finished; payloads, awaited results and arguments symbolic. Unit sync_other_thread: a synchronous read whose awaited operation is completed by another thread while the reader blocks (wait hook). Unit cb_consumer: a callback awaiter that hands over the argument of its next request inside the notification; unit fut_cb_consumer: the same over the future interface (g(arg) and a callback on the returned future).', 'DESIGN.md 3.8, 5/C13', T_E1 + T_INJ),
    'C14': e1('0..3 (thorough 4) scripted source generators (yield, await pending, throw, return, infinite) x 6 consumer access styles, with and without arguments: per-source order and exactly-once delivery, payloads, '
              'end / exception only when nothing is left, exception must be one a source threw, argument routing to the source returned last, probes and allocation balance after destruction. Units destroy_inflight(_arg): the parked aggregate is destroyed while sources are in flight and another thread completes them while the destructor blocks (wait hook).', 'DESIGN.md 3.8, 5/C14', T_E1 + T_INJ),
    'C15': e1('Histories of up to 3 (thorough 4) events over <=3 listeners (re-awaiting coroutines, connect() callbacks returning true/false, listener on a dead emitter), collector calls by value / rvalue / lvalue / void, '
              'copying and dropping signal / collector handles: each listener log equals the model (every emission while waiting exactly once, right value), cancellation when the last handle goes, '
              'immediate failure on a disconnected emitter, allocation balance; unit emit_kinds: every sequence of 3 (thorough 2..4) collector-call flavours. Unit sig_mt (listeners subscribing on another thread): 7 pairs of collector call / coroutine subscription / connect / last-handle destruction, the operation of the second thread placed in front of every atomic instruction of the first (one pre-emption), then a second emission and disconnect: no lost listener, no duplicate, cancellation reaches everybody.', 'DESIGN.md 3.8, 5/C15', T_E1 + T_INJ),
    'C16': e1('Histories over publish one / batch, subscribe recent / at position / by copy, next() polled / blocking-when-due / awaited by a coroutine, kick, leave, close for <=2 subscribers, three subscription modes and '
              'queue configurations unlimited,(1,1),(2,1),(3,2),(5,5) against a reference stream + cursors: all_values contiguous, duplicate-free and in order until a justified first end indication; skipping modes '
              'strictly forward, skip_to_recent newest; close / destruction wakes parked subscribers; copies continue from the original\'s position; values symbolic; hand-written 5..9 step histories (lag == max, lag > max, slot reuse after a kicked occupant, ...); thorough: one step from every abstract state a breadth-first search reaches within 3 operations. Unit pub_conc: an operation of the publisher thread in front of every mutex acquisition of an awaited next() of the subscriber, caught up (pub_conc) or with one unread value (pub_conc_ahead); the quick tier decides the all_values configurations unlimited and (2,1) in full and a sixth of the rest, the thorough tier everything.', 'DESIGN.md 3.7, 5/C16', T_E1 + T_INJ),
    'C17': e2('Histories of copy / drop / await (callback awaiter keeping or dropping its own handle, coroutine) / resolve (value, exception, dropped promise) for eight ways of constructing a shared_future<counted>, incl. '
              'default-construct + get_promise() and default-construct + init_if_needed() + copy + get_promise() through the copy: same result for all copies, each awaiter resumed once after resolution, counted value constructed and destroyed once, state freed exactly once and only after '
              'resolution (allocation accounting + use-after-free / double-free obligations). Unit sf_mt (E2, every SC interleaving): copy / drop / await / construction-from-a-promise-taking-function on one thread against the resolving thread.', 'DESIGN.md 3, 5/C17', T_E1 + ' ; ' + T_E2, engine='E1+E2'),
    'C18': e1('callback_await / callback_await_alloc (5 allocators), make_promise (3 storages), discard, call_fn_future_awaiter and 7 future_conv converter shapes x outcome (value, exception, drop, converter throws) x timing '
              '(resolved before / after registration on the same thread) x mode: completion runs exactly once and not before the outcome exists, outcome matches, converter result or exception reaches the outer '
              'future, helper block released exactly once. Unit conv_mt: the registration of 6 adapters against the resolving thread, whose complete resolve operation is placed in front of every atomic instruction of the registration (one pre-emption).', 'DESIGN.md 3.8, 5/C18', T_E1 + T_INJ),
    'C19': e2('Per storage policy (default, reusable, reusable_mtsafe, stack, placement, reusable_buffer, promise_extra_storage over two bases) real coroutines of two frame sizes in creation/completion programs of <=3 frames '
              '(overlapping lifetimes for default and mtsafe): block valid for the requested size, never handed out twice while live, released exactly once with its size, canaries intact, no operator new '
              'for a size class served before, stack storage only when it fits, extra object constructed once / usable at once / destroyed once; requested sizes as symbolic data with the policy called directly (h_sizes: 1..3 requests of arbitrary size in [1,400], every byte writable, live blocks disjoint, no operator new for a size served before); two live frames in one stack_storage region (h_stack2); creations that meet std::bad_alloc at their first operator new leave no block behind and do not disturb live frames (h_ovl_oom, allocation failure injected on demand). Unit mtsafe2 (E2, every SC interleaving): two threads creating and finishing coroutine frames on one reusable_storage_mtsafe.', 'DESIGN.md 3, 5/C19', T_E1 + ' ; ' + T_E2, engine='E1+E2'),
    'C20': e1('Every named operation (create / resolve / await by coroutine, blocking thread, callback / destroy a future-promise pair of int, void, small struct; lock, contend, hand over, release the mutex; build, merge, move, '
              'pop, clear a suspend point with <=3 handles; step a synchronous generator; a pipeline in which the callback awaiter of one future resolves the next awaited promise) runs inside an allocation region from states produced by short prefixes: operator new calls in the region == coroutine frames '
              'the harness created there (0 under placement_alloc). Excluded by statement: ready-queue deque growth every 64 pushes, >3 handles per suspend point.', 'DESIGN.md 5/C20', T_E1),
}

def main():
    checks = []
    for pid in ALL:
        if pid not in CLAIMED: continue
        c = CLAIMED[pid]
        checks.append({
            'property_id': pid,
            'quick_cmd': 'python3-vt tools/check.py %s --tier quick' % pid,
            'thorough_cmd': 'python3-vt tools/check.py %s --tier thorough' % pid,
            'evidence_file': 'evidence/%s.json' % pid,
            'replay_cmd_template': 'python3-vt tools/check.py %s --replay {path}' % pid,
            'engine': c.get('engine', 'E1'),
            'level_claimed': {'category': 'model_checking', 'text': c['text'], 'design_ref': c['design_ref']},
            'level_note': c['note'],
            'technique': c['technique'],
        })
    na = [{'property_id': p, 'reason': NA.get(p, 'check not built yet in this round (work in progress, see DESIGN.md 9); not a statement that the technique cannot apply')}
          for p in ALL if p not in CLAIMED]
    m = {
        'version': 1,
        'setup_cmd': 'python3-vt -m compileall -q tools harness && python3-vt tools/selftest.py',
        'hooks': {'guard': 'COCLS_VERIF', 'enable': 'no source hooks: instrumentation happens on the LLVM IR and through shadow standard-library headers under /verif/shadow; nothing in /repo is guarded',
                  'baseline_off_cmd': 'cmake -G Ninja -S /repo -B /repo/_build && cmake --build /repo/_build && ctest --test-dir /repo/_build -j8 --timeout 900',
                  'source_commits': [], 'add_only': True},
        'engines': [
            {'name': 'E1', 'path': 'tools/e1.py', 'serves_properties': sorted(p for p in CLAIMED if CLAIMED[p].get('engine', 'E1') in ('E1', 'E1+E2')),
             'kind_free_text': 'harness .cpp -> clang-14 LLVM IR of the real headers -> tools/ir2c.py -> C + rt/rt.h runtime model -> CBMC 6.11 (SAT); skeleton vectors enumerated, data symbolic; counterexamples replayed on a native g++ sanitizer build'},
            {'name': 'E2', 'path': 'tools/e2.py', 'serves_properties': sorted(p for p in CLAIMED if 'E2' in CLAIMED[p].get('engine', 'E1')),
             'kind_free_text': 'same LLVM IR -> tools/irdag.py (on tools/irsym.py) per-thread guarded symbolic execution into event DAGs -> tools/mm.py SC encoding (+ C++20 happens-before for the race query) -> z3; schedules and reads-from are solver variables'},
        ],
        'checks': checks,
        'not_applicable': na,
        'notes': 'Genuine defects found by the checks are repaired in /repo by unguarded "fix:" commits and listed in known_findings.json; see DESIGN.md 6.',
    }
    json.dump(m, open(os.path.join(VERIF, 'MANIFEST.json'), 'w'), indent=1)

NA = {}
if __name__ == '__main__':
    main()
