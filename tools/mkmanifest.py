#!/usr/bin/env python3
"""Writes /verif/MANIFEST.json from the table below (single source of truth for what is claimed)."""
import json, os
VERIF = os.path.dirname(os.path.dirname(os.path.abspath(__file__)))
ALL = ['C%02d' % i for i in range(1, 21)]

E1_NOTE = ('Bounded: holds for every value of the symbolic data inputs within the stated skeleton space (operation histories / scripts / '
           'counts up to the stated length) and loop bounds checked by unwinding assertions; nothing is claimed outside. Trusted base: clang-14 -O1 '
           'lowering of the real headers, tools/irparse.py + tools/ir2c.py (validated on every run against a native g++ build on concrete vectors), '
           'the runtime model rt/rt.h (allocation never fails, EH model, single modelled thread), shadow <bits/atomic_wait.h>, CBMC 6.11 + its SAT back end.')

CLAIMED = {
    'C10': dict(
        technique='bounded symbolic model checking of the real limited_queue code: clang LLVM IR -> C (ir2c) -> CBMC/SAT, one query per operation history with symbolic values, differential against a reference FIFO model',
        text='For every history over {push(v), pop, unblock_push(e), unblock_pop(e)} up to the stated length and limits, and for all pushed values (solver-decided), '
             'the real limited_queue<int> agrees with a reference model on the state of every push/pop future after every step, on size()/empty(), '
             'on which waiter an unblock hits and with which exception, and on cancellation + allocation balance at destruction. Counterexamples are replayed on a g++ ASan/UBSan build before being reported.',
        design_ref='DESIGN.md 2, 5/C10', note=E1_NOTE),
}

def main():
    checks = []
    for pid in ALL:
        if pid not in CLAIMED: continue
        c = CLAIMED[pid]
        checks.append({
            'property_id': pid,
            'quick_cmd': 'python3 tools/check.py %s --tier quick' % pid,
            'thorough_cmd': 'python3 tools/check.py %s --tier thorough' % pid,
            'evidence_file': 'evidence/%s.json' % pid,
            'replay_cmd_template': 'python3 tools/check.py %s --replay {path}' % pid,
            'engine': c.get('engine', 'E1'),
            'level_claimed': {'category': 'model_checking', 'text': c['text'], 'design_ref': c['design_ref']},
            'level_note': c['note'],
            'technique': c['technique'],
        })
    na = [{'property_id': p, 'reason': NA.get(p, 'check not built yet in this round (work in progress, see DESIGN.md 9); not a statement that the technique cannot apply')}
          for p in ALL if p not in CLAIMED]
    m = {
        'version': 1,
        'setup_cmd': 'python3 -m compileall -q tools harness && python3 tools/selftest.py',
        'hooks': {'guard': 'COCLS_VERIF', 'enable': 'no source hooks: instrumentation happens on the LLVM IR and through shadow standard-library headers under /verif/shadow; nothing in /repo is guarded',
                  'baseline_off_cmd': 'cmake -G Ninja -S /repo -B /repo/_build && cmake --build /repo/_build && ctest --test-dir /repo/_build -j8 --timeout 900',
                  'source_commits': [], 'add_only': True},
        'engines': [
            {'name': 'E1', 'path': 'tools/e1.py', 'serves_properties': sorted(p for p in CLAIMED if CLAIMED[p].get('engine', 'E1') in ('E1', 'E1+E2')),
             'kind_free_text': 'harness .cpp -> clang-14 LLVM IR of the real headers -> tools/ir2c.py -> C + rt/rt.h runtime model -> CBMC 6.11 (SAT); skeleton vectors enumerated, data symbolic; counterexamples replayed on a native g++ sanitizer build'},
            {'name': 'E2', 'path': 'tools/e2.py', 'serves_properties': sorted(p for p in CLAIMED if 'E2' in CLAIMED[p].get('engine', 'E1')),
             'kind_free_text': 'same LLVM IR -> tools/irsym.py per-thread symbolic execution into guarded event trees -> tools/mm.py SC / RC11 encoding -> z3; schedules and reads-from are solver variables'},
        ],
        'checks': checks,
        'not_applicable': na,
        'notes': 'Genuine defects found by the checks are repaired in /repo by unguarded "fix:" commits and listed in known_findings.json; see DESIGN.md 6.',
    }
    json.dump(m, open(os.path.join(VERIF, 'MANIFEST.json'), 'w'), indent=1)

NA = {}
if __name__ == '__main__':
    main()
