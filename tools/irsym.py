#!/usr/bin/env python3
"""E2 front end: per-thread symbolic execution of LLVM IR into guarded event lists.

Every load/store/RMW/fence on memory that more than one modelled thread touches becomes an *event*; a load returns a
fresh solver symbol.  Control flow that depends on such symbols forks the path (decision replay: a path is re-executed
from the thread entry following a recorded decision prefix, so no interpreter state is ever copied).  Objects get
concrete addresses, so pointer arithmetic is concrete; a symbolic pointer that must be dereferenced is concretised over
the set of values ever written to the location it was read from (computed by iterating the scenario to a fixpoint).
"""
import sys, os, re
import z3
from irparse import *
import ir2c

MASK64 = (1 << 64) - 1


class Unsupported(Exception):
    pass


class PathEnd(Exception):
    """path terminated (assumption false, assertion-then-stop, bound exceeded, stuck ...)"""
    def __init__(self, why):
        self.why = why


def mask(bits):
    return (1 << bits) - 1


def is_c(v):
    return isinstance(v, int)


def bv(v, bits):
    return z3.BitVecVal(v, bits) if isinstance(v, int) else v


def simp(e):
    if isinstance(e, int):
        return e
    e = z3.simplify(e)
    if z3.is_bv_value(e):
        return e.as_long()
    return e


def to_signed(v, bits):
    return v - (1 << bits) if v >= (1 << (bits - 1)) else v


class Event:
    __slots__ = ('id', 'tid', 'idx', 'kind', 'addr', 'width', 'order', 'rval', 'wval', 'guard', 'succ', 'site', 'fail_order',
                 'key', 'sched', 'obj', 'info', 'uid', 'seg', 'segk', 'lkey')

    def __init__(s, **kw):
        s.succ = None; s.rval = None; s.wval = None; s.fail_order = None; s.sched = 0; s.obj = None; s.info = None
        for k, v in kw.items():
            setattr(s, k, v)

    def is_read(s):
        return s.kind in ('R', 'RMW', 'WAIT')

    def is_write(s):
        return s.kind in ('W', 'RMW', 'FREE')

    def __repr__(s):
        return 'E%d[t%d.%d %s %s@%x/%d %s]' % (s.id, s.tid, s.idx, s.kind, s.order, s.addr or 0, s.width or 0, s.site)


class Obj:
    __slots__ = ('base', 'size', 'tid', 'kind', 'name')

    def __init__(s, base, size, tid, kind, name):
        s.base = base; s.size = size; s.tid = tid; s.kind = kind; s.name = name


class Layout:
    """type layout helper (shares the rules of the C emitter)"""
    def __init__(s, mod):
        s.em = ir2c.Emitter(mod)
        s.cache = {}

    def size(s, ty):
        k = ty
        if k not in s.cache:
            s.cache[k] = s.em.sizeof_align(ty)
        return s.cache[k][0]

    def align(s, ty):
        s.size(ty)
        return s.cache[ty][1]

    def resolve(s, ty):
        return s.em.resolve(ty)

    def field_offset(s, sty, k):
        r = s.resolve(sty)
        off = 0
        for i, e in enumerate(r.els):
            es, ea = s.em.sizeof_align(e)
            if r.packed: ea = 1
            off = (off + ea - 1) // ea * ea
            if i == k: return off, e
            off += es
        raise IndexError


class Scenario:
    """shared, pass-persistent information"""
    def __init__(s, mod, nthreads, opts=None):
        s.mod = mod
        s.L = Layout(mod)
        s.nthreads = nthreads
        s.opts = opts or {}
        s.loop_bound = s.opts.get('loop_bound', 4)
        s.objs = []                 # all objects ever created (by base)
        s.obj_by_base = {}
        s.faddr = {}                # function name -> address
        s.fname = {}
        s.gaddr = {}                # (global name, tid or None) -> address
        s.shared = set()            # bases of objects accessed by >= 2 threads
        s.accessors = {}            # base -> set(tid)
        s.cand = {}                 # addr -> {value or 'TOP': set(writer tids)} (all passes)
        s.changed = False
        s.nd_syms = []              # nondet data symbols (global)
        s.assumes = []              # global assumptions (from setup)
        s.init_image = {}           # addr -> (width, value) after setup
        s.width_of = {}             # addr -> access width seen
        s.wcount_prev = None        # tid -> {addr: max writes on a path} from the previous pass
        a = 0x1000
        for f in mod.funcs.values():
            s.faddr[f.name] = a; s.fname[a] = f.name; a += 16
        s.next_global = 0x100000
        for g in mod.globals.values():
            if not g.thread_local:
                s.alloc_global(g, None)

    TID_SETUP = 0

    def alloc_global(s, g, tid):
        sz = max(s.L.size(g.ty), 1)
        base = (s.next_global + 63) // 64 * 64
        s.next_global = base + sz + 64
        s.gaddr[(g.name, tid)] = base
        o = Obj(base, sz, tid if tid is not None else -1, 'tls' if tid is not None else 'global', g.name)
        s.add_obj(o)
        return base

    def add_obj(s, o):
        old = s.obj_by_base.get(o.base)
        if old is None:
            s.obj_by_base[o.base] = o
            s.objs.append(o)
            s._sorted = None
        elif o.size > old.size:
            # different paths of a thread may place different objects at the same address: other threads see the largest extent
            old.size = o.size; s._sorted = None

    def find_obj(s, addr):
        if getattr(s, '_sorted', None) is None:
            s._sorted = sorted(s.obj_by_base.values(), key=lambda o: o.base)
            s._bases = [o.base for o in s._sorted]
        import bisect
        i = bisect.bisect_right(s._bases, addr) - 1
        if i >= 0:
            o = s._sorted[i]
            if o.base <= addr < o.base + max(o.size, 1):
                return o
        return None

    def note_access(s, obj, tid):
        acc = s.accessors.setdefault(obj.base, set())
        if tid not in acc:
            acc.add(tid)
            if len(acc) >= 2 and obj.base not in s.shared:
                s.shared.add(obj.base); s.changed = True

    def add_cand(s, addr, val, tid):
        """val: concrete int or 'TOP' (unknown symbolic data); tid = writer thread"""
        c = s.cand.setdefault(addr, {})
        if val != 'TOP' and val not in c and len(c) >= (12 if s.width_of.get(addr, 8) == 8 else 5):
            val = 'TOP'            # widening: counters and the like would otherwise grow by one value per fixpoint pass
        w = c.setdefault(val, set())
        if tid not in w:
            w.add(tid); s.changed = True

    def write_budget(s, tid, addr):
        """max number of writes other threads can perform on addr (from the previous pass); None = unknown yet"""
        if s.wcount_prev is None: return None
        tot = 0
        for t, m in s.wcount_prev.items():
            if t != tid: tot += m.get(addr, 0)
        return tot

    def init_value(s, addr, width):
        """value of (addr,width) in the memory image left by vf_setup (bytes never written read as 0)"""
        c = s.init_image.get(addr)
        if c is not None and c[0] == width: return c[1]
        r = ThreadRun(s, 0, None, [], {}, 'private')
        r.sc_sym_src = s.__dict__.setdefault('sym_src', {})
        r.zero_undef = True
        return r.priv_load(addr, width)

    def candidates(s, addr, reader_tid=None):
        """values other threads may have written to addr"""
        out = set()
        for v, tids in s.cand.get(addr, {}).items():
            if reader_tid is None or (tids - {reader_tid}):
                out.add(v)
        return out


class JoinNode:
    """a merge point of thread paths (explicit vf_join() in the scenario): paths that arrive with the same live state share
    one continuation; reach = disjunction over the arriving path conditions"""
    def __init__(s, tid, nid, key, owner):
        s.tid = tid; s.id = nid; s.key = key; s.owner = owner
        s.preds = {}            # dedupe key -> (pred node or None, [constraints])
        s.reach = z3.Bool('reach_%d_%d' % (tid, nid))
        s.pred_len = 0          # longest po position of an arriving path (for a monotone numbering)


def live_after_calls(fn):
    """registers of fn live after each call instruction: {(block name, instr index): set(names)} (standard backward dataflow)"""
    blocks = {b.name: b for b in fn.blocks}
    def uses(I):
        out = set()
        ops = list(I.args)
        if I.op == 'phi': ops = []
        c = I.extra.get('callee')
        if c is not None: ops.append(c)
        for a in ops:
            if isinstance(a, Local): out.add(a.name)
        return out
    succs = {}
    for b in fn.blocks:
        t = b.instrs[-1]
        ss = []
        if t.op == 'br': ss = list(t.extra['targets'])
        elif t.op == 'switch': ss = [t.extra['default']] + [l for _, l in t.extra['cases']]
        elif t.op == 'invoke': ss = [t.extra['normal'], t.extra['unwind']]
        succs[b.name] = ss
    live_in = {b.name: set() for b in fn.blocks}
    changed = True
    while changed:
        changed = False
        for b in reversed(fn.blocks):
            live = set()
            for sname in succs[b.name]:
                sb = blocks[sname]
                l = set(live_in[sname])
                for I in sb.instrs:
                    if I.op != 'phi': break
                    l.discard(I.res)
                for I in sb.instrs:
                    if I.op != 'phi': break
                    for (v, lbl) in I.extra['incoming']:
                        if lbl == b.name and isinstance(v, Local): l.add(v.name)
                live |= l
            for I in reversed(b.instrs):
                if I.res is not None: live.discard(I.res)
                if I.op != 'phi': live |= uses(I)
                else: live.add(I.res) if False else None
            # phi results are defined at block entry: not live-in
            for I in b.instrs:
                if I.op != 'phi': break
                live.discard(I.res)
            if live != live_in[b.name]:
                live_in[b.name] = live; changed = True
    out = {}
    for b in fn.blocks:
        live = set()
        for sname in succs[b.name]:
            sb = blocks[sname]
            l = set(live_in[sname])
            for I in sb.instrs:
                if I.op != 'phi': break
                l.discard(I.res)
            for I in sb.instrs:
                if I.op != 'phi': break
                for (v, lbl) in I.extra['incoming']:
                    if lbl == b.name and isinstance(v, Local): l.add(v.name)
            live |= l
        for i in range(len(b.instrs) - 1, -1, -1):
            I = b.instrs[i]
            if I.op in ('call', 'invoke'):
                out[(b.name, i)] = set(live) - ({I.res} if I.res is not None else set())
            if I.res is not None: live.discard(I.res)
            if I.op != 'phi': live |= uses(I)
    return out


class Frame:
    __slots__ = ('fn', 'regs', 'block', 'prev_block', 'ip', 'allocas', 'ret_to', 'loop_counts')

    def __init__(s, fn):
        s.fn = fn; s.regs = {}; s.block = None; s.prev_block = None; s.ip = 0; s.allocas = []; s.loop_counts = {}


class ThreadRun:
    """one execution of one thread entry following a decision prefix"""

    def __init__(s, sc, tid, entry, prefix, evcache, mode):
        s.sc = sc; s.tid = tid; s.entry = entry
        s.prefix = list(prefix); s.dpos = 0
        s.decisions = []            # decisions actually taken [(kind, option index)]
        s.constraints = []          # z3 Bool constraints accumulated (path condition)
        s.new_alternatives = []     # decision prefixes to explore later
        s.evcache = evcache         # (tid, decision-tuple, k) -> Event (stable identity across re-executions)
        s.events = []               # events on this path in program order
        s.asserts = []              # (guard list, cond Bool or False, msg, po position)
        s.mode = mode               # 'private' (setup) or 'thread'
        s.store = {}                # private memory: addr -> (width, value)
        s.stack_ptr = 0x10000000 * (tid + 1)
        s.heap_ptr = 0x10000000 * (tid + 1) + 0x8000000
        s.evk = 0
        s.sched = 0                 # number of scheduling points (memory instructions) executed so far
        s.solver = z3.Solver()
        s.binding = {}              # symbol name -> concrete value (from concretisation decisions)
        s.end = None
        s.nd_count = 0
        s.steps = 0
        s.callstack = []
        s.freed = set()
        s.local_objs = {}
        s.join_count = 0
        s.seg_node = None
        s.own_unknown = False
        s.join_table = None
        s.joined_to = None
        s.seg_starts = [0]
        s.seg_dstart = 0
        s.tls_done = set()
        s.last_val = {}
        s.own_last = {}
        s.sym_allowed = s.sc.__dict__.setdefault('sym_allowed', {})
        s.changes = {}

    # ------------------------------------------------------------------ decisions
    def decide(s, kind, options, site):
        """options: list of (label, constraint Bool or None). returns chosen index. Infeasible options are skipped."""
        feas = []
        for i, (lab, c) in enumerate(options):
            if c is None or z3.is_true(c):
                feas.append(i); continue
            if z3.is_false(c): continue
            s.solver.push(); s.solver.add(c)
            r = s.solver.check()
            s.solver.pop()
            if r != z3.unsat: feas.append(i)
        if not feas:
            raise PathEnd('infeasible')
        if s.dpos < len(s.prefix):
            ch = s.prefix[s.dpos]
            if ch not in feas:
                raise PathEnd('infeasible')
        else:
            ch = feas[0]
            for alt in feas[1:]:
                s.new_alternatives.append(s.decisions_key() + [alt])
        s.dpos += 1
        s.decisions.append(ch)
        c = options[ch][1]
        if c is not None and not z3.is_true(c):
            s.constraints.append(c); s.solver.add(c)
        return ch

    def decisions_key(s):
        return list(s.decisions)

    def truth(s, v, site):
        """branch on an i1 value"""
        if is_c(v): return bool(v & 1)
        c = simp(v)
        if is_c(c): return bool(c & 1)
        cond = z3.simplify(c == z3.BitVecVal(1, 1))
        ch = s.decide('br', [('T', cond), ('F', z3.simplify(z3.Not(cond)))], site)
        return ch == 0

    def concretize(s, v, site, what='pointer'):
        if is_c(v): return v
        v = simp(s.subst(v))
        if is_c(v): return v
        syms = [x for x in z3_vars(v)]
        if not syms:
            raise Unsupported('cannot concretise %s at %s' % (v, site))
        x = syms[0]
        name = x.decl().name()
        src = s.sc_sym_src.get(name)
        if src is None and name.startswith('undef_'):
            # uninitialised private memory used as an address: transient while the sharing fixpoint is not reached, a finding afterwards
            s.asserts.append((list(s.constraints), False, 'memory: uninitialised value used as %s at %s' % (what, site), s.cur_pos()))
            raise PathEnd('undef-pointer')
        if src is None:
            raise Unsupported('symbolic %s does not come from a load: %s at %s' % (what, v, site))
        al = s.sym_allowed.get(name)
        if al is None:
            raise Unsupported('symbolic %s with unbounded value set: %s at %s' % (what, v, site))
        cands = sorted(al)
        if not cands:
            raise PathEnd('no-candidates')
        opts = [(hex(c), x == z3.BitVecVal(c, x.size())) for c in cands]
        ch = s.decide('conc', opts, site)
        s.binding[name] = cands[ch]
        return s.concretize(v, site, what)

    def subst(s, v):
        if is_c(v) or not s.binding: return v
        subs = []
        for x in z3_vars(v):
            n = x.decl().name()
            if n in s.binding:
                subs.append((x, z3.BitVecVal(s.binding[n], x.size())))
        return z3.substitute(v, *subs) if subs else v

    # ------------------------------------------------------------------ memory
    def alloca(s, size, name):
        base = (s.stack_ptr + 15) // 16 * 16
        s.stack_ptr = base + max(size, 1) + 16
        o = Obj(base, max(size, 1), s.tid, 'stack', name)
        s.sc.add_obj(o)
        s.local_objs[base] = o
        s.freed.discard(base)
        return base

    def malloc(s, size, name):
        base = (s.heap_ptr + 15) // 16 * 16
        s.heap_ptr = base + max(size, 1) + 16
        o = Obj(base, max(size, 1), s.tid, 'heap', name)
        s.sc.add_obj(o)
        s.local_objs[base] = o
        return base

    def find_obj(s, addr):
        """objects this path allocated itself are known exactly; everything else comes from the scenario registry"""
        lo = 0x10000000 * (s.tid + 1)
        if lo <= addr < lo + 0x10000000:
            for base, o in s.local_objs.items():
                if base <= addr < base + o.size: return o
            return None
        return s.sc.find_obj(addr)

    def is_shared(s, obj):
        if s.mode == 'private': return False
        return obj.base in s.sc.shared

    def new_event(s, **kw):
        key = (s.tid, tuple(s.decisions), s.evk)
        s.evk += 1
        e = s.evcache.get(key)
        if e is None:
            e = Event(id=len(s.evcache), tid=s.tid, key=key, **kw)
            e.guard = list(s.constraints)
            e.idx = s.cur_pos()
            e.seg = s.seg_node.id if s.seg_node is not None else -1
            e.segk = s.join_count
            e.lkey = tuple(s.decisions[s.seg_dstart:])
            if e.kind in ('R', 'RMW', 'WAIT'):
                e.rval = z3.BitVec('r%d_%d' % (s.tid, e.id), e.width * 8)
                s.sc_sym_src[e.rval.decl().name()] = e.addr
                s.sc.width_of[e.addr] = e.width
            s.evcache[key] = e
        e.sched = s.sched
        s.events.append(e)
        if e.rval is not None:
            s.note_change_budget(e)
            # a read returns the thread's own latest write to the location (or the initial value if it has not written it)
            # or a value some OTHER thread writes there: prune locally
            own = s.own_last.get(e.addr)
            cs = set(s.sc.candidates(e.addr, None if (own is None and s.own_unknown) else s.tid))
            if own is None:
                own = s.sc.init_value(e.addr, e.width)
            allowed = None
            if 'TOP' not in cs:
                if is_c(own): cs.add(own); allowed = cs
                else:
                    ov = s.sym_values(own)
                    if ov is not None: allowed = cs | ov
            s.sym_allowed[e.rval.decl().name()] = allowed
            if allowed is not None and len(allowed) <= 24:
                s.solver.add(z3.Or(*[e.rval == z3.BitVecVal(c, e.width * 8) for c in sorted(allowed)]))
        return e

    def sym_values(s, v):
        """finite set of concrete values a simple symbolic value can take (None = unknown)"""
        if is_c(v): return {v}
        if z3.is_bv_value(v): return {v.as_long()}
        if z3.is_app_of(v, z3.Z3_OP_ITE):
            a, b = s.sym_values(v.arg(1)), s.sym_values(v.arg(2))
            return None if a is None or b is None else a | b
        if z3.is_const(v):
            n = v.decl().name()
            if n in s.binding: return {s.binding[n]}
            return s.sym_allowed.get(n)
        return None

    def note_change_budget(s, e):
        """the value a thread sees at an address can only change (w.r.t. what it last read or wrote there) when another
        thread writes in between; the number of such writes is bounded by what the other threads can do (previous pass)"""
        prev = s.last_val.get(e.addr)
        if prev is None and s.own_unknown:
            s.last_val[e.addr] = e.rval
            return
        if prev is None:
            prev = s.sc.init_value(e.addr, e.width)
        bits = e.width * 8
        ch = z3.Bool('chg_%d_%d' % (s.tid, e.id))
        s.solver.add(ch == (e.rval != bv(prev, bits)))
        lst = s.changes.setdefault(e.addr, [])
        lst.append(ch)
        budget = s.sc.write_budget(s.tid, e.addr)
        if budget is not None and len(lst) > budget:
            s.solver.add(z3.PbLe([(c, 1) for c in lst], budget))
        s.last_val[e.addr] = e.rval

    SEG = 1000000

    def cur_pos(s):
        """program-order position, monotone along every path also across merge points: segment number * SEG + offset"""
        return s.join_count * s.SEG + (len(s.events) - s.seg_starts[-1])

    def priv_load(s, addr, width):
        c = s.store.get(addr)
        if c is not None and c[0] == width:
            return c[1]
        # assemble bytewise
        bytes_ = []
        for i in range(width):
            bytes_.append(s.priv_byte(addr + i))
        if all(is_c(b) for b in bytes_):
            v = 0
            for i, b in enumerate(bytes_): v |= b << (8 * i)
            return v
        e = bv(bytes_[-1], 8)
        for b in reversed(bytes_[:-1]):
            e = z3.Concat(e, bv(b, 8))
        return simp(e)

    def priv_byte(s, a):
        for w in (1, 2, 4, 8, 16):
            for base in range(a - w + 1, a + 1):
                c = s.store.get(base)
                if c is not None and c[0] == w and base + w > a:
                    v = c[1]; sh = (a - base) * 8
                    if is_c(v): return (v >> sh) & 0xff
                    return simp(z3.Extract(sh + 7, sh, v))
        # not written on this path: initial image (setup) or undefined
        img = s.sc.init_image
        for w in (1, 2, 4, 8, 16):
            for base in range(a - w + 1, a + 1):
                c = img.get(base)
                if c is not None and c[0] == w and base + w > a:
                    v = c[1]; sh = (a - base) * 8
                    if is_c(v): return (v >> sh) & 0xff
                    return simp(z3.Extract(sh + 7, sh, v))
        o = s.find_obj(a)
        if o is not None and o.kind in ('global', 'tls'):
            return 0
        if getattr(s, 'zero_undef', False): return 0
        s.undef_n = getattr(s, 'undef_n', 0) + 1
        return z3.BitVec('undef_%d_%d_%d' % (s.tid, len(s.decisions), s.undef_n), 8)

    def priv_store(s, addr, width, val):
        # remove overlapping cells of different geometry
        for w in (1, 2, 4, 8, 16):
            for base in range(addr - w + 1, addr + width):
                c = s.store.get(base)
                if c is not None and c[0] == w and (base != addr or w != width) and base < addr + width and base + w > addr:
                    # split the old cell into bytes
                    old = s.store.pop(base)
                    for i in range(w):
                        v = old[1]
                        b = (v >> (8 * i)) & 0xff if is_c(v) else simp(z3.Extract(8 * i + 7, 8 * i, v))
                        s.store[base + i] = (1, b)
        if width > 1:
            for i in range(width):
                c = s.store.get(addr + i)
                if c is not None and c[0] == 1 and not (i == 0 and width == 1):
                    del s.store[addr + i]
        s.store[addr] = (width, val)

    def check_addr(s, addr, width, site, write):
        o = s.find_obj(addr)
        if o is None or addr + width > o.base + o.size:
            s.asserts.append((list(s.constraints), False, 'memory: invalid pointer dereference (0x%x) at %s' % (addr, site), s.cur_pos()))
            raise PathEnd('invalid-deref')
        if o.kind == 'func':
            raise Unsupported('data access to function address')
        return o

    def load(s, addr, width, order, site):
        o = s.check_addr(addr, width, site, False)
        if s.mode != 'private':
            s.sc.note_access(o, s.tid)
        if not s.is_shared(o):
            if o.base in s.freed:
                s.asserts.append((list(s.constraints), False, 'memory: access to freed block at %s' % site, s.cur_pos()))
            return s.priv_load(addr, width)
        e = s.new_event(kind='R', addr=addr, width=width, order=order, site=site, obj=o.base)
        return s.subst(e.rval)

    def store_(s, addr, width, val, order, site):
        o = s.check_addr(addr, width, site, True)
        if s.mode != 'private':
            s.sc.note_access(o, s.tid)
        if not is_c(val): val = simp(val)
        if not s.is_shared(o):
            if o.base in s.freed:
                s.asserts.append((list(s.constraints), False, 'memory: access to freed block at %s' % site, s.cur_pos()))
            s.priv_store(addr, width, val)
            if s.mode == 'private':
                s.note_cand(addr, width, val)
            return
        e = s.new_event(kind='W', addr=addr, width=width, order=order, site=site, obj=o.base)
        e.wval = val
        s.last_val[addr] = val
        s.own_last[addr] = val
        s.note_cand(addr, width, val)

    def note_cand(s, addr, width, val):
        if s.mode == 'private': return          # only the final image of vf_setup matters (init_value)
        vs = s.sym_values(val if is_c(val) else simp(val))
        if vs is None:
            s.sc.add_cand(addr, 'TOP', s.tid)
        else:
            for c in vs: s.sc.add_cand(addr, c, s.tid)

    def rmw(s, addr, width, op, operand, order, site):
        o = s.check_addr(addr, width, site, True)
        if s.mode != 'private':
            s.sc.note_access(o, s.tid)
        bits = width * 8
        def apply(old):
            if op == 'xchg': return operand
            f = {'add': lambda a, b: a + b, 'sub': lambda a, b: a - b, 'and': lambda a, b: a & b, 'or': lambda a, b: a | b,
                 'xor': lambda a, b: a ^ b}[op]
            if is_c(old) and is_c(operand): return f(old, operand) & mask(bits)
            return simp(f(bv(old, bits), bv(operand, bits)))
        if not s.is_shared(o):
            old = s.priv_load(addr, width)
            nv = apply(old)
            s.priv_store(addr, width, nv)
            if s.mode == 'private': s.note_cand(addr, width, nv)
            return old
        e = s.new_event(kind='RMW', addr=addr, width=width, order=order, site=site, obj=o.base)
        old = s.subst(e.rval)
        e.wval = apply(e.rval)
        e.succ = True
        s.last_val[addr] = e.wval
        s.own_last[addr] = e.wval
        s.note_cand(addr, width, apply(old) if op != 'xchg' else operand)
        return old

    def cmpxchg(s, addr, width, expected, new, order, fail_order, site):
        o = s.check_addr(addr, width, site, True)
        if s.mode != 'private':
            s.sc.note_access(o, s.tid)
        bits = width * 8
        if not s.is_shared(o):
            old = s.priv_load(addr, width)
            eq = simp(bv(old, bits) == bv(expected, bits)) if not (is_c(old) and is_c(expected)) else (old == expected)
            if isinstance(eq, bool): ok = eq
            elif z3.is_true(eq): ok = True
            elif z3.is_false(eq): ok = False
            else:
                ok = s.decide('br', [('T', eq), ('F', z3.Not(eq))], site) == 0
            if ok:
                s.priv_store(addr, width, new)
                if s.mode == 'private': s.note_cand(addr, width, new)
            return old, 1 if ok else 0
        e = s.new_event(kind='RMW', addr=addr, width=width, order=order, site=site, obj=o.base)
        e.fail_order = fail_order
        old = s.subst(e.rval)
        succ = z3.simplify(e.rval == bv(expected, bits))
        e.succ = succ
        e.wval = new
        s.note_cand(addr, width, new)
        ok = s.truth(z3.If(simp(bv(old, bits) == bv(expected, bits)), z3.BitVecVal(1, 1), z3.BitVecVal(0, 1)), site)
        if ok:
            s.last_val[addr] = new; s.own_last[addr] = new
        return old, 1 if ok else 0

    def fence(s, order, site):
        if s.mode == 'private': return
        s.new_event(kind='F', addr=0, width=0, order=order, site=site)

    # ------------------------------------------------------------------ values
    def val(s, fr, v):
        if isinstance(v, Local):
            try:
                return fr.regs[v.name]
            except KeyError:
                raise Unsupported('undefined register %%%s in %s' % (v.name, fr.fn.name))
        if isinstance(v, ConstInt):
            if isinstance(v.ty, IntT): return v.v & mask(v.ty.bits)
            raise Unsupported('float constant')
        if isinstance(v, (ConstNull,)): return 0
        if isinstance(v, (ConstZero, ConstUndef)):
            return s.zero_of(v.ty)
        if isinstance(v, Global):
            return s.global_addr(v.name)
        if isinstance(v, ConstExpr):
            return s.constexpr(fr, v)
        if isinstance(v, ConstAgg):
            return [s.val(fr, e) for e in v.els]
        if isinstance(v, MetaVal): return 0
        raise Unsupported('value %r' % (v,))

    def zero_of(s, ty):
        r = s.sc.L.resolve(ty)
        if isinstance(r, StructT): return [s.zero_of(e) for e in r.els]
        if isinstance(r, ArrT): return [s.zero_of(r.el) for _ in range(r.n)]
        return 0

    def global_addr(s, name):
        sc = s.sc
        if name in sc.mod.funcs: return sc.faddr[name]
        if name in sc.mod.aliases:
            return s.val(None, sc.mod.aliases[name])
        g = sc.mod.globals.get(name)
        if g is None: raise Unsupported('unknown global ' + name)
        if g.thread_local:
            k = (name, s.tid)
            if k not in sc.gaddr:
                sc.alloc_global(g, s.tid)
            a = sc.gaddr[k]
            if g.init is not None and k not in s.tls_done:
                s.tls_done.add(k)
                s.write_const(a, g.ty, g.init)
            return a
        return sc.gaddr[(name, None)]

    def constexpr(s, fr, v):
        op = v.op
        if op in ('bitcast', 'inttoptr', 'ptrtoint', 'addrspacecast'):
            return s.val(fr, v.args[0])
        if op == 'trunc': return s.val(fr, v.args[0]) & mask(v.ty.bits)
        if op == 'zext': return s.val(fr, v.args[0])
        if op == 'getelementptr':
            return s.gep(fr, v.extra, v.args[0], v.args[1:])
        if op in ('add', 'sub', 'mul', 'and', 'or', 'xor'):
            return s.binop(op, s.val(fr, v.args[0]), s.val(fr, v.args[1]), v.args[0].ty.bits if isinstance(v.args[0].ty, IntT) else 64)
        if op == 'icmp':
            return s.icmp(v.extra, s.val(fr, v.args[0]), s.val(fr, v.args[1]), 64)
        if op == 'select':
            c = s.val(fr, v.args[0])
            return s.val(fr, v.args[1]) if c else s.val(fr, v.args[2])
        raise Unsupported('constexpr ' + op)

    def gep(s, fr, srcty, base, idx):
        L = s.sc.L
        p = s.val(fr, base)
        cur = srcty
        i0 = s.val(fr, idx[0])
        off = 0
        def sx(v, ty):
            if is_c(v): return to_signed(v, ty.bits)
            return z3.SignExt(64 - ty.bits, v) if ty.bits < 64 else v
        dyn = None
        v0 = sx(i0, idx[0].ty)
        if is_c(v0): off += v0 * L.size(cur)
        else: dyn = v0 * L.size(cur)
        for ix in idx[1:]:
            r = L.resolve(cur)
            if isinstance(r, StructT):
                k = ix.v
                o, cur = L.field_offset(cur, k)
                off += o
            elif isinstance(r, ArrT):
                iv = sx(s.val(fr, ix), ix.ty)
                if is_c(iv): off += iv * L.size(r.el)
                else: dyn = iv * L.size(r.el) if dyn is None else dyn + iv * L.size(r.el)
                cur = r.el
            else:
                raise Unsupported('gep into ' + str(cur))
        if is_c(p) and dyn is None:
            return (p + off) & MASK64
        e = bv(p, 64) + z3.BitVecVal(off & MASK64, 64)
        if dyn is not None: e = e + dyn
        return simp(e)

    def binop(s, op, a, b, bits):
        if is_c(a) and is_c(b):
            m = mask(bits)
            if op == 'add': return (a + b) & m
            if op == 'sub': return (a - b) & m
            if op == 'mul': return (a * b) & m
            if op == 'and': return a & b
            if op == 'or': return a | b
            if op == 'xor': return a ^ b
            if op == 'shl': return (a << b) & m if b < bits else 0
            if op == 'lshr': return (a >> b) if b < bits else 0
            if op == 'ashr': return (to_signed(a, bits) >> min(b, bits - 1)) & m
            if op == 'udiv':
                if b == 0: raise Unsupported('division by zero')
                return a // b
            if op == 'urem': return a % b
            if op == 'sdiv':
                x, y = to_signed(a, bits), to_signed(b, bits)
                q = abs(x) // abs(y); q = q if (x < 0) == (y < 0) else -q
                return q & m
            if op == 'srem':
                x, y = to_signed(a, bits), to_signed(b, bits)
                r = abs(x) % abs(y); r = r if x >= 0 else -r
                return r & m
            raise Unsupported(op)
        A, B = bv(a, bits), bv(b, bits)
        f = {'add': lambda: A + B, 'sub': lambda: A - B, 'mul': lambda: A * B, 'and': lambda: A & B, 'or': lambda: A | B,
             'xor': lambda: A ^ B, 'shl': lambda: A << B, 'lshr': lambda: z3.LShR(A, B), 'ashr': lambda: A >> B,
             'udiv': lambda: z3.UDiv(A, B), 'urem': lambda: z3.URem(A, B), 'sdiv': lambda: A / B, 'srem': lambda: z3.SRem(A, B)}
        if op not in f: raise Unsupported(op)
        return simp(f[op]())

    def icmp(s, pred, a, b, bits):
        if is_c(a) and is_c(b):
            sa, sb = to_signed(a, bits), to_signed(b, bits)
            r = {'eq': a == b, 'ne': a != b, 'ugt': a > b, 'uge': a >= b, 'ult': a < b, 'ule': a <= b,
                 'sgt': sa > sb, 'sge': sa >= sb, 'slt': sa < sb, 'sle': sa <= sb}[pred]
            return 1 if r else 0
        A, B = bv(a, bits), bv(b, bits)
        c = {'eq': lambda: A == B, 'ne': lambda: A != B, 'ugt': lambda: z3.UGT(A, B), 'uge': lambda: z3.UGE(A, B),
             'ult': lambda: z3.ULT(A, B), 'ule': lambda: z3.ULE(A, B), 'sgt': lambda: A > B, 'sge': lambda: A >= B,
             'slt': lambda: A < B, 'sle': lambda: A <= B}[pred]()
        return simp(z3.If(c, z3.BitVecVal(1, 1), z3.BitVecVal(0, 1)))

    def tybits(s, ty):
        r = s.sc.L.resolve(ty)
        if isinstance(r, IntT): return r.bits
        if isinstance(r, PtrT): return 64
        raise Unsupported('bits of ' + str(ty))

    # ------------------------------------------------------------------ execution
    def run(s):
        sc = s.sc
        s.sc_sym_src = sc.__dict__.setdefault('sym_src', {})
        f = sc.mod.funcs.get(s.entry)
        if f is None or f.is_decl:
            raise Unsupported('entry %s not defined' % s.entry)
        try:
            if s.mode == 'private' and s.entry == 'vf_setup':
                s.init_globals()
            s.call_function(f, [], 'entry')
            s.end = 'done'
        except PathEnd as e:
            s.end = e.why
        return s

    def write_const(s, addr, ty, v):
        L = s.sc.L
        r = L.resolve(ty)
        if isinstance(v, (ConstZero, ConstUndef)): return
        if isinstance(v, ConstStr):
            for i, b in enumerate(v.data): s.store[addr + i] = (1, b)
            return
        if isinstance(v, ConstAgg):
            if isinstance(r, ArrT):
                es = L.size(r.el)
                for i, e in enumerate(v.els): s.write_const(addr + i * es, r.el, e)
            else:
                for i, e in enumerate(v.els):
                    o, et = L.field_offset(ty, i)
                    s.write_const(addr + o, et, e)
            return
        x = s.val(None, v)
        w = L.size(ty)
        s.store[addr] = (w, x)

    def init_globals(s):
        mod = s.sc.mod
        for g in mod.globals.values():
            if g.thread_local or g.init is None or g.name.startswith('llvm.'): continue
            s.write_const(s.sc.gaddr[(g.name, None)], g.ty, g.init)
        ctors = mod.globals.get('llvm.global_ctors')
        if ctors is not None and isinstance(ctors.init, ConstAgg):
            for el in ctors.init.els:
                fn = el.els[1]
                while isinstance(fn, ConstExpr): fn = fn.args[0]
                if isinstance(fn, Global):
                    s.call_function(mod.funcs[fn.name], [], 'global_ctor')

    def call_function(s, f, args, site):
        if len(s.callstack) > 60:
            raise Unsupported('call depth')
        rb = s.sc.opts.get('rec_bound', 2)
        if s.callstack.count(f.name) >= rb:
            s.asserts.append((list(s.constraints), 'BOUND', 'bound: %s re-entered recursively more than %d times' % (f.name[:70], rb), s.cur_pos()))
            raise PathEnd('bound')
        fr = Frame(f)
        for p, a in zip(f.params, args):
            fr.regs[p.name] = a
        blocks = {b.name: b for b in f.blocks}
        fr.block = f.blocks[0]
        s.callstack.append(f.name)
        try:
            while True:
                b = fr.block
                # phis first (parallel)
                newvals = {}
                ip = 0
                for I in b.instrs:
                    if I.op != 'phi': break
                    ip += 1
                    for (v, lbl) in I.extra['incoming']:
                        if lbl == fr.prev_block:
                            newvals[I.res] = s.val(fr, v); break
                    else:
                        raise Unsupported('phi without incoming from %s in %s' % (fr.prev_block, f.name))
                fr.regs.update(newvals)
                nxt = None
                for I in b.instrs[ip:]:
                    s.steps += 1
                    if s.steps > s.sc.opts.get('max_steps', 400000):
                        raise Unsupported('step limit')
                    r = s.exec_instr(fr, I, b)
                    if r is not None:
                        kind, x = r
                        if kind == 'ret':
                            s.scope_end(fr)
                            return x
                        nxt = x
                        break
                if nxt is None:
                    raise Unsupported('fell off block %s in %s' % (b.name, f.name))
                # loop bound on back edges (per frame, per target)
                key = (b.name, nxt)
                c = fr.loop_counts.get(key, 0) + 1
                fr.loop_counts[key] = c
                if c > s.sc.opts.get('loop_bound', 4):
                    s.asserts.append((list(s.constraints), 'BOUND', 'bound: loop %s->%s in %s exceeded %d iterations' % (b.name, nxt, f.name, c - 1), s.cur_pos()))
                    raise PathEnd('bound')
                fr.prev_block = b.name
                fr.block = blocks[nxt]
        finally:
            s.callstack.pop()

    def scope_end(s, fr):
        # stack objects die when their frame returns; shared ones get a lifetime-end event
        for base in fr.allocas:
            o = s.local_objs.get(base)
            if o is not None and s.is_shared(o):
                e = s.new_event(kind='FREE', addr=base, width=0, order='na', site='scope-end:' + o.name, obj=base)
            else:
                s.freed.add(base)
                if o is not None:
                    for a in [a for a in s.store if base <= a < base + o.size]: del s.store[a]

    def site(s, fr, I):
        return '%s:%s' % (fr.fn.name[:60], I.res if I.res is not None else I.op)

    def exec_instr(s, fr, I, b):
        op = I.op
        R = fr.regs
        if op in ('load', 'store', 'cmpxchg', 'atomicrmw', 'fence'):
            s.sched += 1          # one scheduling point per memory instruction (matches the instrumented native replay build)
        if op in BINOPS:
            R[I.res] = s.binop(op, s.val(fr, I.args[0]), s.val(fr, I.args[1]), I.ty.bits)
        elif op == 'icmp':
            a, c = I.args
            R[I.res] = s.icmp(I.extra['pred'], s.val(fr, a), s.val(fr, c), s.tybits(a.ty))
        elif op in ('bitcast', 'inttoptr', 'ptrtoint', 'addrspacecast'):
            v = s.val(fr, I.args[0])
            if op == 'ptrtoint' and isinstance(I.ty, IntT) and I.ty.bits < 64:
                v = v & mask(I.ty.bits) if is_c(v) else simp(z3.Extract(I.ty.bits - 1, 0, v))
            if op == 'inttoptr' and isinstance(I.args[0].ty, IntT) and I.args[0].ty.bits < 64 and not is_c(v):
                v = z3.ZeroExt(64 - I.args[0].ty.bits, v)
            R[I.res] = v
        elif op == 'trunc':
            v = s.val(fr, I.args[0]); nb = I.ty.bits
            R[I.res] = v & mask(nb) if is_c(v) else simp(z3.Extract(nb - 1, 0, v))
        elif op == 'zext':
            v = s.val(fr, I.args[0])
            R[I.res] = v if is_c(v) else simp(z3.ZeroExt(I.ty.bits - I.args[0].ty.bits, v))
        elif op == 'sext':
            v = s.val(fr, I.args[0]); sb = I.args[0].ty.bits
            R[I.res] = (to_signed(v, sb) & mask(I.ty.bits)) if is_c(v) else simp(z3.SignExt(I.ty.bits - sb, v))
        elif op == 'getelementptr':
            R[I.res] = s.gep(fr, I.extra['src_ty'], I.args[0], I.args[1:])
        elif op == 'alloca':
            aty = I.extra['alloc_ty']
            n = 1
            if I.args:
                n = s.concretize(s.val(fr, I.args[0]), s.site(fr, I), 'alloca size')
            base = s.alloca(s.sc.L.size(aty) * n, '%s.%s' % (fr.fn.name[:40], I.res))
            fr.allocas.append(base)
            R[I.res] = base
        elif op == 'load':
            p = s.concretize(s.val(fr, I.args[0]), s.site(fr, I))
            R[I.res] = s.load_typed(p, I.ty, I.extra.get('ordering', 'na'), s.site(fr, I))
        elif op == 'store':
            p = s.concretize(s.val(fr, I.args[1]), s.site(fr, I))
            s.store_typed(p, I.args[0].ty, s.val(fr, I.args[0]), I.extra.get('ordering', 'na'), s.site(fr, I))
        elif op == 'fence':
            s.fence(I.extra['ordering'], s.site(fr, I))
        elif op == 'cmpxchg':
            p = s.concretize(s.val(fr, I.args[0]), s.site(fr, I))
            w = s.sc.L.size(I.args[1].ty)
            old, ok = s.cmpxchg(p, w, s.val(fr, I.args[1]), s.val(fr, I.args[2]), I.extra['ordering'], I.extra['fail_ordering'], s.site(fr, I))
            R[I.res] = [old, ok]
        elif op == 'atomicrmw':
            p = s.concretize(s.val(fr, I.args[0]), s.site(fr, I))
            w = s.sc.L.size(I.args[1].ty)
            R[I.res] = s.rmw(p, w, I.extra['rmw'], s.val(fr, I.args[1]), I.extra['ordering'], s.site(fr, I))
        elif op == 'select':
            c = s.val(fr, I.args[0])
            a, d = s.val(fr, I.args[1]), s.val(fr, I.args[2])
            if is_c(c): R[I.res] = a if c & 1 else d
            else:
                if isinstance(a, list) or isinstance(d, list):
                    R[I.res] = a if s.truth(c, s.site(fr, I)) else d
                else:
                    bits = s.tybits(I.ty)
                    R[I.res] = simp(z3.If(c == z3.BitVecVal(1, 1), bv(a, bits), bv(d, bits)))
        elif op == 'freeze':
            R[I.res] = s.val(fr, I.args[0])
        elif op == 'extractvalue':
            v = s.val(fr, I.args[0])
            for k in I.extra['idx']: v = v[k]
            R[I.res] = v
        elif op == 'insertvalue':
            import copy
            v = copy.deepcopy(s.val(fr, I.args[0])) if isinstance(s.val(fr, I.args[0]), list) else s.val(fr, I.args[0])
            if not isinstance(v, list): v = s.zero_of(I.ty)
            t = v
            for k in I.extra['idx'][:-1]: t = t[k]
            t[I.extra['idx'][-1]] = s.val(fr, I.args[1])
            R[I.res] = v
        elif op == 'br':
            t = I.extra['targets']
            if len(t) == 1: return ('br', t[0])
            return ('br', t[0] if s.truth(s.val(fr, I.args[0]), s.site(fr, I)) else t[1])
        elif op == 'switch':
            v = s.val(fr, I.args[0])
            if not is_c(v):
                v = simp(s.subst(v))
            if is_c(v):
                for cv, lbl in I.extra['cases']:
                    if (cv.v & mask(cv.ty.bits)) == v: return ('br', lbl)
                return ('br', I.extra['default'])
            bits = I.args[0].ty.bits
            opts = [(str(cv.v), v == z3.BitVecVal(cv.v, bits)) for cv, lbl in I.extra['cases']]
            opts.append(('default', z3.And(*[v != z3.BitVecVal(cv.v, bits) for cv, lbl in I.extra['cases']]) if I.extra['cases'] else None))
            ch = s.decide('sw', opts, s.site(fr, I))
            return ('br', I.extra['cases'][ch][1] if ch < len(I.extra['cases']) else I.extra['default'])
        elif op == 'ret':
            return ('ret', s.val(fr, I.args[0]) if I.args else None)
        elif op == 'unreachable':
            s.asserts.append((list(s.constraints), False, "rt: 'unreachable' reached in %s" % fr.fn.name, s.cur_pos()))
            raise PathEnd('unreachable')
        elif op in ('call', 'invoke'):
            r = s.exec_call(fr, I)
            if I.res is not None and not isinstance(I.ty, VoidT):
                R[I.res] = r
            if op == 'invoke':
                return ('br', I.extra['normal'])
        elif op == 'landingpad' or op == 'resume':
            raise Unsupported('exception handling reached in E2 scenario (%s)' % fr.fn.name)
        elif op == 'phi':
            raise Unsupported('phi in the middle of a block')
        else:
            raise Unsupported('instruction ' + op)
        return None

    def load_typed(s, p, ty, order, site):
        r = s.sc.L.resolve(ty)
        if isinstance(r, (IntT, PtrT)):
            w = s.sc.L.size(ty)
            v = s.load(p, w, order, site)
            if isinstance(r, IntT) and r.bits < w * 8:
                v = v & mask(r.bits) if is_c(v) else simp(z3.Extract(r.bits - 1, 0, v))
            return v
        if isinstance(r, StructT):
            out = []
            for k in range(len(r.els)):
                o, et = s.sc.L.field_offset(ty, k)
                out.append(s.load_typed(p + o, et, order, site))
            return out
        raise Unsupported('load of ' + str(ty))

    def store_typed(s, p, ty, v, order, site):
        r = s.sc.L.resolve(ty)
        if isinstance(r, (IntT, PtrT)):
            w = s.sc.L.size(ty)
            if isinstance(r, IntT) and r.bits < w * 8 and not is_c(v):
                v = z3.ZeroExt(w * 8 - r.bits, v)
            s.store_(p, w, v, order, site)
            return
        if isinstance(r, StructT):
            for k in range(len(r.els)):
                o, et = s.sc.L.field_offset(ty, k)
                s.store_typed(p + o, et, v[k], order, site)
            return
        raise Unsupported('store of ' + str(ty))

    # ------------------------------------------------------------------ calls
    def exec_call(s, fr, I):
        callee = I.extra['callee']
        site = s.site(fr, I)
        if isinstance(callee, Global):
            name = callee.name
        else:
            addr = s.concretize(s.val(fr, callee), site, 'function pointer')
            name = s.sc.fname.get(addr)
            if name is None:
                s.asserts.append((list(s.constraints), False, 'memory: call through invalid function pointer 0x%x at %s' % (addr, site), s.cur_pos()))
                raise PathEnd('bad-call')
        args = I.args
        A = lambda i: s.val(fr, args[i])
        if name.startswith('llvm.'):
            return s.intrinsic(fr, name, I, site)
        f = s.sc.mod.funcs.get(name)
        if f is not None and not f.is_decl:
            return s.call_function(f, [s.val(fr, a) for a in args], site)
        return s.external(fr, name, I, site)

    def intrinsic(s, fr, name, I, site):
        args = I.args
        A = lambda i: s.val(fr, args[i])
        if name.startswith(('llvm.lifetime.', 'llvm.invariant.', 'llvm.experimental.noalias', 'llvm.dbg.', 'llvm.donothing', 'llvm.x86.sse2.pause')):
            return None
        if name.startswith('llvm.assume'):
            return None
        if name.startswith('llvm.expect'):
            return A(0)
        if name.startswith('llvm.memcpy') or name.startswith('llvm.memmove'):
            d = s.concretize(A(0), site); sr = s.concretize(A(1), site); n = s.concretize(A(2), site, 'size')
            s.memcpy(d, sr, n, site); return None
        if name.startswith('llvm.memset'):
            d = s.concretize(A(0), site); c = s.concretize(A(1), site, 'byte'); n = s.concretize(A(2), site, 'size')
            s.memset(d, c & 0xff, n, site); return None
        m = re.match(r'llvm\.(umax|umin|smax|smin)\.i(\d+)', name)
        if m:
            bits = int(m.group(2)); a, b2 = A(0), A(1)
            pred = {'umax': 'ugt', 'umin': 'ult', 'smax': 'sgt', 'smin': 'slt'}[m.group(1)]
            c = s.icmp(pred, a, b2, bits)
            if is_c(c): return a if c else b2
            return simp(z3.If(c == z3.BitVecVal(1, 1), bv(a, bits), bv(b2, bits)))
        if name == 'llvm.trap':
            s.asserts.append((list(s.constraints), False, 'rt: llvm.trap at %s' % site, s.cur_pos()))
            raise PathEnd('trap')
        if name.startswith('llvm.coro.') or name.startswith('llvm.eh.'):
            raise Unsupported('intrinsic ' + name)
        raise Unsupported('intrinsic ' + name)

    def cell_width_at(s, addr, n):
        c = s.store.get(addr)
        if c is not None and c[0] <= n: return c[0]
        c = s.sc.init_image.get(addr)
        if c is not None and c[0] <= n: return c[0]
        return None

    def memcpy(s, d, sr, n, site):
        # copy cell-wise following the geometry of the source where known, else 8/4/1-byte chunks
        off = 0
        while off < n:
            w = None
            so = s.find_obj(sr + off)
            if so is not None and not s.is_shared(so):
                w = s.cell_width_at(sr + off, n - off)
            if w is None:
                rem = n - off
                w = 8 if rem >= 8 and (sr + off) % 8 == 0 and (d + off) % 8 == 0 else 4 if rem >= 4 and (sr + off) % 4 == 0 and (d + off) % 4 == 0 else 1
            v = s.load(sr + off, w, 'na', site)
            s.store_(d + off, w, v, 'na', site)
            off += w

    def memset(s, d, c, n, site):
        off = 0
        while off < n:
            rem = n - off
            w = 8 if rem >= 8 and (d + off) % 8 == 0 else 4 if rem >= 4 and (d + off) % 4 == 0 else 1
            v = 0
            for i in range(w): v |= c << (8 * i)
            s.store_(d + off, w, v, 'na', site)
            off += w

    def cstring(s, addr):
        out = []
        for i in range(400):
            b = s.priv_byte(addr + i)
            if not is_c(b) or b == 0: break
            out.append(chr(b))
        return ''.join(out)

    def external(s, fr, name, I, site):
        args = I.args
        A = lambda i: s.val(fr, args[i])
        sc = s.sc
        if name in ('_Znwm', '_Znam'):
            n = s.concretize(A(0), site, 'size')
            return s.malloc(n, 'new@' + fr.fn.name[:40])
        if name in ('_ZdlPv', '_ZdaPv', '_ZdlPvm', '_ZdaPvm', 'free'):
            p = s.concretize(A(0), site)
            if p == 0: return None
            o = s.find_obj(p)
            if o is None or o.base != p or o.kind != 'heap':
                s.asserts.append((list(s.constraints), False, 'memory: delete of a pointer that is not a live heap block at %s' % site, s.cur_pos()))
                raise PathEnd('bad-free')
            if s.mode != 'private': sc.note_access(o, s.tid)
            if s.is_shared(o):
                s.new_event(kind='FREE', addr=p, width=0, order='na', site='delete:' + site, obj=p)
            else:
                if p in s.freed:
                    s.asserts.append((list(s.constraints), False, 'memory: double delete at %s' % site, s.cur_pos()))
                s.freed.add(p)
            return None
        if name == 'malloc':
            n = s.concretize(A(0), site, 'size')
            return s.malloc(n, 'malloc@' + fr.fn.name[:40])
        if name == 'vf_assert':
            c = A(0)
            msg = s.cstring(s.concretize(A(1), site))
            if is_c(c):
                if not c: s.asserts.append((list(s.constraints), False, msg, s.cur_pos()))
            else:
                c = simp(s.subst(c))
                if is_c(c):
                    if not c: s.asserts.append((list(s.constraints), False, msg, s.cur_pos()))
                else:
                    s.asserts.append((list(s.constraints), z3.simplify(c != z3.BitVecVal(0, c.size())), msg, s.cur_pos()))
            return None
        if name == 'vf_join':
            return s.join(fr, I, site)
        if name == 'vf_reach':
            s.asserts.append((list(s.constraints), 'REACH', s.cstring(s.concretize(A(0), site)), s.cur_pos()))
            return None
        if name == '__CPROVER_assume':
            c = A(0)
            if is_c(c):
                if not c: raise PathEnd('assume-false')
            else:
                cond = z3.simplify(c != z3.BitVecVal(0, c.size()))
                s.constraints.append(cond); s.solver.add(cond)
                if s.mode == 'private': sc.assumes.append(cond)
            return None
        if name.startswith('nondet_'):
            bits = s.tybits(I.ty)
            x = z3.BitVec('nd_%d_%d' % (s.tid, s.nd_count), bits); s.nd_count += 1
            if all(x.decl().name() != y.decl().name() for y in sc.nd_syms): sc.nd_syms.append(x)
            return x
        if name == '__assert_fail':
            msg = s.cstring(s.concretize(A(0), site)); fn = s.cstring(s.concretize(A(1), site))
            ln = A(2)
            s.asserts.append((list(s.constraints), False, 'libassert %s:%s: %s' % (fn.split('/')[-1], ln, msg), s.cur_pos()))
            raise PathEnd('assert-fail')
        if name == 'vf_atomic_wait':
            p = s.concretize(A(0), site); old = A(1); size = s.concretize(A(2), site, 'size')
            return s.atomic_wait(p, old, size, site)
        if name == 'vf_atomic_notify':
            return None
        if name in ('_ZSt9terminatev', '__cxa_pure_virtual', 'abort'):
            s.asserts.append((list(s.constraints), False, 'rt: std::terminate/abort reached at %s' % site, s.cur_pos()))
            raise PathEnd('terminate')
        if name == '__cxa_thread_atexit': return 0
        if name in ('sched_yield',): return 0
        if name == 'pthread_self': return s.tid + 1
        if name == '__cxa_atexit': return 0
        raise Unsupported('external function %s called from %s' % (name, fr.fn.name))

    def join(s, fr, I, site):
        if s.mode == 'private' or s.sc.opts.get('no_join'): return None
        if len(s.callstack) != 1:
            raise Unsupported('vf_join() must be called directly from the thread entry function')
        fn = fr.fn
        la = s.sc.__dict__.setdefault('live_cache', {})
        if fn.name not in la: la[fn.name] = live_after_calls(fn)
        idx = fr.block.instrs.index(I)
        live = la[fn.name].get((fr.block.name, idx), set())
        def canon(v):
            if isinstance(v, list): return tuple(canon(x) for x in v)
            if is_c(v): return v
            v = simp(s.subst(v))
            return v if is_c(v) else v.sexpr()
        regs = tuple(sorted((n, canon(fr.regs[n])) for n in live if n in fr.regs))
        cells = tuple(sorted((a, w, canon(v)) for a, (w, v) in s.store.items()))
        heap_freed = tuple(sorted(b for b in s.freed if s.local_objs.get(b) is not None and s.local_objs[b].kind == 'heap'))
        s.join_count += 1
        key = (s.join_count, fr.block.name, idx, regs, cells, s.heap_ptr, heap_freed, tuple(sorted(s.tls_done)))
        table = s.join_table
        node = table.get(key)
        me = tuple(s.decisions)
        if node is None:
            node = JoinNode(s.tid, len(table), key, me)
            table[key] = node
        pk = (s.seg_node.id if s.seg_node is not None else -1, tuple(c.sexpr() for c in s.constraints))
        if pk not in node.preds:
            node.preds[pk] = (s.seg_node, list(s.constraints))
        node.pred_len = max(node.pred_len, len(s.events))
        if node.owner != me:
            s.joined_to = node
            raise PathEnd('joined')
        # continue as the representative of every path that arrives here with this state
        for n in live:
            if n in fr.regs and not isinstance(fr.regs[n], list) and not is_c(fr.regs[n]): fr.regs[n] = simp(s.subst(fr.regs[n]))
        for a, (w, v) in list(s.store.items()):
            if not is_c(v): s.store[a] = (w, simp(s.subst(v)))
        for n in list(fr.regs):
            if n not in live: del fr.regs[n]
        s.seg_node = node
        s.constraints = [node.reach]
        s.solver = z3.Solver()
        s.binding = {}
        s.last_val = {}; s.changes = {}; s.own_last = {}; s.own_unknown = True
        s.stack_ptr = 0x10000000 * (s.tid + 1) + 0x100000 * s.join_count
        s.sched = s.join_count << 32
        s.seg_starts.append(len(s.events))
        s.seg_dstart = len(s.decisions)
        return None

    def atomic_wait(s, p, old, size, site):
        """blocking read: passes only with a value != old. A path that cannot pass ends 'stuck' (deadlock query)."""
        s.sched += 1
        o = s.check_addr(p, size, site, False)
        if s.mode != 'private': s.sc.note_access(o, s.tid)
        oldv = old & mask(size * 8) if is_c(old) else simp(z3.Extract(size * 8 - 1, 0, old))
        if not s.is_shared(o):
            cur = s.priv_load(p, size)
            if is_c(cur) and is_c(oldv):
                if cur != oldv: return None
                s.asserts.append((list(s.constraints), False, 'rt: atomic wait blocks forever (no other thread can change the value) at %s' % site, s.cur_pos()))
                raise PathEnd('stuck-private')
            raise Unsupported('symbolic private wait')
        e = s.new_event(kind='WAIT', addr=p, width=size, order='seq_cst', site=site, obj=o.base)
        e.info = oldv
        cond = z3.simplify(e.rval != bv(oldv, size * 8))
        s.constraints.append(cond); s.solver.add(cond)
        return None


def z3_vars(e):
    out = {}
    seen = set()
    def walk(x):
        i = x.get_id()
        if i in seen: return
        seen.add(i)
        if z3.is_const(x):
            if x.decl().kind() == z3.Z3_OP_UNINTERPRETED: out[x.decl().name()] = x
        else:
            for c in x.children(): walk(c)
    if not isinstance(e, int): walk(e)
    return list(out.values())


def z3_is_simple(e):
    """value is a load symbol, a constant, or an if-then-else over such (its possible values are enumerable)"""
    if isinstance(e, int) or z3.is_bv_value(e): return True
    if z3.is_const(e): return True
    if z3.is_app_of(e, z3.Z3_OP_ITE):
        return z3_is_simple(e.arg(1)) and z3_is_simple(e.arg(2))
    return False


def z3_consts(e):
    out = set()
    seen = set()
    def walk(x):
        i = x.get_id()
        if i in seen: return
        seen.add(i)
        if z3.is_bv_value(x):
            out.add(x.as_long())
        else:
            for c in x.children(): walk(c)
    if not isinstance(e, int): walk(e)
    return out


def explore_thread(sc, tid, entry, mode, max_paths=4000):
    """all paths of one thread: list of ThreadRun (complete), event cache"""
    evcache = {}
    work = [[]]
    runs = []
    seen = set()
    join_table = {}
    while work:
        prefix = work.pop()
        key = tuple(prefix)
        if key in seen: continue
        seen.add(key)
        r = ThreadRun(sc, tid, entry, prefix, evcache, mode)
        r.join_table = join_table
        r.run()
        for alt in r.new_alternatives:
            work.append(alt)
        if r.end != 'infeasible':
            runs.append(r)
        if len(runs) > max_paths:
            raise Unsupported('path limit exceeded in thread %d' % tid)
    return runs, evcache


def build_scenario(ll_path, nthreads, opts=None, log=None):
    mod = parse_file(ll_path)
    sc = Scenario(mod, nthreads, opts)
    # setup: sequential, private
    setup = ThreadRun(sc, 0, 'vf_setup', [], {}, 'private')
    setup.run()
    if setup.new_alternatives:
        raise Unsupported('vf_setup must be deterministic (it forked on symbolic data)')
    if setup.end != 'done':
        raise Unsupported('vf_setup ended with %s %s' % (setup.end, [a[2] for a in setup.asserts]))
    sc.init_image = dict(setup.store)
    sc.setup_asserts = setup.asserts
    entries = ['vf_thread_%d' % i for i in range(1, nthreads + 1)]
    has_check = 'vf_check' in mod.funcs and not mod.funcs['vf_check'].is_decl
    if has_check: entries.append('vf_check')
    passes = 0
    while True:
        passes += 1
        sc.changed = False
        threads = []
        wc = {}
        for i, en in enumerate(entries):
            runs, evc = explore_thread(sc, i + 1, en, 'thread')
            threads.append((en, runs, evc))
            m = {}
            for r in runs:
                c = {}
                for e in r.events:
                    if e.kind in ('W', 'RMW'): c[e.addr] = c.get(e.addr, 0) + 1
                for a, n in c.items(): m[a] = max(m.get(a, 0), n)
            wc[i + 1] = m
        if sc.wcount_prev != wc:
            if sc.wcount_prev is not None:
                # budgets may only grow (monotone fixpoint)
                for t, m in sc.wcount_prev.items():
                    for a, n in m.items():
                        if wc.setdefault(t, {}).get(a, 0) < n: wc[t][a] = n
            if sc.wcount_prev != wc: sc.changed = True
            sc.wcount_prev = wc
        if log: log('pass %d: shared=%d cand-locs=%d paths=%s events=%s' % (passes, len(sc.shared), len(sc.cand), [len(t[1]) for t in threads], [len(t[2]) for t in threads]))
        if not sc.changed: break
        if passes > 12: raise Unsupported('fixpoint not reached')
    sc.passes = passes
    return sc, threads, has_check
