#!/usr/bin/env python3
"""Replay of an E2 counterexample on the real code: instrument the scenario's LLVM IR with a scheduling point in front of
every memory instruction, compile it natively (clang -O1 on the already optimised IR; no re-optimisation, so that instruction
counts stay those the interpreter saw), link with rt/e2_native.c and force the solver's schedule with real pthreads."""
import os, re, subprocess, sys
VERIF = os.path.dirname(os.path.dirname(os.path.abspath(__file__)))
MEM_RE = re.compile(r'^\s+(?:%[-\w.$"]+ = )?(?:load|store|atomicrmw|cmpxchg|fence)\b')


def instrument(ll_in, ll_out):
    out = []
    infn = False
    n = 0
    for line in open(ll_in):
        if line.startswith('define '): infn = True
        elif line.startswith('}'): infn = False
        if infn and MEM_RE.match(line):
            out.append('  call void @vf_sched_point()\n'); n += 1
        out.append(line)
    out.append('\ndeclare void @vf_sched_point()\n')
    open(ll_out, 'w').writelines(out)
    return n


def build(ll, workdir, sanitize=True):
    ins = os.path.join(workdir, os.path.basename(ll)[:-3] + '.ins.ll')
    instrument(ll, ins)
    exe = ins[:-3] + ('.san' if sanitize else '') + '.exe'
    flags = ['-O0', '-g0', '-pthread', '-Wno-override-module']
    if sanitize: flags += ['-fsanitize=address', '-fno-omit-frame-pointer']
    cmd = ['clang-14'] + flags + ['-x', 'ir', ins, '-x', 'c', os.path.join(VERIF, 'rt', 'e2_native.c'), '-lstdc++', '-lm', '-o', exe]
    p = subprocess.run(cmd, stdout=subprocess.PIPE, stderr=subprocess.PIPE)
    if p.returncode != 0:
        raise Exception('native build of instrumented IR failed: ' + p.stderr.decode()[-2000:])
    return exe


DEF_RE = re.compile(r'^(define .*?\))( .*)?$')


def build_tsan(ll, workdir):
    """ThreadSanitizer build of the schedule-instrumented IR (C++11 happens-before race detection on the forced schedule).
    The turnstile runtime is compiled WITHOUT instrumentation so that its own synchronisation does not create happens-before edges."""
    ins = os.path.join(workdir, os.path.basename(ll)[:-3] + '.tsan.ll')
    tmp = ins + '.tmp'
    instrument(ll, tmp)
    out = []
    for line in open(tmp):
        if line.startswith('define '):
            # function attributes follow the parameter list: find its closing parenthesis (names may be quoted, types nest parentheses)
            m = re.search(r'@(?:"(?:[^"\\]|\\.)*"|[-\w.$]+)\(', line)
            if m:
                depth = 0; pos = None; inq = False
                for i in range(m.end() - 1, len(line)):
                    ch = line[i]
                    if ch == '"': inq = not inq
                    if inq: continue
                    if ch == '(': depth += 1
                    elif ch == ')':
                        depth -= 1
                        if depth == 0: pos = i + 1; break
                if pos is not None:
                    for kw in (' local_unnamed_addr', ' unnamed_addr'):
                        if line.startswith(kw, pos): pos += len(kw); break
                    line = line[:pos] + ' sanitize_thread' + line[pos:]
        out.append(line)
    open(ins, 'w').writelines(out)
    os.unlink(tmp)
    obj = ins[:-3] + '.o'; rto = os.path.join(workdir, 'e2_native_plain.o'); exe = ins[:-3] + '.exe'
    for cmd in (['clang-14', '-O0', '-g0', '-fsanitize=thread', '-Wno-override-module', '-x', 'ir', '-c', ins, '-o', obj],
                ['clang-14', '-O1', '-c', os.path.join(VERIF, 'rt', 'e2_native.c'), '-o', rto],
                ['clang-14', '-fsanitize=thread', obj, rto, '-lstdc++', '-lm', '-pthread', '-o', exe]):
        p = subprocess.run(cmd, stdout=subprocess.PIPE, stderr=subprocess.PIPE)
        if p.returncode != 0:
            raise Exception('TSan build failed: ' + ' '.join(cmd[:4]) + ': ' + p.stderr.decode()[-1500:])
    return exe


def run(exe, schedule, nondet, workdir, timeout=60, valgrind=False):
    sf = os.path.join(workdir, 'schedule.txt')
    with open(sf, 'w') as f:
        for (tid, v) in nondet: f.write('n %d %d\n' % (tid, v))
        for (tid, o) in schedule: f.write('s %d %d\n' % (tid, o))
    env = dict(os.environ); env['VF_SCHEDULE'] = sf
    env['ASAN_OPTIONS'] = 'detect_leaks=0:exitcode=43:detect_stack_use_after_return=1'
    env['TSAN_OPTIONS'] = 'exitcode=66:report_signal_unsafe=0'
    try:
        cmd = ['valgrind', '-q', '--error-exitcode=43', '--fair-sched=yes', exe] if valgrind else [exe]
        def unlimit():
            import resource
            try: resource.setrlimit(resource.RLIMIT_AS, (resource.RLIM_INFINITY, resource.RLIM_INFINITY))
            except Exception: pass
        p = subprocess.run(cmd, stdout=subprocess.PIPE, stderr=subprocess.PIPE, env=env, timeout=timeout, preexec_fn=unlimit)
        return p.returncode, p.stderr.decode('utf8', 'replace')
    except subprocess.TimeoutExpired:
        return -9, 'TIMEOUT'


def classify(rc, err, tsan=False):
    if rc == 42:
        m = re.search(r'VF_ASSERT_FAILED: (.*)', err)
        return True, 'native threads under the forced schedule fail: ' + (m.group(1) if m else '?')
    if 'Invalid read' in err or 'Invalid write' in err or 'Invalid free' in err:
        m = re.search(r'(Invalid (?:read|write|free)[^\n]*)', err)
        return True, 'valgrind under the forced schedule: ' + (m.group(1) if m else '?')
    if 'ThreadSanitizer: data race' in err:
        m = re.search(r'WARNING: ThreadSanitizer: data race[^\n]*\n\s*([^\n]*)', err)
        return True, 'ThreadSanitizer under the forced schedule: data race (%s)' % (m.group(1).strip()[:160] if m else '?')
    if rc == 43 or 'AddressSanitizer' in err:
        m = re.search(r'ERROR: AddressSanitizer: ([^\n]*)', err)
        return True, 'AddressSanitizer under the forced schedule: ' + (m.group(1)[:160] if m else '?')
    if rc in (-6, 134):
        m = re.search(r'Assertion `([^\n]*)', err)
        return True, 'native build aborts under the forced schedule: ' + (m.group(0)[:200] if m else err[-200:])
    if rc in (-11, 139) and not tsan: return True, 'native build crashes (SIGSEGV) under the forced schedule'
    if rc == 45: return True, 'native threads hang under the forced schedule: ' + err.strip()[-160:]
    if rc == -9: return True, 'native run hangs (killed)'
    if rc == 3: return False, 'schedule could not be followed: ' + err.strip()[-200:]
    return False, 'native run under the forced schedule finished with exit code %d %s' % (rc, err.strip()[-200:])


def same_kind(assertion, rc, err):
    """does the native failure have the kind the model's violation has? (an unrelated abort or crash does not confirm a counterexample)"""
    if assertion.startswith('libassert'):
        # 'libassert file:line: "text"': the same assert() of the library must fire
        m = re.search(r'libassert ([^:]+):(\d+)', assertion)
        return rc in (-6, 134) and bool(m) and ('%s:%s' % (m.group(1), m.group(2))) in err
    if assertion.startswith('memory:') or assertion.startswith('lifetime'):
        return any(x in err for x in ('Invalid read', 'Invalid write', 'Invalid free', 'AddressSanitizer', 'uninitialised value', 'Conditional jump')) or rc in (-11, 139)
    if assertion.startswith('deadlock'):
        return rc in (45, -9)
    if assertion.startswith('race') or 'data race' in assertion:
        return 'ThreadSanitizer: data race' in err
    if assertion.startswith('rt: std::terminate'):
        return rc in (-6, 134)
    # a harness assertion: the same vf_assert must fail
    return rc == 42 and assertion[:60] in err

