#!/usr/bin/env python3
"""Replay of an E2 counterexample on the real code: instrument the scenario's LLVM IR with a scheduling point in front of
every memory instruction, compile it natively (clang -O1 on the already optimised IR; no re-optimisation, so that instruction
counts stay those the interpreter saw), link with rt/e2_native.c and force the solver's schedule with real pthreads."""
import os, re, subprocess, sys
VERIF = os.path.dirname(os.path.dirname(os.path.abspath(__file__)))
MEM_RE = re.compile(r'^\s+(?:%[-\w.$"]+ = )?(?:load|store|atomicrmw|cmpxchg|fence)\b')


def instrument(ll_in, ll_out):
    out = []
    infn = False
    n = 0
    for line in open(ll_in):
        if line.startswith('define '): infn = True
        elif line.startswith('}'): infn = False
        if infn and MEM_RE.match(line):
            out.append('  call void @vf_sched_point()\n'); n += 1
        out.append(line)
    out.append('\ndeclare void @vf_sched_point()\n')
    open(ll_out, 'w').writelines(out)
    return n


def build(ll, workdir, sanitize=True):
    ins = os.path.join(workdir, os.path.basename(ll)[:-3] + '.ins.ll')
    instrument(ll, ins)
    exe = ins[:-3] + ('.san' if sanitize else '') + '.exe'
    flags = ['-O0', '-g0', '-pthread', '-Wno-override-module']
    if sanitize: flags += ['-fsanitize=address', '-fno-omit-frame-pointer']
    cmd = ['clang-14'] + flags + ['-x', 'ir', ins, '-x', 'c', os.path.join(VERIF, 'rt', 'e2_native.c'), '-lstdc++', '-lm', '-o', exe]
    p = subprocess.run(cmd, stdout=subprocess.PIPE, stderr=subprocess.PIPE)
    if p.returncode != 0:
        raise Exception('native build of instrumented IR failed: ' + p.stderr.decode()[-2000:])
    return exe


def run(exe, schedule, nondet, workdir, timeout=60, valgrind=False):
    sf = os.path.join(workdir, 'schedule.txt')
    with open(sf, 'w') as f:
        for (tid, v) in nondet: f.write('n %d %d\n' % (tid, v))
        for (tid, o) in schedule: f.write('s %d %d\n' % (tid, o))
    env = dict(os.environ); env['VF_SCHEDULE'] = sf
    env['ASAN_OPTIONS'] = 'detect_leaks=0:exitcode=43:detect_stack_use_after_return=1'
    try:
        cmd = ['valgrind', '-q', '--error-exitcode=43', '--fair-sched=yes', exe] if valgrind else [exe]
        p = subprocess.run(cmd, stdout=subprocess.PIPE, stderr=subprocess.PIPE, env=env, timeout=timeout)
        return p.returncode, p.stderr.decode('utf8', 'replace')
    except subprocess.TimeoutExpired:
        return -9, 'TIMEOUT'


def classify(rc, err):
    if rc == 42:
        m = re.search(r'VF_ASSERT_FAILED: (.*)', err)
        return True, 'native threads under the forced schedule fail: ' + (m.group(1) if m else '?')
    if 'Invalid read' in err or 'Invalid write' in err or 'Invalid free' in err:
        m = re.search(r'(Invalid (?:read|write|free)[^\n]*)', err)
        return True, 'valgrind under the forced schedule: ' + (m.group(1) if m else '?')
    if rc == 43 or 'AddressSanitizer' in err:
        m = re.search(r'ERROR: AddressSanitizer: ([^\n]*)', err)
        return True, 'AddressSanitizer under the forced schedule: ' + (m.group(1)[:160] if m else '?')
    if rc in (-6, 134):
        m = re.search(r'Assertion `([^\n]*)', err)
        return True, 'native build aborts under the forced schedule: ' + (m.group(0)[:200] if m else err[-200:])
    if rc in (-11, 139): return True, 'native build crashes (SIGSEGV) under the forced schedule'
    if rc == 45: return True, 'native threads hang under the forced schedule: ' + err.strip()[-160:]
    if rc == -9: return True, 'native run hangs (killed)'
    if rc == 3: return False, 'schedule could not be followed: ' + err.strip()[-200:]
    return False, 'native run under the forced schedule finished with exit code %d %s' % (rc, err.strip()[-200:])
