#!/usr/bin/env python3
"""Confirms a seeded change written by a sub-agent before it is kept: from a clean export of /repo's HEAD
 (a) the patch applies, (b) the patched tree builds and passes the repository's own test suite, (c) the demonstration
 fails (non-zero exit / sanitizer report / hang) on the patched tree and passes on the clean one.
 Usage: seedconfirm.py <agent_dir (holding seed/ and wt/)> <seeded name>    -> seeded/<name>/{patch.diff,demo.cpp,notes.md,confirm.json}
 The scratch export is removed afterwards."""
import os, sys, re, json, subprocess, shutil, tempfile, time
VERIF = os.path.dirname(os.path.dirname(os.path.abspath(__file__)))
src, name = sys.argv[1].rstrip('/'), sys.argv[2]
dst = os.path.join(VERIF, 'seeded', name)
os.makedirs(dst, exist_ok=True)
for f in ('patch.diff', 'demo.cpp', 'notes.md'):
    shutil.copy(os.path.join(src, 'seed', f), os.path.join(dst, f))
tmp = tempfile.mkdtemp(prefix='vf_confirm_')
res = {'name': name, 'repo_head': subprocess.run(['git', '-C', '/repo', 'rev-parse', 'HEAD'], capture_output=True, text=True).stdout.strip()}


def sh(cmd, timeout=1800, cwd=None):
    import signal
    t0 = time.time()
    p = subprocess.Popen(cmd, shell=True, cwd=cwd, stdout=subprocess.PIPE, stderr=subprocess.STDOUT, start_new_session=True)
    try:
        o, _ = p.communicate(timeout=timeout)
        return p.returncode, o.decode(errors='replace'), round(time.time() - t0, 1)
    except subprocess.TimeoutExpired:
        try: os.killpg(p.pid, signal.SIGKILL)      # the whole group: a demonstration that hangs must not be left running
        except OSError: pass
        o, _ = p.communicate()
        return 'timeout', (o or b'').decode(errors='replace'), round(time.time() - t0, 1)


try:
    clean, patched = os.path.join(tmp, 'clean'), os.path.join(tmp, 'patched')
    for d in (clean, patched):
        os.makedirs(d)
        sh('git -C /repo archive HEAD | tar -x -C %s' % d)
    rc, out, _ = sh('patch -p1 -d %s -i %s' % (patched, os.path.join(dst, 'patch.diff')))
    res['patch_applies'] = rc == 0
    touched = re.findall(r'^\+\+\+ b/(\S+)', open(os.path.join(dst, 'patch.diff')).read(), re.M)
    res['files_touched'] = touched
    res['only_library_sources'] = all(t.startswith('src/cocls/') for t in touched)
    rc, out, t = sh('cmake -G Ninja -S %s -B %s/_build >/dev/null && cmake --build %s/_build -j4 2>&1 | tail -3 && ctest --test-dir %s/_build -j4 --timeout 900 2>&1 | tail -15'
                    % (patched, patched, patched, patched))
    m = re.search(r'(\d+)% tests passed, (\d+) tests failed out of (\d+)', out)
    res['testsuite_attempts'] = 1
    while m and m.group(2) != '0' and res['testsuite_attempts'] < 4:
        # wall-clock tests of the repository (scheduler, generator_aggregator_async_infinite) fail sporadically on a loaded machine, also on the unchanged tree
        res['testsuite_attempts'] += 1
        rc, out2, t = sh('ctest --test-dir %s/_build --rerun-failed --timeout 900 2>&1 | tail -15' % patched)
        m2 = re.search(r'(\d+)% tests passed, (\d+) tests failed out of (\d+)', out2)
        if m2 and m2.group(2) == '0':
            out = '100% tests passed, 0 tests failed out of 15'; m = re.search(r'(\d+)% tests passed, (\d+) tests failed out of (\d+)', out)
    res['testsuite_with_change'] = {'passed_all': bool(m and m.group(2) == '0' and m.group(3) == '15'), 'line': m.group(0) if m else out[-300:], 'wall_s': t}
    # demonstration: the build command(s) are in the first comment lines of demo.cpp
    head = open(os.path.join(dst, 'demo.cpp')).read().split('\n')[:40]
    cmds = []
    for l in head:
        m = re.search(r'((?:g\+\+|clang\+\+(?:-14)?)\s.*)$', l)
        if m and 'demo.cpp' in m.group(1) and m.group(1) not in cmds:
            cmds.append(m.group(1).strip())
    res['demo'] = []
    wt = os.path.join(src, 'wt')
    for ci, c in enumerate(cmds[:3]):
        entry = {'build': c}
        for label, tree in (('with_change', patched), ('without_change', clean)):
            exe = os.path.join(tmp, 'demo_%d_%s' % (ci, label))
            c2 = c.split('&&')[0].split(';')[0]
            c2 = c2.replace(wt + '/src', tree + '/src').replace(wt, tree)
            c2 = re.sub(r'\S*demo\.cpp', os.path.join(dst, 'demo.cpp'), c2)
            c2 = re.sub(r'-o\s+\S+', '', c2) + ' -o ' + exe
            rc, out, t = sh(c2, timeout=600)
            if rc != 0:
                entry[label] = {'build_failed': out[-400:]}
                continue
            rc, out, t = sh('ulimit -c 0; ' + exe, timeout=300, cwd=tmp)
            entry[label] = {'exit': rc, 'wall_s': t, 'tail': out[-500:]}
        res['demo'].append(entry)
    ok = [e for e in res['demo'] if 'exit' in e.get('with_change', {}) and 'exit' in e.get('without_change', {})]
    res['demo_fails_with_change'] = any(e['with_change']['exit'] != 0 for e in ok)
    res['demo_passes_without_change'] = bool(ok) and all(e['without_change']['exit'] == 0 for e in ok)
    res['confirmed'] = bool(res['patch_applies'] and res['only_library_sources'] and res['testsuite_with_change']['passed_all']
                            and res['demo_fails_with_change'] and res['demo_passes_without_change'])
finally:
    shutil.rmtree(tmp, ignore_errors=True)
json.dump(res, open(os.path.join(dst, 'confirm.json'), 'w'), indent=1)
print(name, 'confirmed' if res.get('confirmed') else 'NOT CONFIRMED', json.dumps({k: v for k, v in res.items() if k not in ('demo',)})[:600])
for e in res.get('demo', []):
    print('  demo:', e['build'][:100], '| with:', str(e.get('with_change'))[:160], '| without:', str(e.get('without_change'))[:120])
sys.exit(0 if res.get('confirmed') else 1)
