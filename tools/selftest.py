#!/usr/bin/env python3
"""setup-time self test: the tools import, the IR parser/translator work on a tiny TU, the solvers answer."""
import os, sys, subprocess, tempfile, shutil
VERIF = os.path.dirname(os.path.dirname(os.path.abspath(__file__)))
sys.path.insert(0, os.path.join(VERIF, 'tools'))
import irparse, ir2c, e1
d = tempfile.mkdtemp(prefix='vf_selftest_')
try:
    src = os.path.join(d, 't.cpp')
    open(src, 'w').write('#include "vf.h"\nextern "C" void h_t() { int x = nondet_int(); VF_ASSUME(x > 0 && x < 10); VF_ASSERT(x * 2 < 20, "selftest"); vf_witness(); }\n')
    tu = e1.TU('SELF', src, d)
    tu.build()
    r = tu.query('h_t', [], 2, timeout=60)
    wit, viol, unw, spec = e1.classify(r)
    assert r['status'] == 'done' and wit and not viol, r
    print('selftest ok: E1 pipeline (clang -> ir2c -> cbmc) works')
finally:
    shutil.rmtree(d, ignore_errors=True)
