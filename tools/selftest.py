#!/usr/bin/env python3
"""setup-time self test: the tools import, the IR parser/translator work on a tiny TU, the solvers answer."""
import os, sys, subprocess, tempfile, shutil
VERIF = os.path.dirname(os.path.dirname(os.path.abspath(__file__)))
sys.path.insert(0, os.path.join(VERIF, 'tools'))
import irparse, ir2c, e1
d = tempfile.mkdtemp(prefix='vf_selftest_')
try:
    src = os.path.join(d, 't.cpp')
    open(src, 'w').write('#include "vf.h"\nextern "C" void h_t() { int x = nondet_int(); VF_ASSUME(x > 0 && x < 10); VF_ASSERT(x * 2 < 20, "selftest"); vf_witness(); }\n')
    tu = e1.TU('SELF', src, d)
    tu.build()
    r = tu.query('h_t', [], 2, timeout=60)
    wit, viol, unw, spec = e1.classify(r)
    assert r['status'] == 'done' and wit and not viol, r
    print('selftest ok: E1 pipeline (clang -> ir2c -> cbmc) works')
finally:
    shutil.rmtree(d, ignore_errors=True)

# E2: litmus scenarios with known answers (races, deadlock, assertion)
try:
    import z3  # noqa
    import e2
    exp = {1: (0, 0, 0), 2: (1, 0, 0), 3: (0, 0, 0), 4: (0, 0, 0), 5: (0, 0, 0), 6: (0, 0, 0), 7: (1, 0, 0), 8: (0, 1, 0)}
    d = tempfile.mkdtemp(prefix='vf_litmus_')
    try:
        for lit in sorted(exp):
            n = 3 if lit == 4 else 2
            ll = e2.compile_scenario(os.path.join(VERIF, 'harness', 'litmus.cpp'), d, ['LIT=%d' % lit])
            r = e2.analyse(ll, n, {'loop_bound': 3}, mode='hb'); r.pop('M')
            races = sum(1 for v in r['violations'] if v.get('race'))
            dl = sum(1 for v in r['violations'] if v['assertion'].startswith('deadlock'))
            asr = len(r['violations']) - races - dl
            assert (races, dl, asr) == exp[lit], 'litmus %d: got races=%d deadlock=%d assert=%d, expected %s' % (lit, races, dl, asr, exp[lit])
        print('selftest ok: E2 litmus suite (8 scenarios: MP rel/acq, relaxed, fences, release sequence, SB, CAS lock, lost wake-up)')
    finally:
        shutil.rmtree(d, ignore_errors=True)
except ImportError:
    print('selftest: z3 python module not available in this interpreter - run with python3-vt')
    sys.exit(1)
