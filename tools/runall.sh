#!/bin/bash
# Runs every registered quick (or thorough) check once, sequentially, against /repo; logs to build/runall_<tier>.log
tier=${1:-quick}
cd "$(dirname "$0")/.."
mkdir -p build
log=build/runall_$tier.log
: > $log
for id in $(python3 -c "import json; print(' '.join(c['property_id'] for c in json.load(open('MANIFEST.json'))['checks']))"); do
  s=$(date +%s)
  python3-vt tools/check.py $id --tier $tier > build/runall_${tier}_$id.out 2> build/runall_${tier}_$id.err
  rc=$?
  e=$(date +%s)
  echo "$id rc=$rc $((e-s))s $(tail -1 build/runall_${tier}_$id.out)" >> $log
done
echo DONE >> $log
