#!/usr/bin/env python3
"""Parser for the LLVM-14 textual IR subset clang++ -O1 emits for cocls (typed pointers).

Produces a Module with named struct types, globals, declarations and function bodies.
No dependency outside the standard library.
"""
import re, sys
from dataclasses import dataclass, field
from typing import List, Optional, Dict, Tuple, Any

# ---------------------------------------------------------------- tokens
TOK_RE = re.compile(r'''
    (?P<ws>[ \t\r\n]+)
  | (?P<comment>;[^\n]*)
  | (?P<cstr>c"(?:[^"\\]|\\[0-9A-Fa-f]{2}|\\\\)*")
  | (?P<str>"(?:[^"\\]|\\[0-9A-Fa-f]{2}|\\\\)*")
  | (?P<local>%(?:"(?:[^"\\]|\\.)*"|[-a-zA-Z$._0-9]+))
  | (?P<glob>@(?:"(?:[^"\\]|\\.)*"|[-a-zA-Z$._0-9]+))
  | (?P<comdat>\$(?:"(?:[^"\\]|\\.)*"|[-a-zA-Z$._0-9]+))
  | (?P<meta>![-a-zA-Z$._0-9]*)
  | (?P<attr>\#[0-9]+)
  | (?P<hex>0x[0-9A-Fa-f]+|u0x[0-9A-Fa-f]+|s0x[0-9A-Fa-f]+)
  | (?P<num>-?[0-9]+(?:\.[0-9]+(?:[eE][-+]?[0-9]+)?)?)
  | (?P<dots>\.\.\.)
  | (?P<word>[a-zA-Z_][a-zA-Z0-9_.]*)
  | (?P<punct>[(){}\[\]<>,=*:|])
''', re.X)


def unq(name):
    """strip sigil and quotes: %"a b" -> a b"""
    n = name[1:]
    if n.startswith('"'):
        n = n[1:-1]
        n = re.sub(r'\\([0-9A-Fa-f]{2})', lambda m: chr(int(m.group(1), 16)), n)
    return n


class Tok:
    __slots__ = ('k', 'v', 'pos')

    def __init__(s, k, v, pos):
        s.k = k; s.v = v; s.pos = pos

    def __repr__(s):
        return f'{s.k}:{s.v}'


def tokenize(text):
    out = []
    pos = 0
    n = len(text)
    m = TOK_RE.match
    while pos < n:
        mo = m(text, pos)
        if not mo:
            raise SyntaxError(f'bad token at {pos}: {text[pos:pos+60]!r}')
        k = mo.lastgroup
        if k not in ('ws', 'comment'):
            out.append(Tok(k, mo.group(), pos))
        pos = mo.end()
    out.append(Tok('eof', '', pos))
    return out


# ---------------------------------------------------------------- types
class Type:
    pass


@dataclass(frozen=True)
class IntT(Type):
    bits: int
    def __str__(s): return f'i{s.bits}'


@dataclass(frozen=True)
class VoidT(Type):
    def __str__(s): return 'void'


@dataclass(frozen=True)
class FloatT(Type):
    name: str
    def __str__(s): return s.name


@dataclass(frozen=True)
class LabelT(Type):
    def __str__(s): return 'label'


@dataclass(frozen=True)
class MetaT(Type):
    def __str__(s): return 'metadata'


@dataclass(frozen=True)
class PtrT(Type):
    to: Type
    def __str__(s): return f'{s.to}*'


@dataclass(frozen=True)
class ArrT(Type):
    n: int
    el: Type
    def __str__(s): return f'[{s.n} x {s.el}]'


@dataclass(frozen=True)
class StructT(Type):      # literal struct
    els: Tuple[Type, ...]
    packed: bool = False
    def __str__(s): return ('<{' if s.packed else '{') + ', '.join(map(str, s.els)) + ('}>' if s.packed else '}')


@dataclass(frozen=True)
class NamedT(Type):       # %name reference; body in Module.types
    name: str
    def __str__(s): return f'%"{s.name}"'


@dataclass(frozen=True)
class FuncT(Type):
    ret: Type
    params: Tuple[Type, ...]
    vararg: bool = False
    def __str__(s): return f'{s.ret} (' + ', '.join(map(str, s.params)) + (', ...' if s.vararg else '') + ')'


VOID = VoidT()
I1 = IntT(1); I8 = IntT(8); I32 = IntT(32); I64 = IntT(64)

# ---------------------------------------------------------------- values
@dataclass
class Val:
    ty: Type


@dataclass
class Local(Val):
    name: str


@dataclass
class Global(Val):
    name: str


@dataclass
class ConstInt(Val):
    v: int


@dataclass
class ConstNull(Val):
    pass


@dataclass
class ConstUndef(Val):
    pass


@dataclass
class ConstZero(Val):
    pass


@dataclass
class ConstStr(Val):
    data: bytes


@dataclass
class ConstAgg(Val):       # struct or array
    els: List[Val]


@dataclass
class ConstExpr(Val):
    op: str
    args: List[Any]
    extra: Any = None      # e.g. GEP source type / inbounds / icmp pred


@dataclass
class MetaVal(Val):
    text: str


# ---------------------------------------------------------------- IR containers
@dataclass
class Instr:
    op: str
    res: Optional[str] = None       # result local name (without %)
    ty: Optional[Type] = None       # result type
    args: List[Any] = field(default_factory=list)
    extra: Dict[str, Any] = field(default_factory=dict)


@dataclass
class Block:
    name: str
    instrs: List[Instr] = field(default_factory=list)


@dataclass
class Param:
    ty: Type
    name: Optional[str]
    attrs: Dict[str, Any]


@dataclass
class Function:
    name: str
    ret: Type
    params: List[Param]
    vararg: bool
    blocks: List[Block]
    attrs: List[str]
    linkage: str = ''
    cc: str = ''
    is_decl: bool = False
    personality: bool = False

    @property
    def fty(s):
        return FuncT(s.ret, tuple(p.ty for p in s.params), s.vararg)


@dataclass
class GlobalVar:
    name: str
    ty: Type
    init: Optional[Val]
    const: bool
    thread_local: bool
    external: bool
    align: int = 0
    linkage: str = ''


@dataclass
class Module:
    types: Dict[str, Optional[StructT]] = field(default_factory=dict)   # None = opaque
    globals: Dict[str, GlobalVar] = field(default_factory=dict)
    funcs: Dict[str, Function] = field(default_factory=dict)
    attr_groups: Dict[str, str] = field(default_factory=dict)
    aliases: Dict[str, Val] = field(default_factory=dict)


LINKAGE = {'private', 'internal', 'available_externally', 'linkonce', 'weak', 'common', 'appending',
           'extern_weak', 'linkonce_odr', 'weak_odr', 'external'}
VISIBILITY = {'default', 'hidden', 'protected'}
PREEMPT = {'dso_local', 'dso_preemptable'}
CCONV = {'ccc', 'fastcc', 'coldcc', 'tailcc', 'swiftcc', 'webkit_jscc', 'anyregcc', 'preserve_mostcc',
         'preserve_allcc', 'cxx_fast_tlscc', 'x86_stdcallcc', 'x86_fastcallcc', 'x86_thiscallcc'}
PARAM_ATTRS_SIMPLE = {'zeroext', 'signext', 'inreg', 'noalias', 'nocapture', 'nofree', 'nest', 'returned',
                      'nonnull', 'noundef', 'readonly', 'readnone', 'writeonly', 'immarg', 'swiftself',
                      'swifterror', 'swiftasync', 'nocallback'}
PARAM_ATTRS_ARG = {'align', 'dereferenceable', 'dereferenceable_or_null'}
PARAM_ATTRS_TY = {'sret', 'byval', 'byref', 'inalloca', 'preallocated', 'elementtype'}
FAST_MATH = {'nnan', 'ninf', 'nsz', 'arcp', 'contract', 'afn', 'reassoc', 'fast'}
ORDERINGS = {'unordered', 'monotonic', 'acquire', 'release', 'acq_rel', 'seq_cst'}
BINOPS = {'add', 'sub', 'mul', 'udiv', 'sdiv', 'urem', 'srem', 'shl', 'lshr', 'ashr', 'and', 'or', 'xor',
          'fadd', 'fsub', 'fmul', 'fdiv', 'frem'}
CASTOPS = {'trunc', 'zext', 'sext', 'fptrunc', 'fpext', 'fptoui', 'fptosi', 'uitofp', 'sitofp',
           'ptrtoint', 'inttoptr', 'bitcast', 'addrspacecast'}


class Parser:
    def __init__(s, text):
        s.toks = tokenize(text)
        s.i = 0
        s.mod = Module()

    # -- token helpers
    @property
    def t(s):
        return s.toks[s.i]

    def peek(s, k=1):
        return s.toks[s.i + k]

    def next(s):
        t = s.toks[s.i]; s.i += 1; return t

    def at(s, v):
        return s.t.v == v and s.t.k in ('word', 'punct', 'dots')

    def accept(s, v):
        if s.at(v):
            s.i += 1; return True
        return False

    def expect(s, v):
        if not s.accept(v):
            raise SyntaxError(f'expected {v!r} got {s.t!r} near token {s.i}: ' +
                              ' '.join(t.v for t in s.toks[max(0, s.i-12):s.i+6]))

    def err(s, msg):
        raise SyntaxError(msg + ' near: ' + ' '.join(t.v for t in s.toks[max(0, s.i-12):s.i+8]))

    # -- types
    def parse_type(s):
        t = s.t
        if t.k == 'word':
            w = t.v
            if w == 'void': s.i += 1; base = VOID
            elif re.fullmatch(r'i[0-9]+', w): s.i += 1; base = IntT(int(w[1:]))
            elif w in ('float', 'double', 'half', 'x86_fp80', 'fp128'): s.i += 1; base = FloatT(w)
            elif w == 'label': s.i += 1; base = LabelT()
            elif w == 'metadata': s.i += 1; base = MetaT()
            elif w == 'opaque': s.i += 1; base = None
            elif w == 'ptr': s.i += 1; base = PtrT(I8)
            else: s.err(f'type? {w}')
        elif t.k == 'local':
            s.i += 1; base = NamedT(unq(t.v))
        elif t.k == 'punct' and t.v == '{':
            base = s.parse_struct_body(False)
        elif t.k == 'punct' and t.v == '<':
            if s.peek().v == '{':
                s.i += 1
                base = s.parse_struct_body(True)
                s.expect('>')
            else:
                s.err('vector types unsupported')
        elif t.k == 'punct' and t.v == '[':
            s.i += 1
            n = int(s.next().v)
            s.expect('x')
            el = s.parse_type()
            s.expect(']')
            base = ArrT(n, el)
        else:
            s.err(f'type? {t!r}')
        # suffixes
        while True:
            if s.at('*'):
                s.i += 1; base = PtrT(base)
            elif s.at('(') :
                # function type
                s.i += 1
                ps = []; va = False
                while not s.at(')'):
                    if s.at('...'):
                        s.i += 1; va = True
                    else:
                        ps.append(s.parse_type())
                        s.skip_param_attrs()
                    if not s.accept(','): break
                s.expect(')')
                base = FuncT(base, tuple(ps), va)
            else:
                break
        return base

    def parse_struct_body(s, packed):
        s.expect('{')
        els = []
        while not s.at('}'):
            els.append(s.parse_type())
            if not s.accept(','): break
        s.expect('}')
        return StructT(tuple(els), packed)

    def skip_param_attrs(s):
        attrs = {}
        while True:
            t = s.t
            if t.k == 'word' and t.v in PARAM_ATTRS_SIMPLE:
                attrs[t.v] = True; s.i += 1
            elif t.k == 'word' and t.v in PARAM_ATTRS_ARG:
                s.i += 1
                if s.accept('('):
                    attrs[t.v] = int(s.next().v); s.expect(')')
                else:
                    attrs[t.v] = int(s.next().v)
            elif t.k == 'word' and t.v in PARAM_ATTRS_TY:
                s.i += 1
                if s.accept('('):
                    attrs[t.v] = s.parse_type(); s.expect(')')
                else:
                    attrs[t.v] = True
            else:
                break
        return attrs

    # -- values
    def parse_value(s, ty):
        t = s.t
        if t.k == 'local':
            s.i += 1; return Local(ty, unq(t.v))
        if t.k == 'glob':
            s.i += 1; return Global(ty, unq(t.v))
        if t.k == 'num':
            s.i += 1
            return ConstInt(ty, int(t.v)) if isinstance(ty, IntT) else ConstInt(ty, t.v)
        if t.k == 'hex':
            s.i += 1; return ConstInt(ty, int(t.v.lstrip('us'), 16))
        if t.k == 'cstr':
            s.i += 1
            raw = t.v[2:-1]
            b = bytearray(); j = 0
            while j < len(raw):
                c = raw[j]
                if c == '\\':
                    if raw[j+1] == '\\': b.append(92); j += 2
                    else: b.append(int(raw[j+1:j+3], 16)); j += 3
                else:
                    b.append(ord(c)); j += 1
            return ConstStr(ty, bytes(b))
        if t.k == 'meta':
            # metadata operand (e.g. in llvm.dbg / noalias decl): !N or !{...}
            s.i += 1
            if s.at('{'):
                depth = 0
                while True:
                    if s.at('{'): depth += 1
                    if s.at('}'):
                        depth -= 1
                        if depth == 0: s.i += 1; break
                    s.i += 1
            return MetaVal(ty, t.v)
        if t.k == 'word':
            w = t.v
            if w == 'true': s.i += 1; return ConstInt(ty, 1)
            if w == 'false': s.i += 1; return ConstInt(ty, 0)
            if w == 'null': s.i += 1; return ConstNull(ty)
            if w in ('undef', 'poison'): s.i += 1; return ConstUndef(ty)
            if w == 'zeroinitializer': s.i += 1; return ConstZero(ty)
            if w == 'none': s.i += 1; return ConstNull(ty)
            if w in CASTOPS:
                s.i += 1; s.expect('(')
                sty = s.parse_type(); v = s.parse_value(sty)
                s.expect('to'); dty = s.parse_type(); s.expect(')')
                return ConstExpr(dty, w, [v])
            if w == 'getelementptr':
                s.i += 1
                inb = s.accept('inbounds')
                s.expect('(')
                srcty = s.parse_type(); s.expect(',')
                pty = s.parse_type(); base = s.parse_value(pty)
                idx = []
                while s.accept(','):
                    s.accept('inrange')
                    ity = s.parse_type(); idx.append(s.parse_value(ity))
                s.expect(')')
                return ConstExpr(ty, 'getelementptr', [base] + idx, srcty)
            if w in BINOPS:
                s.i += 1
                while s.t.v in ('nuw', 'nsw', 'exact'): s.i += 1
                s.expect('(')
                t1 = s.parse_type(); a = s.parse_value(t1); s.expect(',')
                t2 = s.parse_type(); b = s.parse_value(t2); s.expect(')')
                return ConstExpr(ty, w, [a, b])
            if w == 'icmp':
                s.i += 1; pred = s.next().v; s.expect('(')
                t1 = s.parse_type(); a = s.parse_value(t1); s.expect(',')
                t2 = s.parse_type(); b = s.parse_value(t2); s.expect(')')
                return ConstExpr(ty, 'icmp', [a, b], pred)
            if w == 'select':
                s.i += 1; s.expect('(')
                t0 = s.parse_type(); c = s.parse_value(t0); s.expect(',')
                t1 = s.parse_type(); a = s.parse_value(t1); s.expect(',')
                t2 = s.parse_type(); b = s.parse_value(t2); s.expect(')')
                return ConstExpr(ty, 'select', [c, a, b])
            s.err(f'value? {w}')
        if t.k == 'punct':
            if t.v == '{':
                s.i += 1; els = []
                while not s.at('}'):
                    ety = s.parse_type(); els.append(s.parse_value(ety))
                    if not s.accept(','): break
                s.expect('}')
                return ConstAgg(ty, els)
            if t.v == '[':
                s.i += 1; els = []
                while not s.at(']'):
                    ety = s.parse_type(); els.append(s.parse_value(ety))
                    if not s.accept(','): break
                s.expect(']')
                return ConstAgg(ty, els)
            if t.v == '<':
                s.i += 1
                v = s.parse_value(ty)
                s.expect('>')
                return v
        s.err(f'value? {t!r}')

    def parse_tv(s):
        ty = s.parse_type()
        s.skip_param_attrs()
        return s.parse_value(ty)

    # -- module level
    def parse_module(s):
        while s.t.k != 'eof':
            t = s.t
            if t.k == 'word' and t.v in ('source_filename',):
                s.i += 3
            elif t.k == 'word' and t.v == 'target':
                s.i += 4
            elif t.k == 'local' and s.peek().v == '=' and s.peek(2).v == 'type':
                name = unq(t.v); s.i += 3
                if s.at('opaque'):
                    s.i += 1; s.mod.types[name] = None
                else:
                    ty = s.parse_type()
                    s.mod.types[name] = ty
            elif t.k == 'comdat':
                # $name = comdat any
                s.i += 4
            elif t.k == 'glob':
                s.parse_global()
            elif t.k == 'word' and t.v == 'define':
                s.parse_function(False)
            elif t.k == 'word' and t.v == 'declare':
                s.parse_function(True)
            elif t.k == 'word' and t.v == 'attributes':
                s.i += 1
                gid = s.next().v; s.expect('='); s.expect('{')
                start = s.i
                while not s.at('}'): s.i += 1
                s.mod.attr_groups[gid] = ' '.join(x.v for x in s.toks[start:s.i])
                s.i += 1
            elif t.k == 'meta':
                # !N = ... ; skip to next top-level item (metadata never spans braces unbalanced)
                s.i += 1
                s.expect('=')
                s.skip_metadata_def()
            else:
                s.err(f'top-level? {t!r}')
        return s.mod

    def skip_metadata_def(s):
        # forms: !{...} | distinct !{...} | !DIxxx(...)
        s.accept('distinct')
        t = s.next()
        if s.at('{'):
            depth = 0
            while True:
                if s.at('{'): depth += 1
                elif s.at('}'):
                    depth -= 1
                    if depth == 0: s.i += 1; return
                s.i += 1
        elif s.at('('):
            depth = 0
            while True:
                if s.at('('): depth += 1
                elif s.at(')'):
                    depth -= 1
                    if depth == 0: s.i += 1; return
                s.i += 1

    def parse_global(s):
        name = unq(s.next().v); s.expect('=')
        linkage = ''; tl = False; external = False
        while True:
            w = s.t.v
            if s.t.k != 'word': break
            if w in LINKAGE:
                linkage = w; external = external or w in ('external', 'extern_weak'); s.i += 1
            elif w in VISIBILITY or w in PREEMPT or w in ('unnamed_addr', 'local_unnamed_addr', 'externally_initialized'):
                s.i += 1
            elif w == 'thread_local':
                tl = True; s.i += 1
                if s.accept('('):
                    s.i += 1; s.expect(')')
            elif w == 'addrspace':
                s.i += 4
            else:
                break
        if s.at('alias') or s.at('ifunc'):
            s.i += 1
            ty = s.parse_type(); s.expect(',')
            v = s.parse_tv()
            s.mod.aliases[name] = v
            return
        const = False
        if s.accept('global'): const = False
        elif s.accept('constant'): const = True
        else: s.err('global/constant expected')
        ty = s.parse_type()
        init = None
        if not external:
            init = s.parse_value(ty)
        align = 0
        while s.accept(','):
            if s.accept('align'): align = int(s.next().v)
            elif s.accept('comdat'):
                if s.accept('('):
                    s.i += 1; s.expect(')')
            elif s.accept('section'): s.i += 1
            elif s.t.k == 'meta':
                s.i += 2
            else: s.err('global suffix?')
        s.mod.globals[name] = GlobalVar(name, ty, init, const, tl, external, align, linkage)

    def parse_function(s, is_decl):
        s.i += 1  # define/declare
        while s.t.k == 'meta' and s.peek().k == 'meta':
            s.i += 2
        linkage = ''; cc = ''
        while s.t.k == 'word' and (s.t.v in LINKAGE or s.t.v in VISIBILITY or s.t.v in PREEMPT or s.t.v in CCONV
                                   or s.t.v in ('unnamed_addr', 'local_unnamed_addr')):
            if s.t.v in LINKAGE: linkage = s.t.v
            if s.t.v in CCONV: cc = s.t.v
            s.i += 1
        s.skip_param_attrs()
        ret = s.parse_type_noparams()
        name = unq(s.next().v)
        s.expect('(')
        params = []; va = False
        while not s.at(')'):
            if s.accept('...'):
                va = True
            else:
                pty = s.parse_type()
                attrs = s.skip_param_attrs()
                pname = None
                if s.t.k == 'local':
                    pname = unq(s.next().v)
                params.append(Param(pty, pname, attrs))
            if not s.accept(','): break
        s.expect(')')
        attrs = []
        personality = False
        while True:
            t = s.t
            if t.k == 'attr': attrs.append(t.v); s.i += 1
            elif t.k == 'word' and t.v in ('unnamed_addr', 'local_unnamed_addr'): s.i += 1
            elif t.k == 'word' and t.v == 'comdat':
                s.i += 1
                if s.accept('('): s.i += 1; s.expect(')')
            elif t.k == 'word' and t.v == 'align': s.i += 2
            elif t.k == 'word' and t.v == 'section': s.i += 2
            elif t.k == 'word' and t.v == 'personality':
                s.i += 1; s.parse_tv(); personality = True
            elif t.k == 'word' and t.v in ('nounwind', 'noreturn', 'readnone', 'readonly', 'mustprogress', 'noinline',
                                           'uwtable', 'willreturn', 'nofree', 'nosync', 'cold', 'optnone', 'norecurse',
                                           'argmemonly', 'inaccessiblememonly', 'speculatable', 'nocallback',
                                           'inaccessiblemem_or_argmemonly', 'alwaysinline', 'inlinehint', 'writeonly',
                                           'nobuiltin', 'allocsize', 'ssp', 'sspstrong', 'presplitcoroutine'):
                attrs.append(t.v); s.i += 1
                if s.at('('):
                    while not s.at(')'): s.i += 1
                    s.i += 1
            elif t.k == 'meta':
                s.i += 2
            else:
                break
        blocks = []
        if not is_decl:
            s.expect('{')
            blocks = s.parse_body(params)
            s.expect('}')
        f = Function(name, ret, params, va, blocks, attrs, linkage, cc, is_decl, personality)
        s.mod.funcs[name] = f

    def parse_type_noparams(s):
        """return type of a function header: a type not followed by '(' params (the '(' after @name)."""
        return s.parse_type()

    # -- function body
    def parse_body(s, params):
        blocks = []
        # implicit first block label = next unnamed number
        n_unnamed = sum(1 for p in params if p.name is None or p.name.isdigit())
        # unnamed params take %0..%k-1 ; entry block takes %k
        k = 0
        for p in params:
            if p.name is None:
                p.name = str(k); k += 1
            elif p.name.isdigit():
                k = int(p.name) + 1
        cur = None
        if not (s.t.k in ('word', 'num', 'str') and s.peek().v == ':'):
            cur = Block(str(k)); blocks.append(cur)
        while not s.at('}'):
            t = s.t
            if t.k in ('word', 'num', 'str') and s.peek().v == ':' :
                nm = t.v
                if t.k == 'str': nm = nm[1:-1]
                s.i += 2
                cur = Block(nm); blocks.append(cur)
                continue
            cur.instrs.append(s.parse_instr())
        return blocks

    def skip_instr_suffix(s):
        """, align N   , !meta !N   #attr"""
        ex = {}
        while True:
            if s.at(',') and s.peek().k == 'meta':
                s.i += 1; s.i += 1
                # metadata node: !N or !{..} or !DIExpression()
                if s.t.k == 'meta':
                    s.i += 1
                    if s.at('(') or s.at('{'):
                        o, c = ('(', ')') if s.at('(') else ('{', '}')
                        d = 0
                        while True:
                            if s.at(o): d += 1
                            elif s.at(c):
                                d -= 1
                                if d == 0: s.i += 1; break
                            s.i += 1
            elif s.at(',') and s.peek().v == 'align':
                s.i += 2; ex['align'] = int(s.next().v)
            elif s.t.k == 'attr':
                ex.setdefault('attrs', []).append(s.next().v)
            else:
                break
        return ex

    def parse_instr(s):
        res = None
        if s.t.k == 'local' and s.peek().v == '=':
            res = unq(s.next().v); s.i += 1
        t = s.next()
        op = t.v
        I = Instr(op, res)
        if op in BINOPS:
            flags = []
            while s.t.k == 'word' and s.t.v in ('nuw', 'nsw', 'exact') or s.t.v in FAST_MATH:
                flags.append(s.next().v)
            ty = s.parse_type(); a = s.parse_value(ty); s.expect(','); b = s.parse_value(ty)
            I.ty = ty; I.args = [a, b]; I.extra['flags'] = flags
        elif op in CASTOPS:
            sty = s.parse_type(); v = s.parse_value(sty); s.expect('to'); dty = s.parse_type()
            I.ty = dty; I.args = [v]
        elif op == 'icmp' or op == 'fcmp':
            pred = s.next().v
            ty = s.parse_type(); a = s.parse_value(ty); s.expect(','); b = s.parse_value(ty)
            I.ty = I1; I.args = [a, b]; I.extra['pred'] = pred
        elif op == 'alloca':
            s.accept('inalloca')
            ty = s.parse_type(); I.extra['alloc_ty'] = ty; I.ty = PtrT(ty)
            if s.at(',') and s.peek().k == 'word' and s.peek().v not in ('align', 'addrspace'):
                s.i += 1
                nty = s.parse_type(); I.args = [s.parse_value(nty)]
        elif op == 'load':
            at = s.accept('atomic'); vol = s.accept('volatile')
            ty = s.parse_type(); s.expect(','); pty = s.parse_type(); p = s.parse_value(pty)
            I.ty = ty; I.args = [p]
            if at:
                if s.t.k == 'word' and s.t.v == 'syncscope':
                    s.i += 4
                I.extra['ordering'] = s.next().v
        elif op == 'store':
            at = s.accept('atomic'); vol = s.accept('volatile')
            vty = s.parse_type(); v = s.parse_value(vty); s.expect(','); pty = s.parse_type(); p = s.parse_value(pty)
            I.args = [v, p]; I.ty = VOID
            if at:
                if s.t.k == 'word' and s.t.v == 'syncscope':
                    s.i += 4
                I.extra['ordering'] = s.next().v
        elif op == 'fence':
            if s.t.k == 'word' and s.t.v == 'syncscope':
                s.i += 4
            I.extra['ordering'] = s.next().v; I.ty = VOID
        elif op == 'cmpxchg':
            I.extra['weak'] = s.accept('weak'); s.accept('volatile')
            pty = s.parse_type(); p = s.parse_value(pty); s.expect(',')
            cty = s.parse_type(); c = s.parse_value(cty); s.expect(',')
            nty = s.parse_type(); n = s.parse_value(nty)
            if s.t.k == 'word' and s.t.v == 'syncscope':
                s.i += 4
            I.extra['ordering'] = s.next().v; I.extra['fail_ordering'] = s.next().v
            I.args = [p, c, n]; I.ty = StructT((cty, I1))
        elif op == 'atomicrmw':
            s.accept('volatile')
            I.extra['rmw'] = s.next().v
            pty = s.parse_type(); p = s.parse_value(pty); s.expect(',')
            vty = s.parse_type(); v = s.parse_value(vty)
            if s.t.k == 'word' and s.t.v == 'syncscope':
                s.i += 4
            I.extra['ordering'] = s.next().v
            I.args = [p, v]; I.ty = vty
        elif op == 'getelementptr':
            I.extra['inbounds'] = s.accept('inbounds')
            srcty = s.parse_type(); s.expect(',')
            pty = s.parse_type(); base = s.parse_value(pty)
            idx = []
            while s.at(',') and s.peek().k != 'meta':
                s.i += 1
                ity = s.parse_type(); idx.append(s.parse_value(ity))
            I.extra['src_ty'] = srcty; I.args = [base] + idx
            I.ty = None   # computed by consumer
        elif op == 'phi':
            ty = s.parse_type(); inc = []
            while True:
                s.expect('['); v = s.parse_value(ty); s.expect(','); lbl = unq(s.next().v); s.expect(']')
                inc.append((v, lbl))
                if not (s.at(',') and s.peek().v == '['): break
                s.i += 1
            I.ty = ty; I.extra['incoming'] = inc
        elif op == 'select':
            cty = s.parse_type(); c = s.parse_value(cty); s.expect(',')
            ty = s.parse_type(); a = s.parse_value(ty); s.expect(',')
            ty2 = s.parse_type(); b = s.parse_value(ty2)
            I.ty = ty; I.args = [c, a, b]
        elif op == 'br':
            if s.accept('label'):
                I.extra['targets'] = [unq(s.next().v)]
            else:
                cty = s.parse_type(); c = s.parse_value(cty); s.expect(',')
                s.expect('label'); t1 = unq(s.next().v); s.expect(','); s.expect('label'); t2 = unq(s.next().v)
                I.args = [c]; I.extra['targets'] = [t1, t2]
            I.ty = VOID
        elif op == 'switch':
            ty = s.parse_type(); v = s.parse_value(ty); s.expect(','); s.expect('label'); d = unq(s.next().v)
            s.expect('['); cases = []
            while not s.at(']'):
                cty = s.parse_type(); cv = s.parse_value(cty); s.expect(','); s.expect('label')
                cases.append((cv, unq(s.next().v)))
            s.expect(']')
            I.args = [v]; I.extra['default'] = d; I.extra['cases'] = cases; I.ty = VOID
        elif op == 'ret':
            ty = s.parse_type()
            I.ty = VOID
            if not isinstance(ty, VoidT):
                I.args = [s.parse_value(ty)]
        elif op == 'unreachable':
            I.ty = VOID
        elif op == 'resume':
            ty = s.parse_type(); I.args = [s.parse_value(ty)]; I.ty = VOID
        elif op in ('call', 'invoke') or (op in ('tail', 'musttail', 'notail') and s.t.v == 'call'):
            if op in ('tail', 'musttail', 'notail'):
                s.i += 1; op = 'call'; I.op = 'call'
            while s.t.k == 'word' and (s.t.v in FAST_MATH or s.t.v in CCONV):
                if s.t.v in CCONV: I.extra['cc'] = s.t.v
                s.i += 1
            s.skip_param_attrs()
            rty = s.parse_type()       # may be a full function type for varargs
            callee = s.parse_value(PtrT(I8))
            s.expect('(')
            args = []
            while not s.at(')'):
                aty = s.parse_type()
                pat = s.skip_param_attrs()
                v = s.parse_value(aty)
                args.append(v)
                if not s.accept(','): break
            s.expect(')')
            # function attributes / operand bundles
            while True:
                if s.t.k == 'attr': I.extra.setdefault('attrs', []).append(s.next().v)
                elif s.t.k == 'word' and s.t.v in ('nounwind', 'noreturn', 'readnone', 'readonly', 'willreturn', 'nobuiltin', 'builtin', 'cold', 'nomerge', 'allocsize', 'writeonly'):
                    I.extra.setdefault('attrs', []).append(s.next().v)
                    if s.at('('):
                        while not s.at(')'): s.i += 1
                        s.i += 1
                elif s.at('['):
                    d = 0
                    while True:
                        if s.at('['): d += 1
                        elif s.at(']'):
                            d -= 1
                            if d == 0: s.i += 1; break
                        s.i += 1
                else:
                    break
            if isinstance(rty, FuncT):
                I.extra['fty'] = rty; rty = rty.ret
            elif isinstance(rty, PtrT) and isinstance(rty.to, FuncT) and False:
                pass
            I.ty = rty; I.args = args; I.extra['callee'] = callee
            if op == 'invoke':
                s.expect('to'); s.expect('label'); n = unq(s.next().v)
                s.expect('unwind'); s.expect('label'); u = unq(s.next().v)
                I.extra['normal'] = n; I.extra['unwind'] = u
        elif op == 'landingpad':
            ty = s.parse_type(); I.ty = ty
            I.extra['cleanup'] = s.accept('cleanup')
            clauses = []
            while s.t.k == 'word' and s.t.v in ('catch', 'filter'):
                kind = s.next().v
                cty = s.parse_type(); cv = s.parse_value(cty)
                clauses.append((kind, cv))
            I.extra['clauses'] = clauses
        elif op == 'extractvalue':
            ty = s.parse_type(); v = s.parse_value(ty); idx = []
            while s.at(',') and s.peek().k == 'num':
                s.i += 1; idx.append(int(s.next().v))
            I.args = [v]; I.extra['idx'] = idx; I.ty = None
        elif op == 'insertvalue':
            ty = s.parse_type(); v = s.parse_value(ty); s.expect(',')
            ety = s.parse_type(); e = s.parse_value(ety); idx = []
            while s.at(',') and s.peek().k == 'num':
                s.i += 1; idx.append(int(s.next().v))
            I.args = [v, e]; I.extra['idx'] = idx; I.ty = ty
        elif op == 'freeze':
            ty = s.parse_type(); I.args = [s.parse_value(ty)]; I.ty = ty
        else:
            s.err(f'instruction? {op}')
        I.extra.update(s.skip_instr_suffix())
        return I


def parse_file(path):
    with open(path) as f:
        return Parser(f.read()).parse_module()


if __name__ == '__main__':
    m = parse_file(sys.argv[1])
    print(len(m.types), 'types', len(m.globals), 'globals', len(m.funcs), 'funcs',
          sum(1 for f in m.funcs.values() if not f.is_decl), 'defined')
