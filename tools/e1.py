#!/usr/bin/env python3
"""E1 pipeline: harness .cpp --clang-14--> LLVM IR --ir2c--> C --goto-cc/cbmc--> verdicts.

Everything is regenerated from /repo's working tree on every run.  No verdict is taken from a concrete
execution: concrete runs are only used (a) to validate the translator against a native g++ build and
(b) to replay solver counterexamples against the real code.
"""
import os, sys, json, subprocess, hashlib, time, re, shutil, resource
from concurrent.futures import ThreadPoolExecutor

VERIF = os.path.dirname(os.path.dirname(os.path.abspath(__file__)))
REPO = os.environ.get('VF_REPO', '/repo')
sys.path.insert(0, os.path.join(VERIF, 'tools'))
import irparse, ir2c

CLANG = 'clang++-14'
# -D_GLIBCXX_ASSERTIONS: libstdc++ container preconditions (front()/pop() of an empty deque, operator[] out of range, ...) become proof
# obligations instead of undefined behaviour the solver would have to explore
CLANG_FLAGS = ['-std=c++20', '-O1', '-fno-vectorize', '-fno-slp-vectorize', '-fno-unroll-loops', '-D_GLIBCXX_ASSERTIONS',
               '-I' + os.path.join(VERIF, 'shadow'), '-I' + os.path.join(REPO, 'src'),
               '-I' + os.path.join(VERIF, 'harness'), '-S', '-emit-llvm']
CBMC_FLAGS = ['--unwinding-assertions', '--drop-unused-functions', '--no-malloc-may-fail',
              '--no-pointer-check', '--bounds-check', '--signed-overflow-check', '--undefined-shift-check',
              '--no-built-in-assertions' if False else None]
CBMC_FLAGS = [x for x in CBMC_FLAGS if x]
NJOBS = int(os.environ.get('VF_JOBS', str(os.cpu_count() or 4)))


class BuildError(Exception):
    pass


def run_group(cmd, timeout=None):
    """like run(), but the command gets its own process group, which is killed as a whole on time-out (the command may be a wrapper such as /usr/bin/time)"""
    import signal
    t0 = time.time()
    p = subprocess.Popen(cmd, stdout=subprocess.PIPE, stderr=subprocess.PIPE, start_new_session=True)
    try:
        o, e = p.communicate(timeout=timeout)
        return p.returncode, o.decode('utf8', 'replace'), e.decode('utf8', 'replace'), time.time() - t0
    except subprocess.TimeoutExpired:
        try: os.killpg(p.pid, signal.SIGKILL)
        except OSError: pass
        o, e = p.communicate()
        return -9, o.decode('utf8', 'replace'), 'TIMEOUT', time.time() - t0


def run(cmd, timeout=None, cwd=None, env=None, stdin=None):
    t0 = time.time()
    try:
        p = subprocess.run(cmd, stdout=subprocess.PIPE, stderr=subprocess.PIPE, timeout=timeout, cwd=cwd, env=env,
                           input=stdin)
        return p.returncode, p.stdout.decode('utf8', 'replace'), p.stderr.decode('utf8', 'replace'), time.time() - t0
    except subprocess.TimeoutExpired as e:
        return -9, (e.stdout or b'').decode('utf8', 'replace'), 'TIMEOUT', time.time() - t0


ATOMIC_RX = re.compile(r'^\s+(%\S+ = )?(load atomic|store atomic|cmpxchg|atomicrmw)\b')


def instrument_atomics(src, dst):
    """LLVM IR text -> the same IR with 'call void @vf_atomic_point()' in front of every atomic instruction (native side of vf_ainject_arm)."""
    out = []
    for line in open(src):
        if ATOMIC_RX.match(line):
            out.append('  call void @vf_atomic_point()\n')
        out.append(line)
    out.append('\ndeclare void @vf_atomic_point()\n')
    with open(dst, 'w') as f:
        f.write(''.join(out))


def demangle(names):
    if not names:
        return {}
    rc, out, err, _ = run(['c++filt'], stdin='\n'.join(names).encode())
    res = out.split('\n')
    return {n: (res[i] if i < len(res) else n) for i, n in enumerate(names)}


class TU:
    """One harness translation unit, translated once per run."""

    def __init__(self, prop, cpp, workdir, defines=()):
        self.prop = prop
        self.cpp = cpp if os.path.isabs(cpp) else os.path.join(VERIF, 'harness', cpp)
        self.base = os.path.splitext(os.path.basename(cpp))[0]
        if defines:
            self.base += '_' + hashlib.md5(' '.join(defines).encode()).hexdigest()[:6]
        self.work = workdir
        self.defines = list(defines)
        os.makedirs(workdir, exist_ok=True)
        self.ll = os.path.join(workdir, self.base + '.ll')
        self.c = os.path.join(workdir, self.base + '.c')
        self.gb = os.path.join(workdir, self.base + '.gb')
        self.native = os.path.join(workdir, self.base + '.native')
        self.native_san = os.path.join(workdir, self.base + '.native_san')
        self.trans = os.path.join(workdir, self.base + '.trans')
        self.entries = []
        self.functions = []
        self.timing = {}

    def build(self):
        t0 = time.time()
        rc, out, err, dt = run([CLANG] + CLANG_FLAGS + ['-D' + d for d in self.defines] + [self.cpp, '-o', self.ll])
        if rc != 0:
            raise BuildError('clang failed on %s:\n%s' % (self.cpp, err[-4000:]))
        self.timing['clang_s'] = round(dt, 2)
        t1 = time.time()
        mod = irparse.parse_file(self.ll)
        em = ir2c.Emitter(mod)
        text = em.emit_module()
        with open(self.c, 'w') as f:
            f.write(text)
        self.entries = list(em.entries)
        self.unmodelled = list(em.unmodelled)
        self.uses_threads = ir2c.THREAD_START in mod.funcs      # cooperative thread model (C11): native builds link rt/native_threads.cpp
        self.uses_ainject = 'vf_ainject_arm' in mod.funcs       # atomic-window injection: the native reference is built from the instrumented IR
        defined = [f.name for f in mod.funcs.values() if not f.is_decl]
        dm = demangle(defined)
        self.functions = sorted(set(dm[n] for n in defined))
        self.cocls_functions = [x for x in self.functions if 'cocls::' in x]
        self.ir_lines = sum(1 for _ in open(self.ll))
        self.timing['translate_s'] = round(time.time() - t1, 2)
        t2 = time.time()
        rc, out, err, dt = run(['goto-cc', '-D__CPROVER__'] + (['-DVF_DISCIPLINE'] if 'VF_DISCIPLINE' in self.defines else []) + ['-I' + os.path.join(VERIF, 'rt'), '-c', self.c, '-o', self.gb])
        if rc != 0:
            raise BuildError('goto-cc failed on %s:\n%s' % (self.c, (out + err)[-4000:]))
        self.timing['gotocc_s'] = round(time.time() - t2, 2)
        return self

    # ---------------------------------------------------------------- native builds
    def build_native(self, sanitize=False):
        exe = self.native_san if sanitize else self.native
        if os.path.exists(exe):
            return exe
        main_cpp = os.path.join(self.work, self.base + '_main.cpp')
        with open(main_cpp, 'w') as f:
            f.write('#include <cstring>\n')
            for e in self.entries:
                f.write('extern "C" void %s();\n' % e)
            f.write('int main(int argc, char **argv) {\n')
            for e in self.entries:
                f.write('  if (argc > 1 && !std::strcmp(argv[1], "%s")) { %s(); return 0; }\n' % (e, e))
            f.write('  return 2;\n}\n')
        flags = ['-std=c++20', '-O1', '-g', '-D_GLIBCXX_ASSERTIONS', '-I' + os.path.join(REPO, 'src'), '-I' + os.path.join(VERIF, 'harness'), '-pthread']
        if sanitize:
            flags += ['-fsanitize=address,undefined', '-fno-omit-frame-pointer', '-fno-sanitize-recover=undefined']
        rtc = os.path.join(self.work, 'native_rt%s.o' % ('_san' if sanitize else ''))
        rc, out, err, dt = run(['gcc', '-O1', '-g', '-c', os.path.join(VERIF, 'rt', 'native_rt.c'), '-o', rtc])
        if rc != 0:
            raise BuildError('gcc native_rt failed:\n' + err)
        srcs = [self.cpp, main_cpp, rtc]
        if getattr(self, 'uses_ainject', False):
            # same front end and IR as the encoding, with a call to vf_atomic_point() in front of every atomic instruction
            ll = self.ll
            if sanitize:
                ll = os.path.join(self.work, self.base + '_san.ll')
                rc, out, err, dt = run([CLANG] + CLANG_FLAGS + ['-g', '-fsanitize=address,undefined', '-fno-sanitize=function', '-fno-omit-frame-pointer', '-fno-sanitize-recover=undefined'] +
                                       ['-D' + d for d in self.defines] + [self.cpp, '-o', ll])
                if rc != 0:
                    raise BuildError('clang (sanitized IR) failed on %s:\n%s' % (self.cpp, err[-4000:]))
            inst = os.path.join(self.work, self.base + ('_san' if sanitize else '') + '_inst.ll')
            instrument_atomics(ll, inst)
            obj = inst[:-3] + '.o'       # the sanitizer passes already ran when the IR was produced: compile it as it is, link the runtime
            rc, out, err, dt0 = run([CLANG, '-O1', '-g', '-Wno-override-module', '-c', inst, '-o', obj])
            if rc != 0:
                raise BuildError('clang failed on instrumented IR:\n' + err[-4000:])
            srcs = [obj, main_cpp, rtc]
            rc, out, err, dt = run([CLANG, '-O1', '-g', '-pthread'] + (['-fsanitize=address,undefined'] if sanitize else []) + srcs +
                                   [os.path.join(VERIF, 'rt', 'native_new.cpp'), '-o', exe])
            if rc != 0:
                raise BuildError('clang native build from instrumented IR failed:\n' + err[-4000:])
            self.timing['native%s_s' % ('_san' if sanitize else '')] = round(dt, 2)
            return exe
        if not sanitize:
            srcs.append(os.path.join(VERIF, 'rt', 'native_new.cpp'))
        else:
            srcs.append(os.path.join(VERIF, 'rt', 'native_new.cpp'))
        if getattr(self, 'uses_threads', False):
            srcs.append(os.path.join(VERIF, 'rt', 'native_threads.cpp'))
        rc, out, err, dt = run(['g++'] + flags + ['-D' + d for d in self.defines] + srcs + ['-o', exe])
        if rc != 0:
            raise BuildError('g++ native build failed:\n' + err[-4000:])
        self.timing['native%s_s' % ('_san' if sanitize else '')] = round(dt, 2)
        return exe

    def build_translated_native(self, discipline=False):
        """gcc build of the generated C. discipline=True (only for TUs built with -DVF_DISCIPLINE) keeps the lock-discipline obligation
        as an address-range check: used to confirm counterexamples; translator validation runs without it."""
        exe = self.trans + ('_disc' if discipline else '')
        if os.path.exists(exe):
            return exe
        rc, out, err, dt = run(['gcc', '-O1', '-w', '-DVF_TRANSLATED'] + (['-DVF_DISCIPLINE'] if discipline else []) + ['-I' + os.path.join(VERIF, 'rt'), self.c,
                                os.path.join(VERIF, 'rt', 'native_rt.c'), '-o', exe])
        if rc != 0:
            raise BuildError('gcc build of translated C failed:\n' + err[-4000:])
        self.timing['trans_native_s'] = round(dt, 2)
        return exe

    @staticmethod
    def write_replay(path, choices, nd):
        with open(path, 'w') as f:
            for c in choices:
                f.write('c %d\n' % c)
            for v in nd:
                f.write('n %d\n' % v)

    def run_native(self, exe, entry, replay_file, timeout=20):
        env = dict(os.environ)
        env['VF_REPLAY'] = replay_file
        env['ASAN_OPTIONS'] = 'detect_leaks=0:abort_on_error=0:exitcode=43'
        env['UBSAN_OPTIONS'] = 'halt_on_error=1:exitcode=44'
        rc, out, err, dt = run([exe, entry], timeout=timeout, env=env)
        return rc, out, err

    def validate_translation(self, entry, vectors):
        """run concrete vectors through the native g++ build and the gcc build of the translated C; compare vf_out traces"""
        nat = self.build_native(False)
        tr = self.build_translated_native()
        ok = 0
        problems = []
        for i, (choices, nd) in enumerate(vectors):
            rf = os.path.join(self.work, 'val_%s_%d.txt' % (entry, i))
            self.write_replay(rf, choices, nd)
            r1 = self.run_native(nat, entry, rf)
            r2 = self.run_native(tr, entry, rf)
            o1 = [l for l in r1[1].split('\n') if l.startswith('OUT ')]
            o2 = [l for l in r2[1].split('\n') if l.startswith('OUT ')]
            # exit code classes: 0 ok, 42 assert, 77 assume; the translated build aborts (134) on assert
            c1 = 'assert' if r1[0] == 42 else 'ok' if r1[0] == 0 else 'rc%d' % r1[0]
            c2 = 'assert' if r2[0] == 42 else 'ok' if r2[0] == 0 else 'rc%d' % r2[0]
            # library assert()/crash: the native build aborts (134/-6/-11), the translated build fails the corresponding obligation (42)
            if c1 in ('rc134', 'rc-6', 'rc-11', 'rc139') and c2 == 'assert': c1 = 'assert'
            # a real hang in an atomic wait (native run killed) corresponds to the model's 'would block forever' obligation
            if c1 == 'rc-9' and c2 == 'assert' and 'block forever' in r2[2]: c1 = 'assert'; o1 = o2
            if o1 == o2 and c1 == c2:
                # identical behaviour (also an identical crash/abort caused by the library itself) is agreement
                ok += 1
            elif c1 not in ('ok', 'assert') or c2 not in ('ok', 'assert'):
                # a crash on either side (undefined behaviour executed concretely, e.g. by a defective library) says nothing about the
                # translator: the vector is inconclusive; the solver's verdict and the sanitizer replay of its counterexample decide
                pass
            else:
                problems.append({'vector': [choices, nd], 'native': [c1, o1[:20], r1[2][-300:]], 'translated': [c2, o2[:20], r2[2][-300:]]})
        return ok, problems

    # ---------------------------------------------------------------- solver queries
    def query(self, entry, choices, unwind, timeout=300, object_bits=12, trace_property=None, extra=()):
        h = hashlib.md5((entry + ':' + ','.join(map(str, choices))).encode()).hexdigest()[:12]
        sk = os.path.join(self.work, 'sk_%s.c' % h)
        with open(sk, 'w') as f:
            f.write('const int VF_CHOICES[] = {%s};\nconst int VF_NCHOICES = %d;\n' % (', '.join(map(str, list(choices) + [0])), len(choices)))
        cmd = ['cbmc', self.gb, sk, '--function', 'main_' + entry, '--unwind', str(unwind), '--object-bits', str(object_bits),
               '--verbosity', '8'] + CBMC_FLAGS + list(extra)
        if trace_property:
            cmd += ['--trace', '--property', trace_property, '--json-ui']
        cmd = ['/usr/bin/time', '-f', 'VF_RSS_KB %M'] + cmd          # peak memory of every query is recorded (evidence: max_rss_mb per unit)
        rc, out, err, dt = run_group(cmd, timeout=timeout)
        solver = 'minisat (cbmc default)'
        if rc == -9 and '--sat-solver' not in cmd:
            # the propositional instance of a vector is occasionally hard for MiniSat (measured: > 900 s) and trivial for CaDiCaL (5 s): second back end before giving up
            rc, out, err, dt2 = run_group(cmd + ['--sat-solver', 'cadical'], timeout=timeout)
            dt += dt2; solver = 'cadical (after a MiniSat time-out)'
        res = {'entry': entry, 'choices': list(choices), 'wall_s': round(dt, 2), 'rc': rc, 'cmd': ' '.join(cmd), 'sat_backend': solver}
        try:
            os.unlink(sk)
        except OSError:
            pass
        m_rss = re.search(r'VF_RSS_KB (\d+)', err or '')
        res['rss_mb'] = int(m_rss.group(1)) // 1024 if m_rss else 0
        if rc == -9 or (rc in (137, -9, 9) and not re.search(r'VERIFICATION (SUCCESSFUL|FAILED)', out)):
            # killed: by our time limit, or (well before it) by the kernel's out-of-memory killer when too many large queries run side by side
            res['status'] = 'timeout' if dt >= 0.9 * timeout else 'killed'
            return res
        if trace_property:
            try:
                doc = json.loads(out)
            except Exception as e:
                res['status'] = 'error'; res['error'] = 'cannot parse cbmc trace output: %s' % e
                return res
            res['failed'] = []
            for e in doc:
                for p in e.get('result', []):
                    if p['status'] != 'SUCCESS':
                        res['failed'].append({'id': p['property'], 'status': p['status'], 'desc': p.get('description', ''), 'trace': p.get('trace')})
            res['status'] = 'done'
            return res
        props = 0
        failed = []
        for m in PROP_RE.finditer(out):
            props += 1
            if m.group(3) != 'SUCCESS':
                failed.append({'id': m.group(1), 'status': m.group(3), 'desc': m.group(2)})
        def num(rx, cast=int, all_=False):
            xs = re.findall(rx, out)
            if not xs: return cast(0)
            return sum(cast(x) for x in xs) if all_ else cast(xs[-1])
        res.update({'steps': num(r'size of program expression: (\d+) steps'),
                    'vccs': num(r'Generated (\d+) VCC\(s\)'), 'vccs_remaining': num(r'Generated \d+ VCC\(s\), (\d+) remaining'),
                    'solver_s': round(num(r'Runtime Solver: ([0-9.e-]+)s', float, True), 3),
                    'symex_s': round(num(r'Runtime Symex: ([0-9.e-]+)s', float, True), 3)})
        if not props or not re.search(r'VERIFICATION (SUCCESSFUL|FAILED)', out):
            res['status'] = 'error'; res['error'] = 'no verdict from cbmc: %s | %s' % (out[-600:], err[-300:])
            return res
        res['n_properties'] = props
        res['failed'] = failed
        res['status'] = 'done'
        return res


PROP_RE = re.compile(r'^\[([^\]]+)\] (?:line \d+ )?(.*): (SUCCESS|FAILURE|UNKNOWN|ERROR)$', re.M)


def classify(res):
    """split a query result into (witness_ok, violations, unwinding, spec_errors)"""
    wit = False; viol = []; unw = []; spec = []
    for f in res.get('failed', []):
        d = f['desc']
        if d == 'VF_WITNESS':
            wit = True
        elif d.startswith('VF_SPEC'):
            spec.append(f)
        elif 'unwinding assertion' in d or f['id'].endswith('.unwind') or '.unwind.' in f['id'] or 'recursion unwinding' in d:
            unw.append(f)
        else:
            viol.append(f)
    return wit, viol, unw, spec


def nd_values_from_trace(trace):
    """ordered nondet values recorded through RT_ND (vf_nd_log) and nondet skeleton choices"""
    vals = []
    for st in trace or []:
        if st.get('stepType') == 'assignment' and st.get('lhs') in ('vf_nd_log',):
            fn = (st.get('sourceLocation') or {}).get('function')
            if st.get('hidden') or fn in (None, '__CPROVER_initialize', '__CPROVER__start'):
                continue        # static zero-initialisation of the log cell, not a nondet value
            v = st.get('value', {})
            b = v.get('binary')
            if b is not None:
                x = int(b, 2)
                if x >= 1 << 63: x -= 1 << 64
                vals.append(x)
            else:
                try: vals.append(int(v.get('data', '0')))
                except Exception: vals.append(0)
    return vals
