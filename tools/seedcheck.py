#!/usr/bin/env python3
"""Runs the registered checks against a seeded change: copies /repo/src to a scratch directory, applies seeded/<name>/patch.diff there,
runs `check.py <id> --tier <tier> [--only unit]` with VF_REPO pointing at the copy, and records the outcome in seeded/<name>/result.json.
(The checks read the repository location from VF_REPO; by default that is /repo itself.)  Usage: seedcheck.py <name> [tier]"""
import os, sys, json, subprocess, tempfile, shutil, time
VERIF = os.path.dirname(os.path.dirname(os.path.abspath(__file__)))
name = sys.argv[1]; tier = sys.argv[2] if len(sys.argv) > 2 else 'quick'
d = os.path.join(VERIF, 'seeded', name)
meta = json.load(open(os.path.join(d, 'meta.json')))
tmp = tempfile.mkdtemp(prefix='vf_seed_')
res = {'name': name, 'tier': tier, 'runs': []}
try:
    # evidence files written by a seeded run describe the mutated tree: keep the current ones of the properties concerned and put them back afterwards
    saved = {}
    for chk in meta['checks']:
        ev = os.path.join(VERIF, 'evidence', chk['property'] + '.json')
        if os.path.exists(ev) and ev not in saved: saved[ev] = open(ev, 'rb').read()
    shutil.copytree('/repo/src', os.path.join(tmp, 'src'))
    p = subprocess.run(['patch', '-p1', '-d', tmp, '-i', os.path.join(d, 'patch.diff')], stdout=subprocess.PIPE, stderr=subprocess.STDOUT)
    if p.returncode != 0:
        print('patch does not apply:', p.stdout.decode()[-500:]); sys.exit(2)
    env = dict(os.environ); env['VF_REPO'] = tmp; env['VF_BUILD'] = os.path.join(tmp, 'build')
    for chk in meta['checks']:
        cmd = [sys.executable, os.path.join(VERIF, 'tools', 'check.py'), chk['property'], '--tier', tier] + (['--only', chk['only']] if chk.get('only') else [])
        t0 = time.time()
        q = subprocess.run(cmd, stdout=subprocess.PIPE, stderr=subprocess.PIPE, env=env, cwd=VERIF)
        out = q.stdout.decode()
        viol = [l for l in out.split('\n') if l.startswith('VIOLATION') or l.startswith('  assertion:')]
        res['runs'].append({'cmd': ' '.join(cmd[1:]), 'exit': q.returncode, 'wall_s': round(time.time() - t0, 1), 'violation_lines': viol[:8],
                            'summary': out.strip().split('\n')[-1][:300], 'stderr_tail': q.stderr.decode()[-400:] if q.returncode == 2 else ''})
        print(chk['property'], chk.get('only', ''), '-> exit', q.returncode, '|', (viol[1].strip() if len(viol) > 1 else (viol[0] if viol else out.strip().split('\n')[-1]))[:200])
    res['caught'] = any(r['exit'] == 1 for r in res['runs'])
    json.dump(res, open(os.path.join(d, 'result.json'), 'w'), indent=1)
finally:
    shutil.rmtree(tmp, ignore_errors=True)
    for ev, data in (saved if 'saved' in dir() else {}).items():
        open(ev, 'wb').write(data)
sys.exit(0 if res['caught'] else 1)
