#!/usr/bin/env python3
"""E2 front end, second generation: guarded (merging) symbolic execution of LLVM IR into a DAG of guarded events.

Instead of forking a path at every branch on a value read from shared memory (irsym.ThreadRun: the number of paths is
the product over sequentially composed library operations), a function body is executed as a DAG: strands carry a
guard, are advanced in reverse-post-order and are merged whenever two of them sit at the same basic block (registers and
private memory become if-then-else terms).  A call executes its callee completely and continues with one merged strand.
A symbolic address is never forked on: the access is emitted once per possible target object, each copy guarded by
`address == target`.  The result is one list of events per thread whose size is additive in the program size.
"""
import sys, os, re, bisect
import z3
from irparse import *
import irsym
from irsym import (Unsupported, PathEnd, Event, Obj, Scenario, is_c, bv, simp, mask, to_signed, z3_vars, MASK64, JoinNode)

TRUE = z3.BoolVal(True)
FALSE = z3.BoolVal(False)


def g_and(*gs):
    gs = [g for g in gs if not z3.is_true(g)]
    if not gs: return TRUE
    if any(z3.is_false(g) for g in gs): return FALSE
    return z3.simplify(z3.And(*gs)) if len(gs) > 1 else gs[0]


def g_or(a, b):
    if z3.is_true(a) or z3.is_true(b): return TRUE
    if z3.is_false(a): return b
    if z3.is_false(b): return a
    return z3.simplify(z3.Or(a, b))


class Strand:
    __slots__ = ('guard', 'regs', 'mem', 'heap_ptr', 'stack_ptr', 'freed', 'sched', 'loop', 'local_objs', 'tls_done', 'own_w', 'ended')

    def __init__(s):
        s.guard = TRUE; s.regs = {}; s.mem = {}; s.heap_ptr = 0; s.stack_ptr = 0; s.freed = {}; s.sched = 0; s.loop = {}
        s.local_objs = {}; s.tls_done = set(); s.own_w = {}; s.ended = False

    def fork(s, guard):
        n = Strand()
        n.guard = guard; n.regs = dict(s.regs); n.mem = dict(s.mem); n.heap_ptr = s.heap_ptr; n.stack_ptr = s.stack_ptr
        n.freed = dict(s.freed); n.sched = s.sched; n.loop = dict(s.loop); n.local_objs = dict(s.local_objs); n.tls_done = set(s.tls_done)
        n.own_w = {k: list(v) for k, v in s.own_w.items()}
        return n


def rpo_of(fn):
    succ = {}
    for b in fn.blocks:
        t = b.instrs[-1]
        if t.op == 'br': ss = list(t.extra['targets'])
        elif t.op == 'switch': ss = [t.extra['default']] + [l for _, l in t.extra['cases']]
        elif t.op == 'invoke': ss = [t.extra['normal']]
        else: ss = []
        succ[b.name] = ss
    seen = set(); order = []
    def dfs(n):
        stack = [(n, iter(succ[n]))]
        seen.add(n)
        while stack:
            node, it = stack[-1]
            adv = False
            for m in it:
                if m not in seen:
                    seen.add(m); stack.append((m, iter(succ[m]))); adv = True; break
            if not adv:
                order.append(node); stack.pop()
    dfs(fn.blocks[0].name)
    order.reverse()
    rpo = {n: i for i, n in enumerate(order)}
    k = len(order)
    for b in fn.blocks:
        if b.name not in rpo:
            rpo[b.name] = k; k += 1
    return rpo


class DagRun(irsym.ThreadRun):
    """one guarded execution of one thread entry (no decisions, no re-execution)"""

    def __init__(s, sc, tid, entry, mode):
        super().__init__(sc, tid, entry, [], {}, mode)
        s.sc_sym_src = sc.__dict__.setdefault('sym_src', {})
        s.sym_allowed = sc.__dict__.setdefault('sym_allowed', {})
        s.allev = []                    # events in creation order (a topological order of the DAG)
        s.st = None                     # current strand (implicit argument of the inherited helpers)
        s.done_guard = FALSE            # disjunction of the guards with which the entry function returned
        s.rpo_cache = sc.__dict__.setdefault('rpo_cache', {})
        s.nfeas = 0
        s.depth = 0

    # ------------------------------------------------------------------ strand-aware state accessors used by inherited code
    def _S(s): return s.__dict__.get('st')
    @property
    def store(s): return s._S().mem if s._S() is not None else s.__dict__.setdefault('_store', {})
    @store.setter
    def store(s, v):
        if s._S() is not None: s._S().mem = v
        else: s.__dict__['_store'] = v
    @property
    def constraints(s):
        st = s._S()
        return [st.guard] if st is not None and not z3.is_true(st.guard) else []
    @constraints.setter
    def constraints(s, v): pass
    @property
    def local_objs(s): return s._S().local_objs if s._S() is not None else s.__dict__.setdefault('_lo', {})
    @local_objs.setter
    def local_objs(s, v): s.__dict__['_lo'] = v
    @property
    def tls_done(s): return s._S().tls_done if s._S() is not None else s.__dict__.setdefault('_td', set())
    @tls_done.setter
    def tls_done(s, v): s.__dict__['_td'] = v
    @property
    def stack_ptr(s): return s._S().stack_ptr if s._S() is not None else s.__dict__.get('_sp', 0)
    @stack_ptr.setter
    def stack_ptr(s, v):
        if s._S() is not None: s._S().stack_ptr = v
        else: s.__dict__['_sp'] = v
    @property
    def heap_ptr(s): return s._S().heap_ptr if s._S() is not None else s.__dict__.get('_hp', 0)
    @heap_ptr.setter
    def heap_ptr(s, v):
        if s._S() is not None: s._S().heap_ptr = v
        else: s.__dict__['_hp'] = v
    @property
    def sched(s): return s._S().sched if s._S() is not None else 0
    @sched.setter
    def sched(s, v):
        if s._S() is not None: s._S().sched = v
    @property
    def freed(s): return s._S().freed if s._S() is not None else s.__dict__.setdefault('_fr', {})
    @freed.setter
    def freed(s, v): s.__dict__['_fr'] = v

    def cur_pos(s):
        return len(s.allev)

    def feasible(s, g):
        if z3.is_true(g): return True
        if z3.is_false(g): return False
        s.nfeas += 1
        return s.solver.check(g) != z3.unsat

    def fail(s, msg, extra_guard=None):
        g = s.st.guard if extra_guard is None else g_and(s.st.guard, extra_guard)
        s.asserts.append(([g], False, msg, s.cur_pos()))

    # ------------------------------------------------------------------ value helpers
    def possible(s, v, what, site):
        """finite list of concrete values a (pointer-like) term can take, each with its condition"""
        if is_c(v): return [(v, TRUE)]
        v = simp(v)
        if is_c(v): return [(v, TRUE)]
        if any(x.decl().name().startswith('undef_') for x in z3_vars(v)):
            # uninitialised private memory: transient while the sharing fixpoint is not reached, a finding afterwards
            s.fail('memory: uninitialised value used as %s at %s' % (what, site))
            return []
        vals = s.enum_values(v)
        if vals is None:
            raise Unsupported('cannot enumerate the values of %s %s at %s' % (what, str(v)[:200], site))
        out = []
        for c in sorted(vals):
            cond = z3.simplify(v == z3.BitVecVal(c, v.size()))
            if z3.is_false(cond): continue
            out.append((c, cond))
        return out

    def enum_values(s, v, depth=0, memo=None):
        if is_c(v): return {v}
        if z3.is_bv_value(v): return {v.as_long()}
        if memo is None: memo = {}
        vid = v.get_id()
        if vid in memo: return memo[vid]
        r = s.enum_values1(v, depth, memo)
        memo[vid] = r
        return r

    def enum_values1(s, v, depth, memo):
        if depth > 200: return None
        if z3.is_app_of(v, z3.Z3_OP_ITE):
            a = s.enum_values(v.arg(1), depth + 1, memo)
            if a is None: return None
            b = s.enum_values(v.arg(2), depth + 1, memo)
            return None if b is None else a | b
        if z3.is_const(v):
            n = v.decl().name()
            if n.startswith('undef_'): return set()
            return s.sym_allowed.get(n)
        # bit-vector operator over enumerable operands: combine the operand value sets
        kids = v.children()
        if kids and all(z3.is_bv(k) for k in kids):
            sets = []
            total = 1
            for k in kids:
                ks = s.enum_values(k, depth + 1, memo)
                if ks is None: return None
                sets.append(sorted(ks)); total *= max(len(ks), 1)
                if total > 1024: return None
            out = set()
            import itertools
            d = v.decl()
            for combo in itertools.product(*sets):
                r = simp(d(*[z3.BitVecVal(c, k.size()) for c, k in zip(combo, kids)]))
                if not is_c(r): return None
                out.add(r)
            return out
        return None

    def ite(s, c, a, b, bits):
        if isinstance(a, list) or isinstance(b, list):
            if not isinstance(a, list) or not isinstance(b, list) or len(a) != len(b):
                raise Unsupported('merge of differently shaped aggregates')
            return [s.ite(c, x, y, None) for x, y in zip(a, b)]
        if is_c(a) and is_c(b) and a == b: return a
        if not is_c(a) and not is_c(b) and a.eq(b): return a
        if bits is None:
            bits = a.size() if not is_c(a) else b.size() if not is_c(b) else 64
        A, Bv = bv(a, bits), bv(b, bits)
        if A.size() != Bv.size():
            if is_c(a): A = z3.BitVecVal(a, Bv.size())
            elif is_c(b): Bv = z3.BitVecVal(b, A.size())
            else: raise Unsupported('merge of values of different width')
        return simp(z3.If(c, A, Bv))

    def regbits(s, f):
        c = s.sc.__dict__.setdefault('regbits_cache', {})
        if f.name not in c:
            m = {}
            for p in f.params:
                try: m[p.name] = s.tybits(p.ty)
                except Unsupported: pass
            for b in f.blocks:
                for I in b.instrs:
                    if I.res is None: continue
                    try:
                        if I.op == 'getelementptr' or I.op == 'alloca': m[I.res] = 64
                        elif I.op == 'icmp': m[I.res] = 1
                        elif I.ty is not None: m[I.res] = s.tybits(I.ty)
                    except Unsupported: pass
            c[f.name] = m
        return c[f.name]

    def merge(s, a, b, f=None):
        """merge strand b into a (same block)"""
        ga, gb = a.guard, b.guard
        if a.regs is not b.regs:
            regs = {}
            rb = s.regbits(f) if f is not None else {}
            for k in set(a.regs) | set(b.regs):
                if k in a.regs and k in b.regs:
                    va, vb = a.regs[k], b.regs[k]
                    regs[k] = va if va is vb else s.ite(ga, va, vb, rb.get(k))
                else:
                    regs[k] = a.regs[k] if k in a.regs else b.regs[k]
            a.regs = regs
        if a.mem is not b.mem:
            s.unify_geometry(a, b)
            mem = {}
            for k in set(a.mem) | set(b.mem):
                ca, cb = a.mem.get(k), b.mem.get(k)
                if ca is not None and cb is not None:
                    if ca[0] != cb[0]: raise Unsupported('merge of private memory cells with different geometry at 0x%x' % k)
                    mem[k] = ca if (ca[1] is cb[1]) else (ca[0], s.ite(ga, ca[1], cb[1], ca[0] * 8))
                else:
                    c = ca if ca is not None else cb
                    other = s.sc.init_value(k, c[0])
                    mem[k] = (c[0], s.ite(ga, c[1], other, c[0] * 8) if ca is not None else s.ite(ga, other, c[1], c[0] * 8))
            a.mem = mem
        a.heap_ptr = max(a.heap_ptr, b.heap_ptr); a.stack_ptr = max(a.stack_ptr, b.stack_ptr)
        for k, g in b.freed.items():
            a.freed[k] = g_or(g_and(ga, a.freed.get(k, FALSE)), g_and(gb, g))
        for k in list(a.freed):
            if k not in b.freed: a.freed[k] = g_and(ga, a.freed[k])
        if not (is_c(a.sched) and is_c(b.sched) and a.sched == b.sched):
            a.sched = z3.If(ga, z3.IntVal(a.sched) if is_c(a.sched) else a.sched, z3.IntVal(b.sched) if is_c(b.sched) else b.sched)
        for k, v in b.loop.items():
            a.loop[k] = max(a.loop.get(k, 0), v)
        a.local_objs.update(b.local_objs); a.tls_done |= b.tls_done
        for k, v in b.own_w.items():
            l = a.own_w.setdefault(k, [])
            for e in v:
                if e not in l: l.append(e)
        a.guard = g_or(ga, gb)
        return a

    def unify_geometry(s, a, b):
        """cells of the two private memories that overlap with different (address,width) are split into bytes on both sides"""
        def conflicts(x, y):
            out = set()
            for addr, (w, _) in x.items():
                c = y.get(addr)
                if c is not None and c[0] != w: out.add(addr)
                for off in range(1, w):
                    if (addr + off) in y: out.add(addr); break
            return out
        ca = conflicts(a.mem, b.mem); cb = conflicts(b.mem, a.mem)
        if not ca and not cb: return
        lo_hi = []
        for addr in ca: lo_hi.append((addr, addr + a.mem[addr][0]))
        for addr in cb: lo_hi.append((addr, addr + b.mem[addr][0]))
        def split(st, lo, hi):
            saved = s.st; s.st = st
            try:
                for addr in [x for x in list(st.mem) if x < hi and x + st.mem[x][0] > lo and st.mem[x][0] > 1]:
                    w, v = st.mem.pop(addr)
                    for i in range(w):
                        st.mem[addr + i] = (1, (v >> (8 * i)) & 0xff if is_c(v) else simp(z3.Extract(8 * i + 7, 8 * i, v)))
            finally:
                s.st = saved
        for lo, hi in lo_hi:
            split(a, lo, hi); split(b, lo, hi)

    # ------------------------------------------------------------------ events
    def new_event(s, **kw):
        e = Event(id=len(s.allev), tid=s.tid, key=(s.tid, (), len(s.allev)), **kw)
        e.guard = [s.st.guard] if not z3.is_true(s.st.guard) else []
        e.idx = len(s.allev); e.seg = 0; e.segk = 0; e.lkey = ()
        if e.kind in ('R', 'RMW', 'WAIT'):
            e.rval = z3.BitVec('r%d_%d' % (s.tid, e.id), e.width * 8)
            s.sc_sym_src[e.rval.decl().name()] = e.addr
            s.sc.width_of[e.addr] = e.width
        e.sched = s.st.sched
        s.allev.append(e); s.events.append(e)
        if e.rval is not None:
            # a read returns one of the thread's own earlier writes to the location (or the initial value) or a value some other thread writes there
            cs = set(s.sc.candidates(e.addr, s.tid))
            allowed = None
            if 'TOP' not in cs:
                allowed = cs
                own = s.st.own_w.get(e.addr, [])
                uncond = False
                for w in own:
                    vs = s.enum_values(w.wval if is_c(w.wval) else simp(w.wval))
                    if vs is None: allowed = None; break
                    allowed |= vs
                if allowed is not None:
                    iv = s.sc.init_value(e.addr, e.width)
                    if is_c(iv): allowed.add(iv)
                    else:
                        vs = s.enum_values(iv)
                        allowed = None if vs is None else allowed | vs
            s.sym_allowed[e.rval.decl().name()] = allowed
            if allowed is not None and len(allowed) <= 32:
                s.solver.add(z3.Or(*[e.rval == z3.BitVecVal(c, e.width * 8) for c in sorted(allowed)]))
        return e

    def note_write(s, e):
        s.st.own_w.setdefault(e.addr, []).append(e)

    def sym_values(s, v):
        return s.enum_values(v)

    # ------------------------------------------------------------------ memory (one access per possible target)
    def access_targets(s, p, width, site, what):
        """[(addr, cond, obj)] for a possibly symbolic pointer; invalid targets are reported under their condition"""
        out = []
        for (a, cond) in s.possible(p, 'pointer', site):
            g = g_and(s.st.guard, cond)
            if not z3.is_true(cond) and not s.feasible(g): continue
            o = s.find_obj(a)
            if o is None or a + width > o.base + o.size or o.kind == 'func':
                s.fail('memory: invalid pointer dereference (0x%x) at %s' % (a, site), cond)
                continue
            out.append((a, cond, o))
        return out

    def load(s, p, width, order, site):
        tg = s.access_targets(p, width, site, 'load')
        if not tg:
            s.st.ended = True
            raise PathEnd('invalid-deref')
        res = None
        saved = s.st.guard
        for (a, cond, o) in reversed(tg):
            s.st.guard = g_and(saved, cond)
            v = s.load1(a, width, order, site, o)
            res = v if res is None else s.ite(cond, v, res, width * 8)
        s.st.guard = saved
        if len(tg) < len(s.possible(p, 'pointer', site)):
            # the remaining targets are invalid: they end the execution there
            s.st.guard = g_and(saved, z3.Or(*[c for (_, c, _) in tg]))
        return res

    def load1(s, addr, width, order, site, o):
        if s.mode != 'private': s.sc.note_access(o, s.tid)
        if not s.is_shared(o):
            fg = s.st.freed.get(o.base)
            if fg is not None and s.feasible(g_and(s.st.guard, fg)):
                s.fail('memory: access to a released block at %s' % site, fg)
            return s.priv_load(addr, width)
        e = s.new_event(kind='R', addr=addr, width=width, order=order, site=site, obj=o.base)
        return e.rval

    def store_(s, p, width, val, order, site):
        if not is_c(val): val = simp(val)
        tg = s.access_targets(p, width, site, 'store')
        if not tg:
            s.st.ended = True
            raise PathEnd('invalid-deref')
        saved = s.st.guard
        single = len(tg) == 1 and z3.is_true(tg[0][1])
        for (a, cond, o) in tg:
            s.st.guard = g_and(saved, cond)
            if s.mode != 'private': s.sc.note_access(o, s.tid)
            if not s.is_shared(o):
                fg = s.st.freed.get(o.base)
                if fg is not None and s.feasible(g_and(s.st.guard, fg)):
                    s.fail('memory: access to a released block at %s' % site, fg)
                if single: s.priv_store(a, width, val)
                else:
                    old = s.priv_load(a, width)
                    s.priv_store(a, width, s.ite(cond, val, old, width * 8))
            else:
                e = s.new_event(kind='W', addr=a, width=width, order=order, site=site, obj=o.base)
                e.wval = val
                s.note_write(e)
                s.note_cand(a, width, val)
        s.st.guard = saved
        if len(tg) < len(s.possible(p, 'pointer', site)):
            s.st.guard = g_and(saved, z3.Or(*[c for (_, c, _) in tg]))

    def rmw(s, p, width, op, operand, order, site):
        bits = width * 8
        def apply(old):
            if op == 'xchg': return operand
            f = {'add': lambda a, b: a + b, 'sub': lambda a, b: a - b, 'and': lambda a, b: a & b, 'or': lambda a, b: a | b,
                 'xor': lambda a, b: a ^ b}[op]
            if is_c(old) and is_c(operand): return f(old, operand) & mask(bits)
            return simp(f(bv(old, bits), bv(operand, bits)))
        tg = s.access_targets(p, width, site, 'rmw')
        if not tg:
            s.st.ended = True; raise PathEnd('invalid-deref')
        saved = s.st.guard; res = None
        for (a, cond, o) in reversed(tg):
            s.st.guard = g_and(saved, cond)
            if s.mode != 'private': s.sc.note_access(o, s.tid)
            if not s.is_shared(o):
                old = s.priv_load(a, width)
                nv = apply(old)
                s.priv_store(a, width, nv if z3.is_true(cond) else s.ite(cond, nv, old, bits))
            else:
                e = s.new_event(kind='RMW', addr=a, width=width, order=order, site=site, obj=o.base)
                old = e.rval
                e.wval = apply(e.rval); e.succ = True
                s.note_write(e)
                s.note_cand(a, width, e.wval)
            res = old if res is None else s.ite(cond, old, res, bits)
        s.st.guard = saved
        return res

    def cmpxchg(s, p, width, expected, new, order, fail_order, site):
        bits = width * 8
        tg = s.access_targets(p, width, site, 'cmpxchg')
        if not tg:
            s.st.ended = True; raise PathEnd('invalid-deref')
        saved = s.st.guard; res = None; okres = None
        for (a, cond, o) in reversed(tg):
            s.st.guard = g_and(saved, cond)
            if s.mode != 'private': s.sc.note_access(o, s.tid)
            if not s.is_shared(o):
                old = s.priv_load(a, width)
                eq = (old == expected) if (is_c(old) and is_c(expected)) else z3.simplify(bv(old, bits) == bv(expected, bits))
                if isinstance(eq, bool): eq = z3.BoolVal(eq)
                s.priv_store(a, width, s.ite(g_and(cond, eq), new, old, bits))
            else:
                e = s.new_event(kind='RMW', addr=a, width=width, order=order, site=site, obj=o.base)
                e.fail_order = fail_order
                old = e.rval
                eq = z3.simplify(e.rval == bv(expected, bits))
                e.succ = eq; e.wval = new
                s.note_write(e)
                s.note_cand(a, width, new)
            ok = simp(z3.If(eq, z3.BitVecVal(1, 1), z3.BitVecVal(0, 1)))
            res = old if res is None else s.ite(cond, old, res, bits)
            okres = ok if okres is None else s.ite(cond, ok, okres, 1)
        s.st.guard = saved
        return res, okres

    def fence(s, order, site):
        if s.mode == 'private': return
        s.new_event(kind='F', addr=0, width=0, order=order, site=site)

    def concretize(s, v, site, what='value'):
        if is_c(v): return v
        v = simp(v)
        if is_c(v): return v
        ps = s.possible(v, what, site)
        ps = [(c, cond) for (c, cond) in ps if s.feasible(g_and(s.st.guard, cond))]
        if len(ps) == 1:
            return ps[0][0]
        raise Unsupported('%s must be concrete here (%d possible values) at %s' % (what, len(ps), site))

    def truth(s, v, site):
        raise Unsupported('internal: truth() is not used by the guarded executor')

    def note_cand(s, addr, width, val):
        if s.mode == 'private': return
        vs = s.enum_values(val if is_c(val) else simp(val))
        if vs is None and os.environ.get('VF_DEBUG_TOP'): print('TOP value written to 0x%x: %s' % (addr, str(val)[:300]))
        if vs is None: s.sc.add_cand(addr, 'TOP', s.tid)
        else:
            for c in vs: s.sc.add_cand(addr, c, s.tid)

    def atomic_wait(s, p, old, size, site):
        s.st.sched = s.st.sched + 1
        p = s.concretize(p, site, 'wait address')
        o = s.find_obj(p)
        if o is None:
            s.fail('memory: invalid pointer in atomic wait at %s' % site); s.st.ended = True; raise PathEnd('invalid-deref')
        if s.mode != 'private': s.sc.note_access(o, s.tid)
        oldv = old & mask(size * 8) if is_c(old) else simp(z3.Extract(size * 8 - 1, 0, old))
        if not s.is_shared(o):
            cur = s.priv_load(p, size)
            c = (cur != oldv) if (is_c(cur) and is_c(oldv)) else z3.simplify(bv(cur, size * 8) != bv(oldv, size * 8))
            if isinstance(c, bool): c = z3.BoolVal(c)
            if not z3.is_true(c):
                s.fail('rt: atomic wait blocks forever (no other thread can change the value) at %s' % site, z3.Not(c))
                s.st.guard = g_and(s.st.guard, c)
            return None
        e = s.new_event(kind='WAIT', addr=p, width=size, order='seq_cst', site=site, obj=o.base)
        e.info = oldv
        s.st.guard = g_and(s.st.guard, z3.simplify(e.rval != bv(oldv, size * 8)))
        return None

    def scope_end_frame(s, allocas):
        for base in allocas:
            o = s.st.local_objs.get(base)
            if o is not None and s.is_shared(o):
                s.new_event(kind='FREE', addr=base, width=0, order='na', site='scope-end:' + o.name, obj=base)
            else:
                s.st.freed[base] = TRUE
                if o is not None:
                    for a in [a for a in s.st.mem if base <= a < base + o.size]: del s.st.mem[a]

    # ------------------------------------------------------------------ execution
    def run(s):
        sc = s.sc
        f = sc.mod.funcs.get(s.entry)
        if f is None or f.is_decl: raise Unsupported('entry %s not defined' % s.entry)
        st = Strand()
        st.stack_ptr = 0x10000000 * (s.tid + 1); st.heap_ptr = 0x10000000 * (s.tid + 1) + 0x8000000
        s.st = st
        try:
            if s.mode == 'private' and s.entry == 'vf_setup': s.init_globals()
            rv, out = s.call_function(f, [], 'entry')
            s.done_guard = out.guard if out is not None else FALSE
            s.st = out
            s.end = 'done'
        except PathEnd as e:
            s.end = e.why; s.done_guard = FALSE
        return s

    def call_function(s, f, args, site):
        """executes f completely from the current strand; returns (ret value, merged strand or None)"""
        if s.depth > 60: raise Unsupported('call depth')
        rb = s.sc.opts.get('rec_bound', 2)
        if s.callstack.count(f.name) >= rb:
            s.asserts.append(([s.st.guard], 'BOUND', 'bound: %s re-entered recursively more than %d times' % (f.name[:70], rb), s.cur_pos()))
            return None, None
        caller = s.st
        saved_regs, saved_loop = caller.regs, caller.loop
        st = caller
        st.regs = {}; st.loop = {}
        for p, a in zip(f.params, args): st.regs[p.name] = a
        if f.name not in s.rpo_cache: s.rpo_cache[f.name] = rpo_of(f)
        rpo = s.rpo_cache[f.name]
        blocks = {b.name: b for b in f.blocks}
        active = {f.blocks[0].name: st}
        returns = []
        allocas = []
        s.callstack.append(f.name); s.depth += 1
        lb = s.sc.opts.get('loop_bound', 4)
        try:
            while active:
                bname = min(active, key=lambda n: rpo[n])
                st = active.pop(bname)
                s.st = st
                b = blocks[bname]
                try:
                    nxt = s.exec_block(f, b, st, allocas)
                except PathEnd:
                    continue
                if nxt is None: continue
                st = s.st            # calls inside the block continue in the merged strand their callee returned
                for (kind, x, g) in nxt:
                    if kind == 'ret':
                        st2 = st if len(nxt) == 1 else st.fork(g)
                        st2.guard = g
                        returns.append((x, st2))
                        continue
                    tgt = x
                    st2 = st if len(nxt) == 1 else st.fork(g)
                    st2.guard = g
                    if rpo[tgt] <= rpo[bname]:
                        c = st2.loop.get((bname, tgt), 0) + 1
                        st2.loop[(bname, tgt)] = c
                        if c > lb:
                            s.asserts.append(([g], 'BOUND', 'bound: loop %s->%s in %s exceeded %d iterations' % (bname, tgt, f.name[:70], lb), s.cur_pos()))
                            continue
                    # phi nodes of the target, for this incoming edge (parallel copy)
                    s.st = st2
                    newv = {}
                    for I in blocks[tgt].instrs:
                        if I.op != 'phi': break
                        for (v, lbl) in I.extra['incoming']:
                            if lbl == bname:
                                newv[I.res] = s.val_regs(st2.regs, v); break
                        else:
                            raise Unsupported('phi without incoming from %s in %s' % (bname, f.name))
                    st2.regs.update(newv)
                    if tgt in active: active[tgt] = s.merge(active[tgt], st2, f)
                    else: active[tgt] = st2
        finally:
            s.callstack.pop(); s.depth -= 1
        if not returns:
            s.st = None
            caller.regs, caller.loop = saved_regs, saved_loop
            s.st = caller
            return None, None
        # merge the returning strands; callee registers are dead
        rv, out = returns[0]
        out.regs = saved_regs; out.loop = saved_loop
        for (v, st2) in returns[1:]:
            st2.regs = saved_regs; st2.loop = saved_loop
            ga = out.guard
            if rv is not None or v is not None:
                rv = s.ite(ga, rv, v, s.tybits(f.ret) if not isinstance(s.sc.L.resolve(f.ret), StructT) else None)
            out = s.merge(out, st2)
        s.st = out
        s.scope_end_frame(allocas)
        return rv, out

    def val_regs(s, regs, v):
        class _F: pass
        fr = _F(); fr.regs = regs; fr.fn = None
        return s.val(fr, v)

    def exec_block(s, f, b, st, allocas):
        """returns list of (kind, target/retval, guard)"""
        class _F: pass
        fr = _F(); fr.regs = st.regs; fr.fn = f; fr.block = b; fr.allocas = allocas
        for I in b.instrs:
            if I.op == 'phi': continue
            s.steps += 1
            if s.steps > s.sc.opts.get('max_steps', 2000000): raise Unsupported('step limit')
            op = I.op
            if op == 'br':
                t = I.extra['targets']
                if len(t) == 1: return [('br', t[0], st.guard)]
                c = s.val(fr, I.args[0])
                if is_c(c): return [('br', t[0] if c & 1 else t[1], st.guard)]
                c = simp(c)
                if is_c(c): return [('br', t[0] if c & 1 else t[1], st.guard)]
                cond = z3.simplify(c == z3.BitVecVal(1, 1))
                out = []
                g1 = g_and(st.guard, cond); g2 = g_and(st.guard, z3.simplify(z3.Not(cond)))
                if s.feasible(g1): out.append(('br', t[0], g1))
                if s.feasible(g2): out.append(('br', t[1], g2))
                return out
            if op == 'switch':
                v = s.val(fr, I.args[0])
                if not is_c(v): v = simp(v)
                if is_c(v):
                    for cv, lbl in I.extra['cases']:
                        if (cv.v & mask(cv.ty.bits)) == v: return [('br', lbl, st.guard)]
                    return [('br', I.extra['default'], st.guard)]
                bits = I.args[0].ty.bits
                out = []; conds = []
                for cv, lbl in I.extra['cases']:
                    c = v == z3.BitVecVal(cv.v, bits); conds.append(c)
                    g = g_and(st.guard, c)
                    if s.feasible(g): out.append(('br', lbl, g))
                g = g_and(st.guard, z3.Not(z3.Or(*conds))) if conds else st.guard
                if s.feasible(g): out.append(('br', I.extra['default'], g))
                # several cases may share a target: merge their guards
                byt = {}
                for k, t_, g in out: byt[t_] = g_or(byt.get(t_, FALSE), g)
                return [('br', t_, g) for t_, g in byt.items()]
            if op == 'ret':
                return [('ret', s.val(fr, I.args[0]) if I.args else None, st.guard)]
            if op == 'unreachable':
                s.fail("rt: 'unreachable' reached in %s" % f.name[:70])
                return None
            if op in ('call', 'invoke'):
                r = s.exec_call(fr, I)
                if s.st is None or s.st.ended:
                    return None
                st = s.st; fr.regs = st.regs
                if I.res is not None and not isinstance(I.ty, VoidT): st.regs[I.res] = r
                if op == 'invoke': return [('br', I.extra['normal'], st.guard)]
                continue
            if op == 'select':
                c = s.val(fr, I.args[0]); a, d = s.val(fr, I.args[1]), s.val(fr, I.args[2])
                if not is_c(c): c = simp(c)
                if is_c(c): st.regs[I.res] = a if c & 1 else d
                else: st.regs[I.res] = s.ite(c == z3.BitVecVal(1, 1), a, d, None if isinstance(a, list) else s.tybits(I.ty))
                continue
            r = s.exec_instr(fr, I, b)
            if r is not None: raise Unsupported('unexpected control transfer from ' + op)
            if s.st.ended: return None
        raise Unsupported('fell off block %s in %s' % (b.name, f.name))

    def exec_call(s, fr, I):
        callee = I.extra['callee']
        site = s.site(fr, I)
        args = [s.val(fr, a) for a in I.args]
        if isinstance(callee, Global):
            return s.call_named(fr, callee.name, I, args, site)
        tv = s.val(fr, callee)
        ps = [(a, c) for (a, c) in s.possible(tv, 'function pointer', site) if s.feasible(g_and(s.st.guard, c))]
        if not ps:
            s.st.ended = True; return None
        base = s.st
        results = []
        for (a, cond) in ps:
            name = s.sc.fname.get(a)
            st = base.fork(g_and(base.guard, cond)) if len(ps) > 1 else base
            s.st = st
            if name is None:
                s.fail('memory: call through invalid function pointer 0x%x at %s' % (a, site))
                continue
            fr2 = type('F', (), {})(); fr2.regs = st.regs; fr2.fn = fr.fn; fr2.block = fr.block; fr2.allocas = fr.allocas
            try:
                r = s.call_named(fr2, name, I, args, site)
            except PathEnd:
                continue
            if s.st is not None and not s.st.ended: results.append((r, s.st))
        if not results:
            s.st = base; base.ended = True
            return None
        rv, out = results[0]
        for (v, st2) in results[1:]:
            if rv is not None or v is not None: rv = s.ite(out.guard, rv, v, None if isinstance(rv, list) else (s.tybits(I.ty) if not isinstance(I.ty, VoidT) else None))
            out = s.merge(out, st2)
        s.st = out
        return rv

    def call_named(s, fr, name, I, args, site):
        if name.startswith('llvm.'):
            return s.intrinsic(fr, name, I, site)
        f = s.sc.mod.funcs.get(name)
        if f is not None and not f.is_decl:
            rv, out = s.call_function(f, args, site)
            if out is None:
                s.st.ended = True
                return None
            s.st = out
            return rv
        try:
            return s.external(fr, name, I, site)
        except PathEnd:
            s.st.ended = True
            return None

    def site(s, fr, I):
        fn = s.callstack[-1] if s.callstack else '?'
        return '%s:%s' % (fn[:60], I.res if I.res is not None else I.op)

    # inherited exec_instr handles the data instructions; alloca must register with the frame list we keep
    def exec_instr(s, fr, I, b):
        if I.op == 'alloca':
            aty = I.extra['alloc_ty']
            n = 1
            if I.args: n = s.concretize(s.val(fr, I.args[0]), s.site(fr, I), 'alloca size')
            base = s.alloca(s.sc.L.size(aty) * n, '%s.%s' % (s.callstack[-1][:40] if s.callstack else '?', I.res))
            fr.allocas.append(base)
            fr.regs[I.res] = base
            return None
        if I.op in ('load', 'store', 'cmpxchg', 'atomicrmw', 'fence'):
            s.st.sched = s.st.sched + 1
            if I.op == 'load':
                fr.regs[I.res] = s.load_typed(s.val(fr, I.args[0]), I.ty, I.extra.get('ordering', 'na'), s.site(fr, I)); return None
            if I.op == 'store':
                s.store_typed(s.val(fr, I.args[1]), I.args[0].ty, s.val(fr, I.args[0]), I.extra.get('ordering', 'na'), s.site(fr, I)); return None
            if I.op == 'fence':
                s.fence(I.extra['ordering'], s.site(fr, I)); return None
            if I.op == 'cmpxchg':
                w = s.sc.L.size(I.args[1].ty)
                old, ok = s.cmpxchg(s.val(fr, I.args[0]), w, s.val(fr, I.args[1]), s.val(fr, I.args[2]), I.extra['ordering'], I.extra['fail_ordering'], s.site(fr, I))
                fr.regs[I.res] = [old, ok]; return None
            w = s.sc.L.size(I.args[1].ty)
            fr.regs[I.res] = s.rmw(s.val(fr, I.args[0]), w, I.extra['rmw'], s.val(fr, I.args[1]), I.extra['ordering'], s.site(fr, I)); return None
        return super().exec_instr(fr, I, b)

    def alloca(s, size, name):
        base = (s.st.stack_ptr + 15) // 16 * 16
        s.st.stack_ptr = base + max(size, 1) + 16
        o = Obj(base, max(size, 1), s.tid, 'stack', name)
        s.sc.add_obj(o); s.st.local_objs[base] = o
        s.st.freed.pop(base, None)
        return base

    def malloc(s, size, name):
        base = (s.st.heap_ptr + 15) // 16 * 16
        s.st.heap_ptr = base + max(size, 1) + 16
        o = Obj(base, max(size, 1), s.tid, 'heap', name)
        s.sc.add_obj(o); s.st.local_objs[base] = o
        return base

    def load_typed(s, p, ty, order, site):
        r = s.sc.L.resolve(ty)
        if isinstance(r, StructT) and not is_c(p):
            raise Unsupported('aggregate load through a symbolic pointer')
        if isinstance(r, StructT):
            return super().load_typed(p, ty, order, site)
        w = s.sc.L.size(ty)
        v = s.load(p, w, order, site)
        if isinstance(r, IntT) and r.bits < w * 8:
            v = v & mask(r.bits) if is_c(v) else simp(z3.Extract(r.bits - 1, 0, v))
        return v

    def store_typed(s, p, ty, v, order, site):
        r = s.sc.L.resolve(ty)
        if isinstance(r, StructT):
            if not is_c(p): raise Unsupported('aggregate store through a symbolic pointer')
            return super().store_typed(p, ty, v, order, site)
        w = s.sc.L.size(ty)
        if isinstance(r, IntT) and r.bits < w * 8 and not is_c(v): v = z3.ZeroExt(w * 8 - r.bits, v)
        s.store_(p, w, v, order, site)

    def do_free(s, p, cond, site):
        sc = s.sc
        g = g_and(s.st.guard, cond)
        if not s.feasible(g): return
        if p == 0: return
        o = s.find_obj(p)
        if o is None or o.base != p or o.kind != 'heap':
            s.fail('memory: delete of a pointer that is not a heap block at %s' % site, cond); return
        if s.mode != 'private': sc.note_access(o, s.tid)
        if s.is_shared(o):
            saved = s.st.guard; s.st.guard = g
            s.new_event(kind='FREE', addr=p, width=0, order='na', site='delete:' + site, obj=p)
            s.st.guard = saved
        else:
            fg = s.st.freed.get(p)
            if fg is not None and s.feasible(g_and(g, fg)): s.fail('memory: double delete at %s' % site, g_and(cond, fg))
            s.st.freed[p] = g_or(fg if fg is not None else FALSE, cond)

    def eptr_ref(s, obj, delta, site):
        """reference count of the exception object behind an exception_ptr (atomic add on the header; last release frees)"""
        saved = s.st.guard
        for (o, cond) in s.possible(obj, 'exception object', site):
            if o == 0: continue
            g = g_and(saved, cond)
            if not s.feasible(g): continue
            s.st.guard = g
            old = s.rmw(o - 32, 8, 'add' if delta > 0 else 'sub', 1, 'acq_rel', site)
            if delta < 0:
                last = (old == 1) if is_c(old) else z3.simplify(bv(old, 64) == z3.BitVecVal(1, 64))
                if isinstance(last, bool): last = z3.BoolVal(last)
                s.do_free(o - 32, last, site)
        s.st.guard = saved

    def external(s, fr, name, I, site):
        args = I.args
        A = lambda i: s.val(fr, args[i])
        sc = s.sc
        if name in ('_ZdlPv', '_ZdaPv', '_ZdlPvm', '_ZdaPvm', 'free'):
            pv = A(0)
            for (p, cond) in s.possible(pv, 'pointer', site):
                s.do_free(p, cond, site)
            return None
        if name in ('_Znwm', '_Znam', 'malloc'):
            n = A(0)
            if not is_c(n):
                ps = [c for (c, cond) in s.possible(n, 'allocation size', site) if s.feasible(g_and(s.st.guard, cond))]
                if not ps: s.st.ended = True; raise PathEnd('infeasible')
                n = max(ps)              # the block is at least as large as any size this path can request
            return s.malloc(n, 'new@' + (s.callstack[-1][:40] if s.callstack else '?'))
        # ---- std::exception_ptr runtime (refcounted header in front of the exception object), cf. rt/rt.h
        if name == '__cxa_allocate_exception':
            n = s.concretize(A(0), site, 'size')
            base = s.malloc(n + 32, 'exception')
            s.priv_store(base, 8, 0) if not s.is_shared(s.find_obj(base)) else s.store_(base, 8, 0, 'na', site)
            return base + 32
        if name == '__cxa_init_primary_exception':
            o = A(0)
            return (o - 32) & MASK64 if is_c(o) else simp(o - 32)
        if name == '__cxa_free_exception':
            o = s.concretize(A(0), site)
            s.do_free(o - 32, TRUE, site)
            return None
        if name == '_ZNSt15__exception_ptr13exception_ptrC1EPv':
            this = A(0); obj = A(1)
            s.store_(this, 8, obj, 'na', site)
            s.eptr_ref(obj, +1, site)
            return None
        if name == '_ZNSt15__exception_ptr13exception_ptr9_M_addrefEv':
            obj = s.load(A(0), 8, 'na', site)
            s.eptr_ref(obj, +1, site)
            return None
        if name == '_ZNSt15__exception_ptr13exception_ptr10_M_releaseEv':
            this = A(0)
            obj = s.load(this, 8, 'na', site)
            s.eptr_ref(obj, -1, site)
            s.store_(this, 8, 0, 'na', site)
            return None
        if name == '_ZNSt9exceptionD2Ev' or name == '_ZNSt9exceptionD1Ev':
            return None
        if name == 'vf_assert':
            c = A(0)
            msg = s.cstring(s.concretize(A(1), site))
            if is_c(c):
                if not c: s.fail(msg)
            else:
                c = simp(c)
                if is_c(c):
                    if not c: s.fail(msg)
                else:
                    s.asserts.append(([s.st.guard], z3.simplify(c != z3.BitVecVal(0, c.size())), msg, s.cur_pos()))
            return None
        if name == 'vf_reach':
            s.asserts.append(([s.st.guard], 'REACH', s.cstring(s.concretize(A(0), site)), s.cur_pos()))
            return None
        if name == 'vf_join':
            return None
        if name == '__CPROVER_assume':
            c = A(0)
            if is_c(c):
                if not c: raise PathEnd('assume-false')
            else:
                cond = z3.simplify(c != z3.BitVecVal(0, c.size()))
                s.st.guard = g_and(s.st.guard, cond)
                if s.mode == 'private': sc.assumes.append(cond)
            return None
        if name == '__assert_fail':
            msg = s.cstring(s.concretize(A(0), site)); fn = s.cstring(s.concretize(A(1), site))
            s.fail('libassert %s:%s: %s' % (fn.split('/')[-1], A(2), msg))
            raise PathEnd('assert-fail')
        if name in ('_ZSt9terminatev', '__cxa_pure_virtual', 'abort'):
            s.fail('rt: std::terminate/abort reached at %s' % site)
            raise PathEnd('terminate')
        return super().external(fr, name, I, site)


def explore_thread(sc, tid, entry, mode):
    r = DagRun(sc, tid, entry, mode)
    r.run()
    evc = {e.key: e for e in r.allev}
    r.constraints_done = r.done_guard
    return [r], evc


def build_scenario(ll_path, nthreads, opts=None, log=None):
    mod = parse_file(ll_path)
    sc = Scenario(mod, nthreads, opts)
    setup = DagRun(sc, 0, 'vf_setup', 'private')
    setup.run()
    if setup.end != 'done' or setup.st is None:
        raise Unsupported('vf_setup ended with %s %s' % (setup.end, [a[2] for a in setup.asserts]))
    if any(a[1] is False for a in setup.asserts):
        raise Unsupported('vf_setup can fail: %s' % [a[2] for a in setup.asserts])
    sc.init_image = dict(setup.st.mem)
    sc.setup_guard = setup.st.guard
    if not z3.is_true(setup.st.guard): sc.assumes.append(setup.st.guard)
    entries = ['vf_thread_%d' % i for i in range(1, nthreads + 1)]
    has_check = 'vf_check' in mod.funcs and not mod.funcs['vf_check'].is_decl
    if has_check: entries.append('vf_check')
    passes = 0
    while True:
        passes += 1
        sc.changed = False
        threads = []
        for i, en in enumerate(entries):
            runs, evc = explore_thread(sc, i + 1, en, 'thread')
            threads.append((en, runs, evc))
        if log: log('pass %d: shared=%d cand-locs=%d events=%s steps=%s feas-checks=%s' % (passes, len(sc.shared), len(sc.cand), [len(t[2]) for t in threads],
                                                                                           [t[1][0].steps for t in threads], [t[1][0].nfeas for t in threads]))
        if not sc.changed: break
        if passes > 14: raise Unsupported('fixpoint not reached')
    sc.passes = passes
    return sc, threads, has_check
