#!/usr/bin/env python3
"""LLVM-14 IR (typed pointers, clang -O1) -> C translation unit for CBMC.

Sequential semantics: atomics become plain accesses, thread_local becomes global.
C++ exceptions are lowered onto a global 'pending exception' flag (see rt.h).
"""
import sys, re, hashlib
from irparse import *

# ------------------------------------------------------------------ naming
def cid(name):
    out = []
    for ch in name:
        if ch.isalnum() or ch == '_':
            out.append(ch)
        elif ch == '.':
            out.append('_D')
        else:
            out.append('_%02X' % ord(ch))
    s = ''.join(out)
    if s[0].isdigit():
        s = '_' + s
    return s


LIBC_NAMES = {'strcmp', 'strlen', 'memcmp', 'memchr', 'pthread_self', 'sched_yield', 'syscall', '__errno_location', 'abort', 'free', 'malloc',
              'pthread_mutex_lock', 'pthread_mutex_unlock', 'pthread_cond_wait', 'pthread_cond_broadcast', 'pthread_cond_signal',
              'pthread_cond_clockwait', 'pthread_cond_timedwait', 'clock_gettime', 'pthread_create', 'pthread_join', 'pthread_detach', 'nanosleep'}
KEEP_NAMES = re.compile(r'^(nondet_\w+|__CPROVER_\w+|vf_\w+)$')


class Emitter:
    def __init__(s, mod, entry_points=None):
        s.m = mod
        s.tnames = {}        # Type -> C type name (string usable as a prefix type)
        s.struct_defs = {}   # cname -> (Type, members)  for emission
        s.struct_order = []
        s.ftypedefs = {}     # FuncT -> name
        s.ft_order = []
        s.out = []
        s.lit_count = 0
        s.attr_nounwind = {g for g, txt in mod.attr_groups.items() if 'nounwind' in txt.split()}
        s.attr_noreturn = {g for g, txt in mod.attr_groups.items() if 'noreturn' in txt.split()}
        # cooperative thread model (C11, rt.h): only modules that create std::threads are affected
        s.thr = THREAD_START in mod.funcs
        s.tls = {g.name for g in mod.globals.values() if g.thread_local and not g.external} if s.thr else set()
        s.may_park = set()
        # atomic-window injection (rt.h RT_ATOMIC_POINT): only modules whose harness arms the hook
        s.ainject = 'vf_ainject_arm' in mod.funcs

    # -------------------------------------------------------------- types
    def resolve(s, ty):
        """NamedT -> its StructT body (or None if opaque)"""
        if isinstance(ty, NamedT):
            return s.m.types.get(ty.name)
        return ty

    def ctype(s, ty):
        if ty in s.tnames:
            return s.tnames[ty]
        r = s._ctype(ty)
        s.tnames[ty] = r
        return r

    def _ctype(s, ty):
        if isinstance(ty, VoidT): return 'void'
        if isinstance(ty, IntT):
            b = ty.bits
            if b <= 8: return 'uint8_t'
            if b <= 16: return 'uint16_t'
            if b <= 32: return 'uint32_t'
            if b <= 64: return 'uint64_t'
            if b <= 128: return 'unsigned __int128'
            raise NotImplementedError(str(ty))
        if isinstance(ty, FloatT):
            return {'float': 'float', 'double': 'double'}.get(ty.name, 'long double')
        if isinstance(ty, PtrT):
            if isinstance(ty.to, VoidT): return 'uint8_t*'
            return s.ctype(ty.to) + '*'
        if isinstance(ty, NamedT):
            nm = 'struct T_' + cid(ty.name)
            s.tnames[ty] = nm
            body = s.m.types.get(ty.name)
            if body is not None:
                s.def_struct(nm, body)
            else:
                s.struct_defs.setdefault(nm, None)
            return nm
        if isinstance(ty, StructT):
            s.lit_count += 1
            nm = 'struct L_%d' % s.lit_count
            s.tnames[ty] = nm
            s.def_struct(nm, ty)
            return nm
        if isinstance(ty, ArrT):
            s.lit_count += 1
            nm = 'struct A_%d' % s.lit_count
            s.tnames[ty] = nm
            s.def_struct(nm, ty)
            return nm
        if isinstance(ty, FuncT):
            if ty in s.ftypedefs: return s.ftypedefs[ty]
            nm = 'FT_%d' % (len(s.ftypedefs) + 1)
            s.ftypedefs[ty] = nm
            # make sure dependencies get names first
            ret = s.ctype(ty.ret)
            ps = [s.ctype(p) for p in ty.params]
            s.ft_order.append((nm, ret, ps, ty.vararg))
            return nm
        if isinstance(ty, (LabelT, MetaT)):
            return 'void'
        raise NotImplementedError(repr(ty))

    def def_struct(s, nm, body):
        if nm in s.struct_defs and s.struct_defs[nm] is not None:
            return
        s.struct_defs[nm] = 'pending'
        if isinstance(body, ArrT):
            el = s.ctype(body.el)
            s.force_complete(body.el)
            members = [('%s a[%d];' % (el, max(body.n, 1)))] if body.n > 0 else ['%s a[];' % el]
            packed = False
        else:
            members = []
            for i, e in enumerate(body.els):
                ct = s.ctype(e)
                s.force_complete(e)
                members.append('%s f%d;' % (ct, i))
            if not body.els:
                members = []
            packed = body.packed
        deps = []
        def byval(ty):
            if isinstance(ty, (NamedT, StructT)): deps.append(s.ctype(ty))
            elif isinstance(ty, ArrT): deps.append(s.ctype(ty))
        if isinstance(body, ArrT): byval(body.el)
        else:
            for e in body.els: byval(e)
        s.struct_defs[nm] = (members, packed, deps)
        s.struct_order.append(nm)

    def force_complete(s, ty):
        # by-value member: its definition must precede ours; ctype() already recursed depth-first
        pass

    # -------------------------------------------------------------- layout (for sizeof in GEP consts etc.)
    def sizeof_align(s, ty):
        ty0 = ty
        ty = s.resolve(ty)
        if isinstance(ty, IntT):
            b = (ty.bits + 7) // 8
            sz = 1
            while sz < b: sz *= 2
            return sz, min(sz, 8) if sz <= 8 else 16
        if isinstance(ty, PtrT): return 8, 8
        if isinstance(ty, FloatT): return {'float': (4, 4), 'double': (8, 8)}.get(ty.name, (16, 16))
        if isinstance(ty, ArrT):
            es, ea = s.sizeof_align(ty.el)
            return es * ty.n, ea
        if isinstance(ty, StructT):
            off = 0; al = 1
            for e in ty.els:
                es, ea = s.sizeof_align(e)
                if ty.packed: ea = 1
                off = (off + ea - 1) // ea * ea
                off += es; al = max(al, ea)
            off = (off + al - 1) // al * al
            return off, al
        if ty is None:
            raise ValueError('sizeof opaque ' + str(ty0))
        raise NotImplementedError(repr(ty))

    # -------------------------------------------------------------- values
    def lname(s, n):
        return 'v_' + cid(n)

    def gname(s, n):
        if KEEP_NAMES.match(n): return n
        if n in LIBC_NAMES: return 'ir_' + n
        if n in s.m.funcs: return cid(n)
        return 'g_' + cid(n)

    def zero(s, ty):
        r = s.resolve(ty)
        if isinstance(r, (IntT,)): return '0'
        if isinstance(r, PtrT): return '((%s)0)' % s.ctype(ty)
        if isinstance(r, FloatT): return '0'
        return '((%s){0})' % s.ctype(ty)

    def val(s, v):
        ty = v.ty
        if isinstance(v, Local):
            if v.name in getattr(s, 'P', ()): return '((uint64_t)(uintptr_t)%s)' % s.lname(v.name)
            return s.lname(v.name)
        if isinstance(v, Global):
            if v.name in s.m.funcs:
                f = s.m.funcs[v.name]
                want = s.ctype(ty) if ty is not None else None
                return '((%s)&%s)' % (want, s.gname(v.name)) if want else '&' + s.gname(v.name)
            if v.name in s.m.aliases:
                return s.val(s.m.aliases[v.name])
            if v.name in s.tls:      # one copy per modelled thread
                return '((%s)&%s[rt_cur])' % (s.ctype(ty), s.gname(v.name))
            return '((%s)&%s)' % (s.ctype(ty), s.gname(v.name))
        if isinstance(v, ConstInt):
            if isinstance(ty, IntT):
                x = v.v & ((1 << ty.bits) - 1)
                if ty.bits > 32: return '%dULL' % x
                return '%dU' % x
            return str(v.v)
        if isinstance(v, ConstNull): return '((%s)0)' % s.ctype(ty)
        if isinstance(v, (ConstUndef, ConstZero)): return s.zero(ty)
        if isinstance(v, ConstExpr): return s.constexpr(v)
        if isinstance(v, ConstAgg):
            r = s.resolve(ty)
            if isinstance(r, ArrT):
                return '((%s){{%s}})' % (s.ctype(ty), ', '.join(s.val(e) for e in v.els))
            return '((%s){%s})' % (s.ctype(ty), ', '.join(s.val(e) for e in v.els))
        if isinstance(v, ConstStr):
            return '((%s){{%s}})' % (s.ctype(ty), ','.join(str(b) for b in v.data))
        if isinstance(v, MetaVal): return '0'
        raise NotImplementedError(repr(v))

    def constexpr(s, v):
        op = v.op
        if op in ('bitcast', 'inttoptr', 'ptrtoint', 'trunc', 'zext', 'addrspacecast'):
            a = v.args[0]
            if op == 'ptrtoint': return '((%s)(uintptr_t)%s)' % (s.ctype(v.ty), s.val(a))
            if op == 'inttoptr': return '((%s)(uintptr_t)%s)' % (s.ctype(v.ty), s.val(a))
            return '((%s)%s)' % (s.ctype(v.ty), s.val(a))
        if op == 'getelementptr':
            expr, rty = s.gep_expr(v.extra, v.args[0], v.args[1:])
            return expr
        if op in ('add', 'sub', 'mul', 'and', 'or', 'xor'):
            c = {'add': '+', 'sub': '-', 'mul': '*', 'and': '&', 'or': '|', 'xor': '^'}[op]
            return '((%s)(%s %s %s))' % (s.ctype(v.args[0].ty), s.val(v.args[0]), c, s.val(v.args[1]))
        if op == 'icmp':
            return s.icmp(v.extra, v.args[0], v.args[1])
        if op == 'select':
            return '(%s ? %s : %s)' % (s.val(v.args[0]), s.val(v.args[1]), s.val(v.args[2]))
        raise NotImplementedError('constexpr ' + op)

    def gep_expr(s, srcty, base, idx):
        """returns (C expr of pointer, resulting IR pointer type)"""
        b = s.val(base)
        cur = srcty
        # first index: pointer arithmetic
        i0 = idx[0]
        if isinstance(i0, ConstInt) and i0.v == 0:
            e = '(*%s)' % b
        else:
            e = '%s[%s]' % (b, s.sidx(i0))
        for ix in idx[1:]:
            r = s.resolve(cur)
            if isinstance(r, StructT):
                k = ix.v
                e = '%s.f%d' % (e, k)
                cur = r.els[k]
            elif isinstance(r, ArrT):
                e = '%s.a[%s]' % (e, s.sidx(ix))
                cur = r.el
            else:
                raise NotImplementedError('gep into ' + str(cur))
        s.ctype(srcty)
        return '(&%s)' % e, PtrT(cur)

    def sidx(s, ix):
        if isinstance(ix, ConstInt):
            v = ix.v
            bits = ix.ty.bits
            if v >= (1 << (bits - 1)): v -= (1 << bits)
            return str(v)
        bits = ix.ty.bits
        return '(int%d_t)%s' % (64 if bits > 32 else 32 if bits > 16 else 16 if bits > 8 else 8, s.val(ix))

    def sval(s, v):
        """operand as signed C expression"""
        bits = v.ty.bits
        cb = 64 if bits > 32 else 32 if bits > 16 else 16 if bits > 8 else 8
        if bits == cb:
            return '((int%d_t)%s)' % (cb, s.val(v))
        # sign extend odd width
        return '((int%d_t)((int%d_t)(%s << %d) >> %d))' % (cb, cb, s.val(v), cb - bits, cb - bits)

    def icmp(s, pred, a, b):
        if isinstance(s.resolve(a.ty), PtrT):
            if pred in ('eq', 'ne'):
                return '((uint8_t)((uint8_t*)%s %s (uint8_t*)%s))' % (s.val(a), '==' if pred == 'eq' else '!=', s.val(b))
            rel = {'ugt': '>', 'uge': '>=', 'ult': '<', 'ule': '<=', 'sgt': '>', 'sge': '>=', 'slt': '<', 'sle': '<='}
            return '((uint8_t)((uint8_t*)%s %s (uint8_t*)%s))' % (s.val(a), rel[pred], s.val(b))
        else:
            av, bv = s.val(a), s.val(b)
            sa = sb = None
        ops = {'eq': '==', 'ne': '!=', 'ugt': '>', 'uge': '>=', 'ult': '<', 'ule': '<='}
        if pred in ops:
            return '((uint8_t)(%s %s %s))' % (av, ops[pred], bv)
        sops = {'sgt': '>', 'sge': '>=', 'slt': '<', 'sle': '<='}
        if sa is None:
            sa, sb = s.sval(a), s.sval(b)
        return '((uint8_t)(%s %s %s))' % (sa, sops[pred], sb)

    def mask(s, ty, e):
        if isinstance(ty, IntT) and ty.bits not in (8, 16, 32, 64, 128):
            return '((%s)((%s) & %dULL))' % (s.ctype(ty), e, (1 << ty.bits) - 1)
        return '((%s)(%s))' % (s.ctype(ty), e)

    # -------------------------------------------------------------- functions
    def may_throw_call(s, I):
        attrs = I.extra.get('attrs', [])
        if 'nounwind' in attrs: return False
        if any(a in s.attr_nounwind for a in attrs): return False
        c = I.extra['callee']
        if isinstance(c, Global) and c.name in s.m.funcs:
            f = s.m.funcs[c.name]
            if 'nounwind' in f.attrs or any(a in s.attr_nounwind for a in f.attrs): return False
            if c.name.startswith('llvm.'): return False
            if KEEP_NAMES.match(c.name): return False
        return True

    def is_noreturn_call(s, I):
        attrs = I.extra.get('attrs', [])
        if 'noreturn' in attrs or any(a in s.attr_noreturn for a in attrs): return True
        c = I.extra['callee']
        if isinstance(c, Global) and c.name in s.m.funcs:
            f = s.m.funcs[c.name]
            if 'noreturn' in f.attrs or any(a in s.attr_noreturn for a in f.attrs): return True
        return False

    def fdecl(s, f, with_names=False):
        ret = s.ctype(f.ret)
        ps = []
        if '__dummy_resume_destroy' in f.name and not f.params:
            return '%s %s(uint8_t* unused_)' % (ret, s.gname(f.name))
        for p in f.params:
            ps.append(s.ctype(p.ty) + (' ' + s.lname(p.name) if with_names else ''))
        if f.vararg and ps: ps.append('...')
        if not ps and not f.vararg: ps = ['void']
        return '%s %s(%s)' % (ret, s.gname(f.name), ', '.join(ps))

    def emit_function(s, f):
        L = []
        w = L.append
        # collect locals + types
        ltypes = {}
        for p in f.params:
            ltypes[p.name] = p.ty
        for b in f.blocks:
            for I in b.instrs:
                if I.res is not None:
                    ltypes[I.res] = s.result_type(I, ltypes)
                    I.ty = ltypes[I.res]
        # annotate Local operand types (parser gives them already via explicit types)
        s.P = set()
        s.defs = {}
        for b in f.blocks:
            for I in b.instrs:
                if I.res is not None: s.defs[I.res] = I
        s.P, s.asptr = s.infer_ptrlike(f)
        cx_ptr = set()
        for b in f.blocks:
            for I in b.instrs:
                if I.op == 'cmpxchg' and id(I) in s.asptr: cx_ptr.add(I.res)
        ch_ = True
        while ch_:
            ch_ = False
            for b in f.blocks:
                for I in b.instrs:
                    if I.op == 'phi' and I.res not in cx_ptr and any(isinstance(v, Local) and v.name in cx_ptr for v, _ in I.extra['incoming']):
                        cx_ptr.add(I.res); ch_ = True
        s.cx_ptr = cx_ptr
        w(s.fdecl(f, True) + ' {')
        pnames = {p.name for p in f.params}
        for n, ty in ltypes.items():
            if n in pnames: continue
            if isinstance(ty, VoidT): continue
            if n in s.P: w('  uint8_t* %s;' % s.lname(n))
            elif n in cx_ptr: w('  struct rt_cx_ptr %s;' % s.lname(n))
            else: w('  %s %s;' % (s.ctype(ty), s.lname(n)))
        # phi temporaries
        phis = {}
        for b in f.blocks:
            for I in b.instrs:
                if I.op == 'phi':
                    phis.setdefault(b.name, []).append(I)
                    w('  %s %s_phi;' % ('uint8_t*' if I.res in s.P else 'struct rt_cx_ptr' if I.res in cx_ptr else s.ctype(I.ty), s.lname(I.res)))
        retzero = '' if isinstance(f.ret, VoidT) else ' ' + s.zero(f.ret)
        allocas = 0
        s.alloc_types = s.infer_alloc_types(f)

        def jump(frm, to):
            out = []
            for P in phis.get(to, []):
                for (v, lbl) in P.extra['incoming']:
                    if lbl == frm:
                        out.append('%s_phi = %s;' % (s.lname(P.res), s.pval(v) if P.res in s.P else s.val(v)))
                        break
                else:
                    raise ValueError(f'phi in {to} has no incoming from {frm} in {f.name}')
            out.append('goto B_%s;' % cid(to))
            return ' '.join(out)

        for b in f.blocks:
            w(' B_%s: ;' % cid(b.name))
            for P in phis.get(b.name, []):
                w('  %s = %s_phi;' % (s.lname(P.res), s.lname(P.res)))
            for I in b.instrs:
                op = I.op
                if op == 'phi':
                    continue
                res = s.lname(I.res) if I.res is not None else None
                if s.ainject and (op in ('cmpxchg', 'atomicrmw') or (op in ('load', 'store') and 'ordering' in I.extra)):
                    w('  RT_ATOMIC_POINT();')
                if op in BINOPS:
                    a, bb = I.args
                    ty = I.ty
                    cops = {'add': '+', 'sub': '-', 'mul': '*', 'and': '&', 'or': '|', 'xor': '^', 'shl': '<<', 'lshr': '>>',
                            'udiv': '/', 'urem': '%'}
                    if op == 'sub' and s.is_plike(a) and s.is_plike(bb):
                        # equal pointers (in particular NULL - NULL of an empty std::vector) must fold to 0: cbmc does not simplify NULL - NULL
                        w('  %s = (%s == %s) ? (uint64_t)0 : (uint64_t)(%s - %s);' % (res, s.pval(a), s.pval(bb), s.pval(a), s.pval(bb)))
                    elif op in cops:
                        w('  %s = %s;' % (res, s.mask(ty, '%s %s %s' % (s.val(a), cops[op], s.val(bb)))))
                    elif op == 'ashr':
                        w('  %s = %s;' % (res, s.mask(ty, '%s >> %s' % (s.sval(a), s.val(bb)))))
                    elif op == 'sdiv':
                        w('  %s = %s;' % (res, s.mask(ty, '%s / %s' % (s.sval(a), s.sval(bb)))))
                    elif op == 'srem':
                        w('  %s = %s;' % (res, s.mask(ty, '%s %% %s' % (s.sval(a), s.sval(bb)))))
                    else:
                        raise NotImplementedError(op)
                elif op in CASTOPS:
                    v = I.args[0]
                    if op == 'sext':
                        w('  %s = %s;' % (res, s.mask(I.ty, '(int64_t)' + s.sval(v))))
                    elif op == 'ptrtoint' and I.res in s.P:
                        w('  %s = (uint8_t*)%s;' % (res, s.val(v)))
                    elif op == 'inttoptr' and (s.is_plike(v)):
                        w('  %s = (%s)%s;' % (res, s.ctype(I.ty), s.pval(v)))
                    elif op in ('ptrtoint', 'inttoptr'):
                        w('  %s = (%s)(uintptr_t)%s;' % (res, s.ctype(I.ty), s.val(v)))
                    elif op in ('zext', 'trunc'):
                        w('  %s = %s;' % (res, s.mask(I.ty, s.val(v))))
                    else:
                        w('  %s = (%s)%s;' % (res, s.ctype(I.ty), s.val(v)))
                elif op == 'icmp' and I.extra['pred'] in ('eq', 'ne') and (s.is_plike(I.args[0]) != s.is_plike(I.args[1])) \
                        and isinstance(I.args[0], Local) and isinstance(I.args[1], Local):
                    # an integer kept in a pointer-typed cell (union { T *a[3]; struct { T **p; size_t n; }; }, suspend_point) compared with a
                    # genuine integer: cbmc folds (uintptr_t)(uint8_t*)6ul == 4ul but not (uint8_t*)6ul == (uint8_t*)4ul
                    pa, pb = [('(uint64_t)(uintptr_t)' + s.pval(x)) if s.is_plike(x) else s.val(x) for x in I.args[:2]]
                    w('  %s = (uint8_t)(%s %s %s);' % (res, pa, '==' if I.extra['pred'] == 'eq' else '!=', pb))
                elif op == 'icmp' and I.extra['pred'] in ('eq', 'ne') and (s.is_plike(I.args[0]) or s.is_plike(I.args[1])):
                    w('  %s = (uint8_t)(%s %s %s);' % (res, s.pval(I.args[0]), '==' if I.extra['pred'] == 'eq' else '!=', s.pval(I.args[1])))
                elif op == 'icmp':
                    w('  %s = %s;' % (res, s.icmp(I.extra['pred'], I.args[0], I.args[1])))
                elif op == 'alloca':
                    allocas += 1
                    aty = I.extra['alloc_ty']
                    if I.args:
                        w('  %s = (%s)__builtin_alloca(%s * %d);' % (res, s.ctype(I.ty), s.val(I.args[0]), s.sizeof_align(aty)[0]))
                    else:
                        w('  static_assert_dummy: ;') if False else None
                        w('  %s = &%s_mem;' % (res, res))
                        L.insert(1, '  %s %s_mem;' % (s.ctype(aty), res))
                elif op == 'load' and id(I) in s.asptr:
                    w('  RT_CHK(%s, 8); %s = *(uint8_t**)%s;' % (s.val(I.args[0]), res, s.val(I.args[0])))
                elif op == 'load':
                    w('  RT_CHK(%s, %d); %s = *%s;' % (s.val(I.args[0]), s.sizeof_align(I.ty)[0], res, s.val(I.args[0])))
                elif op == 'store' and id(I) in s.asptr:
                    w('  RT_CHK(%s, 8); *(uint8_t**)%s = %s;' % (s.val(I.args[1]), s.val(I.args[1]), s.pval(I.args[0])))
                elif op == 'store':
                    w('  RT_CHK(%s, %d); *%s = %s;' % (s.val(I.args[1]), s.sizeof_align(I.args[0].ty)[0], s.val(I.args[1]), s.val(I.args[0])))
                elif op == 'fence':
                    w('  ;')
                elif op == 'cmpxchg' and id(I) in s.asptr:
                    p, c, n = I.args
                    w('  RT_CHK(%s, 8);' % s.val(p))      # atomic accesses are guarded like plain loads/stores
                    w('  { uint8_t* old_ = *(uint8_t**)%s; %s.f0 = old_; %s.f1 = (old_ == %s); if (%s.f1) *(uint8_t**)%s = %s; }' %
                      (s.val(p), res, res, s.pval(c), res, s.val(p), s.pval(n)))
                elif op == 'atomicrmw' and id(I) in s.asptr:
                    p, v = I.args
                    w('  RT_CHK(%s, 8); %s = *(uint8_t**)%s; *(uint8_t**)%s = %s;' % (s.val(p), res, s.val(p), s.val(p), s.pval(v)))
                elif op == 'cmpxchg':
                    p, c, n = I.args
                    w('  RT_CHK(%s, %d);' % (s.val(p), s.sizeof_align(c.ty)[0]))
                    w('  { %s old_ = *%s; %s.f0 = old_; %s.f1 = (old_ == %s); if (%s.f1) *%s = %s; }' %
                      (s.ctype(c.ty), s.val(p), res, res, s.val(c), res, s.val(p), s.val(n)))
                elif op == 'atomicrmw':
                    p, v = I.args
                    k = I.extra['rmw']
                    w('  RT_CHK(%s, %d); %s = *%s;' % (s.val(p), s.sizeof_align(I.ty)[0], res, s.val(p)))
                    e = {'xchg': '%s' % s.val(v), 'add': '%s + %s' % (res, s.val(v)), 'sub': '%s - %s' % (res, s.val(v)),
                         'and': '%s & %s' % (res, s.val(v)), 'or': '%s | %s' % (res, s.val(v)), 'xor': '%s ^ %s' % (res, s.val(v))}[k]
                    w('  *%s = %s;' % (s.val(p), s.mask(I.ty, e)))
                elif op == 'getelementptr':
                    e, rty = s.gep_expr(I.extra['src_ty'], I.args[0], I.args[1:])
                    w('  %s = %s;' % (res, e))
                elif op == 'select' and I.res in s.P:
                    w('  %s = %s ? %s : %s;' % (res, s.val(I.args[0]), s.pval(I.args[1]), s.pval(I.args[2])))
                elif op == 'select':
                    w('  %s = %s ? %s : %s;' % (res, s.val(I.args[0]), s.val(I.args[1]), s.val(I.args[2])))
                elif op == 'freeze':
                    w('  %s = %s;' % (res, s.val(I.args[0])))
                elif op == 'br':
                    t = I.extra['targets']
                    if len(t) == 1:
                        w('  ' + jump(b.name, t[0]))
                    else:
                        w('  if (%s) { %s } else { %s }' % (s.val(I.args[0]), jump(b.name, t[0]), jump(b.name, t[1])))
                elif op == 'switch':
                    w('  switch (%s) {' % s.val(I.args[0]))
                    for cv, lbl in I.extra['cases']:
                        w('   case %s: { %s }' % (s.val(cv), jump(b.name, lbl)))
                    w('   default: { %s }' % jump(b.name, I.extra['default']))
                    w('  }')
                elif op == 'ret':
                    if I.args: w('  return %s;' % s.val(I.args[0]))
                    else: w('  return;')
                elif op == 'unreachable':
                    w('  rt_unreachable(); return%s;' % retzero)
                elif op == 'resume':
                    w('  rt_resume_unwind(%s.f0); return%s;' % (s.val(I.args[0]), retzero))
                elif op == 'landingpad':
                    cl = I.extra['clauses']
                    tis = []; ids = []
                    for kind, cv in cl:
                        if kind != 'catch': raise NotImplementedError('filter clause')
                        tis.append('(void*)' + s.val(cv))
                        ids.append(str(s.ti_id(cv)))
                    w('  { void *cl_[%d] = {%s}; uint32_t ids_[%d] = {%s}; %s.f0 = (uint8_t*)rt_landing(&%s.f1, %d, cl_, ids_, %d); }' %
                      (max(1, len(tis)), ', '.join(tis) if tis else '0', max(1, len(ids)), ', '.join(ids) if ids else '0', res, res, len(tis), 1 if I.extra['cleanup'] else 0))
                    w('  if (%s.f1 == 0xffffffffU) { rt_exc_pending = 1; return%s; }' % (res, retzero))
                elif op == 'extractvalue' and isinstance(I.args[0], Local) and I.args[0].name in cx_ptr:
                    w('  %s = %s.f%d;' % (res, s.lname(I.args[0].name), I.extra['idx'][0]))
                elif op == 'extractvalue':
                    e = s.val(I.args[0]); cur = I.args[0].ty
                    for k in I.extra['idx']:
                        r = s.resolve(cur)
                        if isinstance(r, StructT): e += '.f%d' % k; cur = r.els[k]
                        else: e += '.a[%d]' % k; cur = r.el
                    w('  %s = %s;' % (res, e))
                elif op == 'insertvalue':
                    w('  %s = %s;' % (res, s.val(I.args[0])))
                    e = res; cur = I.ty
                    for k in I.extra['idx']:
                        r = s.resolve(cur)
                        if isinstance(r, StructT): e += '.f%d' % k; cur = r.els[k]
                        else: e += '.a[%d]' % k; cur = r.el
                    w('  %s = %s;' % (e, s.val(I.args[1])))
                elif op in ('call', 'invoke'):
                    s.emit_call(f, b, I, w, jump, retzero)
                else:
                    raise NotImplementedError(op)
        w('}')
        return '\n'.join(x for x in L if x is not None)

    def infer_ptrlike(s, f):
        """i64 SSA values that carry pointers (clang lowers std::atomic<T*> to i64 atomics).
        Returns (P, asptr): P = set of local names represented as uint8_t*; asptr = set of id(instr) accessed as pointer cells."""
        defs = {}
        uses = {}
        for b in f.blocks:
            for I in b.instrs:
                if I.res is not None: defs[I.res] = I
                ops = list(I.args)
                if I.op == 'phi': ops = [v for v, _ in I.extra['incoming']]
                for a in ops:
                    if isinstance(a, Local): uses.setdefault(a.name, []).append(I)
        def is_i64(ty): return isinstance(ty, IntT) and ty.bits == 64
        def cell_is_ptr(a):
            # address operand defined by bitcast X** -> i64*
            if isinstance(a, Local) and a.name in defs:
                d = defs[a.name]
                if d.op == 'bitcast' and isinstance(d.args[0].ty, PtrT) and isinstance(s.resolve(d.args[0].ty.to), PtrT):
                    return True
                if d.op == 'getelementptr':
                    return False
            if isinstance(a, ConstExpr) and a.op == 'bitcast' and isinstance(a.args[0].ty, PtrT) and isinstance(s.resolve(a.args[0].ty.to), PtrT):
                return True
            return False
        P = set(); asptr = set()
        def plike(v):
            if isinstance(v, Local): return v.name in P
            if isinstance(v, ConstExpr) and v.op == 'ptrtoint': return True
            return False
        def plike_or_const(v):
            return plike(v) or isinstance(v, (ConstInt, ConstNull, ConstUndef))
        changed = True
        while changed:
            changed = False
            for b in f.blocks:
                for I in b.instrs:
                    add = False
                    if I.op == 'ptrtoint' and is_i64(I.ty): add = True
                    elif I.op == 'load' and is_i64(I.ty):
                        if cell_is_ptr(I.args[0]) or any(u.op == 'inttoptr' for u in uses.get(I.res, [])):
                            add = True; asptr.add(id(I))
                    elif I.op == 'atomicrmw' and I.extra['rmw'] == 'xchg' and is_i64(I.ty):
                        if cell_is_ptr(I.args[0]) or plike(I.args[1]) or any(u.op == 'inttoptr' for u in uses.get(I.res, [])):
                            add = True; asptr.add(id(I))
                    elif I.op == 'cmpxchg' and is_i64(I.args[1].ty):
                        if cell_is_ptr(I.args[0]) or plike(I.args[1]) or plike(I.args[2]):
                            if id(I) not in asptr: asptr.add(id(I)); changed = True
                    elif I.op == 'store' and is_i64(I.args[0].ty):
                        if cell_is_ptr(I.args[1]) or plike(I.args[0]):
                            if id(I) not in asptr: asptr.add(id(I)); changed = True
                    elif I.op == 'extractvalue' and isinstance(I.args[0], Local) and I.args[0].name in defs and I.extra['idx'] == [0] \
                            and s.cx_source(defs, I.args[0].name, asptr, set()):
                        add = True
                    elif I.op == 'phi' and is_i64(I.ty):
                        inc = [v for v, _ in I.extra['incoming']]
                        if any(plike(v) for v in inc) and all(plike_or_const(v) or (isinstance(v, Local) and v.name == I.res) for v in inc):
                            add = True
                    elif I.op == 'select' and is_i64(I.ty):
                        if any(plike(v) for v in I.args[1:]) and all(plike_or_const(v) for v in I.args[1:]):
                            add = True
                    if add and I.res not in P:
                        P.add(I.res); changed = True
        return P, asptr

    def cx_source(s, defs, name, asptr, seen):
        if name in seen or name not in defs: return False
        seen.add(name)
        d = defs[name]
        if d.op == 'cmpxchg': return id(d) in asptr
        if d.op == 'phi':
            return any(isinstance(v, Local) and s.cx_source(defs, v.name, asptr, seen) for v, _ in d.extra['incoming'])
        return False

    def pval(s, v):
        """operand of IR type i64 as a C uint8_t* expression"""
        if isinstance(v, Local):
            if v.name in s.P: return s.lname(v.name)
            return '((uint8_t*)(uintptr_t)%s)' % s.lname(v.name)
        if isinstance(v, ConstExpr) and v.op == 'ptrtoint':
            return '((uint8_t*)%s)' % s.val(v.args[0])
        if isinstance(v, (ConstNull, ConstUndef, ConstZero)): return '((uint8_t*)0)'
        if isinstance(v, ConstInt): return '((uint8_t*)(uintptr_t)%dULL)' % v.v
        return '((uint8_t*)(uintptr_t)%s)' % s.val(v)

    def is_plike(s, v):
        if isinstance(v, Local): return v.name in s.P
        return isinstance(v, ConstExpr) and v.op == 'ptrtoint'

    def infer_alloc_types(s, f):
        """operator new result -> IR element type the block is used as (for typed malloc in CBMC)"""
        news = {}
        for b in f.blocks:
            for I in b.instrs:
                if I.op in ('call', 'invoke') and isinstance(I.extra['callee'], Global) and I.extra['callee'].name in ('_Znwm', '_Znam') and I.res:
                    news[I.res] = None
        if not news: return news
        casts = {}     # local -> (src new local)
        # a phi that merges exactly one operator-new block with other storage (cocls::stack_storage::alloc inlined into a coroutine
        # ramp: alloca'd buffer or `new char[frame+1]`) is an alias of that block for the purpose of finding the frame type
        alias = {}
        for b in f.blocks:
            for I in b.instrs:
                if I.op == 'phi' and I.res:
                    srcs = [v.name for v, _ in I.extra['incoming'] if isinstance(v, Local) and v.name in news]
                    if len(srcs) == 1: alias[I.res] = srcs[0]
        for b in f.blocks:
            for I in b.instrs:
                if I.op == 'bitcast' and isinstance(I.args[0], Local) and I.args[0].name in alias and I.args[0].name not in news \
                        and isinstance(I.ty, PtrT) and isinstance(I.ty.to, PtrT) and isinstance(I.ty.to.to, FuncT):
                    casts[I.res] = (alias[I.args[0].name], None)      # only used by the `store @X.resume` rule below
        for b in f.blocks:
            for I in b.instrs:
                if I.op == 'bitcast' and isinstance(I.args[0], Local) and I.args[0].name in news:
                    src = I.args[0].name
                    to = I.ty.to if isinstance(I.ty, PtrT) else None
                    casts[I.res] = (src, to)
        # coroutine frame: store @X.resume through a cast of the block
        for b in f.blocks:
            for I in b.instrs:
                if I.op == 'store' and isinstance(I.args[0], Global) and I.args[0].name.endswith('.resume') \
                        and isinstance(I.args[1], Local) and I.args[1].name in casts:
                    src = casts[I.args[1].name][0]
                    fn = s.m.funcs.get(I.args[0].name)
                    if fn and fn.params and isinstance(fn.params[0].ty, PtrT) and news[src] is None:
                        news[src] = fn.params[0].ty.to
        # stored into a typed slot: store i8* %new, i8** (bitcast T** %slot)
        bc = {}
        for b in f.blocks:
            for I in b.instrs:
                if I.op == 'bitcast' and I.res: bc[I.res] = I
        for b in f.blocks:
            for I in b.instrs:
                if I.op == 'store' and isinstance(I.args[0], Local) and I.args[0].name in news and news[I.args[0].name] is None \
                        and isinstance(I.args[1], Local) and I.args[1].name in bc:
                    sty = bc[I.args[1].name].args[0].ty      # T**
                    if isinstance(sty, PtrT) and isinstance(sty.to, PtrT) and not (isinstance(sty.to.to, IntT) and sty.to.to.bits == 8):
                        try:
                            s.sizeof_align(sty.to.to); news[I.args[0].name] = sty.to.to
                        except Exception: pass
        for res, (src, to) in casts.items():
            if news[src] is None and to is not None and not (isinstance(to, IntT) and to.bits == 8) and not isinstance(to, FuncT):
                try:
                    s.sizeof_align(to)
                    news[src] = to
                except Exception:
                    pass
        # block only ever used as i8* but filled by memcpy/memmove from a typed array (std::copy into `new T*[n]` whose
        # address is then stored into an i8* slot, e.g. suspend_point::add's regrowth): element type of the source
        for b in f.blocks:
            for I in b.instrs:
                if I.op in ('call', 'invoke') and isinstance(I.extra.get('callee'), Global) \
                        and (I.extra['callee'].name.startswith('llvm.memcpy') or I.extra['callee'].name.startswith('llvm.memmove')) \
                        and isinstance(I.args[0], Local) and I.args[0].name in news and news[I.args[0].name] is None:
                    try:
                        t0 = s.origin_type(I.args[1])
                        r = s.resolve(t0) if t0 is not None else None
                        while isinstance(r, ArrT):
                            t0 = r.el; r = s.resolve(t0)
                        if isinstance(r, PtrT) or (isinstance(r, IntT) and r.bits > 8):
                            s.sizeof_align(t0); news[I.args[0].name] = t0
                    except Exception:
                        pass
        return news

    def result_type(s, I, ltypes):
        if I.op == 'getelementptr':
            cur = I.extra['src_ty']
            for ix in I.args[2:]:
                r = s.resolve(cur)
                if isinstance(r, StructT): cur = r.els[ix.v]
                elif isinstance(r, ArrT): cur = r.el
                else: raise NotImplementedError('gep type')
            return PtrT(cur)
        if I.op == 'extractvalue':
            cur = I.args[0].ty
            for k in I.extra['idx']:
                r = s.resolve(cur)
                cur = r.els[k] if isinstance(r, StructT) else r.el
            return cur
        return I.ty

    INTRINSIC_IGNORE = ('llvm.lifetime.', 'llvm.invariant.', 'llvm.experimental.noalias', 'llvm.dbg.', 'llvm.assume',
                        'llvm.donothing')

    def emit_call(s, f, b, I, w, jump, retzero):
        callee = I.extra['callee']
        res = s.lname(I.res) if I.res is not None and not isinstance(I.ty, VoidT) else None
        args = I.args
        name = callee.name if isinstance(callee, Global) else None
        done = False
        if name and name.startswith(s.INTRINSIC_IGNORE):
            done = True
        elif name and (name.startswith('llvm.memcpy') or name.startswith('llvm.memmove')):
            tc = s.typed_copy(args[0], args[1], args[2], name.startswith('llvm.memmove'))
            if tc: w(tc)
            else: w('  %s(%s, %s, %s);' % ('memmove' if 'memmove' in name else 'memcpy', s.val(args[0]), s.val(args[1]), s.val(args[2])))
            done = True
        elif name and name.startswith('llvm.memset'):
            ts = s.typed_set(args[0], args[1], args[2])
            if ts: w(ts)
            else: w('  memset(%s, %s, %s);' % (s.val(args[0]), s.val(args[1]), s.val(args[2])))
            done = True
        elif name and re.match(r'llvm\.(umax|umin)\.', name):
            o = '>' if 'umax' in name else '<'
            w('  %s = (%s %s %s) ? %s : %s;' % (res, s.val(args[0]), o, s.val(args[1]), s.val(args[0]), s.val(args[1]))); done = True
        elif name and re.match(r'llvm\.(smax|smin)\.', name):
            o = '>' if 'smax' in name else '<'
            w('  %s = (%s %s %s) ? %s : %s;' % (res, s.sval(args[0]), o, s.sval(args[1]), s.val(args[0]), s.val(args[1]))); done = True
        elif name and name.startswith('llvm.expect'):
            w('  %s = %s;' % (res, s.val(args[0]))); done = True
        elif name == 'llvm.trap':
            w('  rt_trap();'); done = True
        elif name and name.startswith('llvm.x86.sse2.pause'):
            done = True
        elif name and name.startswith('llvm.eh.typeid.for'):
            w('  %s = %dU;' % (res, s.ti_id(args[0]))); done = True
        elif name and re.match(r'llvm\.(u|s)(mul|add|sub)\.with\.overflow', name):
            m = re.match(r'llvm\.(u|s)(mul|add|sub)\.with\.overflow', name)
            bi = '__builtin_%s_overflow' % m.group(2)
            ct = s.ctype(args[0].ty)
            if m.group(1) == 's': ct = ct.replace('uint', 'int')
            w('  { %s r_; %s.f1 = %s((%s)%s, (%s)%s, &r_); %s.f0 = r_; }' % (ct, res, bi, ct, s.val(args[0]), ct, s.val(args[1]), res)); done = True
        elif name and name.startswith('llvm.'):
            raise NotImplementedError('intrinsic ' + name)
        elif name == '__CPROVER_assert':
            d = s.defs.get(args[1].name) if isinstance(args[1], Local) else None
            if d is not None and d.op == 'select' and s.string_of(d.args[1]) != '?' and s.string_of(d.args[2]) != '?':
                # clang merged two assertions that differ only in their text: keep both texts apart
                w('  if (%s) __CPROVER_assert(%s, "%s"); else __CPROVER_assert(%s, "%s");' %
                  (s.val(d.args[0]), s.val(args[0]), s.string_of(d.args[1]), s.val(args[0]), s.string_of(d.args[2])))
            elif d is not None and d.op == 'phi' and all(s.string_of(v) != '?' for (v, _) in d.extra['incoming']):
                w('  __CPROVER_assert(%s, "%s");' % (s.val(args[0]), ' | '.join(sorted(set(s.string_of(v) for (v, _) in d.extra['incoming'])))))
            else:
                msg = s.string_of(args[1])
                w('  __CPROVER_assert(%s, "%s");' % (s.val(args[0]), msg))
            done = True
        elif name == '__CPROVER_assume':
            w('  __CPROVER_assume(%s);' % s.val(args[0])); done = True
        elif name == '__assert_fail':
            msg = s.string_of(args[0]); fn = s.string_of(args[1])
            w('  __CPROVER_assert(0, "libassert %s:%s: %s");' % (fn.split('/')[-1], s.val(args[2]).rstrip('U'), msg.replace('"', "'").replace('\\', '')))
            w('  __CPROVER_assume(0);'); done = True
        elif name == '_ZSt21__glibcxx_assert_failPKciS0_S0_':
            # libstdc++ container / iterator precondition (-D_GLIBCXX_ASSERTIONS): std::__glibcxx_assert_fail(file, line, function, condition)
            fn = s.string_of(args[0]); cond = s.string_of(args[3])
            w('  __CPROVER_assert(0, "libstdc++ assertion %s:%s: %s");' % (fn.split('/')[-1], s.val(args[1]).rstrip('U'), cond.replace('"', "'").replace('\\', '')))
            w('  __CPROVER_assume(0);'); done = True
        if not done and name in EXT_MODELS and name in s.m.funcs and s.m.funcs[name].vararg:
            rtf, k = EXT_MODELS[name]
            al = []
            for a in args[:k]:
                al.append(('(void*)' if isinstance(s.resolve(a.ty), PtrT) else '(long)') + s.val(a))
            call = '%s(%s)' % (rtf, ', '.join(al))
            if res: w('  %s = (%s)%s;' % (res, s.ctype(I.ty), call))
            else: w('  %s;' % call)
            done = True
        newfail = name in ('_Znwm', '_Znam') and 'vf_new_fail_at' in s.m.funcs
        if newfail:
            w('  if (rt_new_fails()) { rt_throw_bad_alloc(); %s } else {' % (('%s = 0;' % res) if res else ''))
        if not done and name in ('_Znwm', '_Znam') and I.res and s.alloc_types.get(I.res) is not None:
            ety = s.alloc_types[I.res]
            esz = s.sizeof_align(ety)[0]
            ct = s.ctype(ety)
            if isinstance(args[0], ConstInt) and esz and args[0].v % esz == 0:
                k_ = args[0].v // esz
                if k_ == 1: w('  %s = (uint8_t*)malloc(sizeof(%s)); rt_new_note(%s, %s);' % (res, ct, res, s.val(args[0])))
                else: w('  %s = (uint8_t*)malloc(sizeof(%s) * %d); rt_new_note(%s, %s);' % (res, ct, k_, res, s.val(args[0])))
            elif isinstance(args[0], ConstInt) and esz and args[0].v > esz and args[0].v < 2 * esz:
                # one T followed by a few trailing bytes (stack_storage's "heap allocated" flag byte behind a coroutine frame)
                w('  %s = (uint8_t*)malloc(sizeof(struct { %s a_; uint8_t pad_[%d]; })); rt_new_note(%s, %s);' % (res, ct, args[0].v - esz, res, s.val(args[0])))
            elif esz:
                w('  %s = (uint8_t*)malloc(sizeof(%s) * (%s / %d)); rt_new_note(%s, %s);' % (res, ct, s.val(args[0]), esz, res, s.val(args[0])))
            done = True
        if not done:
            fty = FuncT(I.ty, tuple(a.ty for a in args), False)
            direct = False
            if name and name in s.m.funcs:
                fn = s.m.funcs[name]
                if not fn.vararg and fn.fty == fty:
                    direct = True
            if direct:
                ce = s.gname(name)
            else:
                if 'fty' in I.extra:
                    fty = I.extra['fty']
                cv = s.val(callee) if not (name and name in s.m.funcs) else '&' + s.gname(name)
                ce = '((%s*)%s)' % (s.ctype(fty), cv)
            call = '%s(%s)' % (ce, ', '.join(s.val(a) for a in args))
            if res: w('  %s = %s;' % (res, call))
            else: w('  %s;' % call)
            if res and name and name.startswith('nondet_'): w('  RT_ND(%s);' % res)
        if newfail:
            w('  }')
            if I.op != 'invoke': w('  if (rt_exc_pending) return%s;' % retzero)
        if name is not None and (name == COND_WAIT or name in s.may_park):
            # the modelled thread parked in condition_variable::wait: leave every frame up to rt_thread_run without running
            # landing pads (the wait released the mutex; std::unique_lock's destructor must not run)
            w('  if (rt_parking) return%s;' % retzero)
        if I.op == 'invoke':
            w('  if (rt_exc_pending) { %s } else { %s }' % (jump(b.name, I.extra['unwind']), jump(b.name, I.extra['normal'])))
        else:
            if not done and s.may_throw_call(I):
                w('  if (rt_exc_pending) return%s;' % retzero)

    def ti_id(s, v):
        """concrete selector value for a typeinfo operand (catch clause / llvm.eh.typeid.for); 0x7fffff = catch(...)"""
        g = v
        while isinstance(g, ConstExpr) and g.op in ('bitcast', 'getelementptr'): g = g.args[0]
        if isinstance(g, (ConstNull, ConstZero)): return 0x7fffff
        if not isinstance(g, Global): raise NotImplementedError('typeinfo operand ' + repr(v))
        if not hasattr(s, 'ti_ids'): s.ti_ids = {}
        return s.ti_ids.setdefault(g.name, len(s.ti_ids) + 1)

    # ---- typed memcpy/memmove: byte copies destroy CBMC's constant propagation of pointers / indices
    def origin_type(s, v):
        """pointee type an i8* operand was cast from, or None"""
        if isinstance(v, Local) and v.name in s.defs:
            d = s.defs[v.name]
            if d.op == 'bitcast' and isinstance(d.args[0].ty, PtrT):
                t = d.args[0].ty.to
                if not (isinstance(t, IntT) and t.bits == 8): return t
            if d.op == 'getelementptr' and isinstance(d.ty, PtrT) and not (isinstance(d.ty.to, IntT) and d.ty.to.bits == 8):
                return d.ty.to
        if isinstance(v, ConstExpr) and v.op == 'bitcast' and isinstance(v.args[0].ty, PtrT):
            return v.args[0].ty.to
        return None

    def leaves(s, ty, n, off=0, out=None):
        """scalar leaves (offset, kind, size) of the first n bytes of ty; None if n cuts a scalar"""
        if out is None: out = []
        r = s.resolve(ty)
        if r is None: return None
        sz = s.sizeof_align(ty)[0]
        if isinstance(r, (IntT, PtrT, FloatT)):
            if n < sz: return None
            out.append((off, 'p' if isinstance(r, PtrT) else 'i', sz)); return out
        if isinstance(r, ArrT):
            es = s.sizeof_align(r.el)[0]
            o = 0
            for k in range(r.n):
                if o >= n: break
                if s.leaves(r.el, min(es, n - o), off + o, out) is None: return None
                o += es
            return out
        if isinstance(r, StructT):
            o = 0
            for e in r.els:
                es, ea = s.sizeof_align(e)
                if r.packed: ea = 1
                o = (o + ea - 1) // ea * ea
                if o >= n: break
                if s.leaves(e, min(es, n - o), off + o, out) is None: return None
                o += es
            return out
        return None

    def enclosing_member(s, v):
        """(outer struct type, byte offset) when v is (a bitcast of) a constant-index GEP `gep %T* %p, 0, i, j, ...`; else None.
        Nested constant GEPs are followed outwards as long as the covered type grows."""
        try:
            d = s.defs.get(v.name) if isinstance(v, Local) else None
            if d is not None and d.op == 'bitcast' and isinstance(d.args[0], Local): d = s.defs.get(d.args[0].name)
            best = None; add = 0
            while d is not None and d.op == 'getelementptr' and isinstance(d.args[0], Local) and len(d.args) >= 3 \
                    and all(isinstance(a, ConstInt) for a in d.args[1:]) and d.args[1].v == 0:
                ty = d.extra.get('src_ty'); off = 0; cur = ty
                for a in d.args[2:]:
                    r = s.resolve(cur)
                    if isinstance(r, StructT):
                        o = 0
                        for k, e in enumerate(r.els):
                            es, ea = s.sizeof_align(e)
                            if r.packed: ea = 1
                            o = (o + ea - 1) // ea * ea
                            if k == a.v: break
                            o += es
                        else: return best
                        off += o; cur = r.els[a.v]
                    elif isinstance(r, ArrT):
                        off += a.v * s.sizeof_align(r.el)[0]; cur = r.el
                    else: return best
                add += off
                best = (ty, add)
                d = s.defs.get(d.args[0].name)
                if d is not None and d.op == 'bitcast' and isinstance(d.args[0], Local): d = s.defs.get(d.args[0].name)
            return best
        except Exception:
            return None

    def typed_set(s, dst, val, n):
        """memset of a constant byte over part of an operator-new block whose element type was inferred (coroutine frame:
        clang zero-fills a run of promise fields through `i8* frame+off`): typed stores per scalar leaf, so that CBMC keeps
        the fields constant instead of a byte_update over a struct. None = not applicable (plain memset is emitted)."""
        try:
            if not (isinstance(val, ConstInt) and isinstance(n, ConstInt) and isinstance(dst, Local)): return None
            base, off = dst.name, 0
            d = s.defs.get(dst.name)
            if d is not None and d.op == 'getelementptr' and len(d.args) == 2 and isinstance(d.args[0], Local) \
                    and isinstance(d.args[1], ConstInt) and isinstance(d.extra.get('src_ty'), IntT):
                if d.extra['src_ty'].bits != 8: return None
                base, off = d.args[0].name, d.args[1].v
            ty = s.alloc_types.get(base)
            if ty is None:
                # memset over (a prefix of) a typed object, e.g. `bitcast %struct.X* %alloca to i8*`: clang merges the
                # zero-initialisation of adjacent members (ints and pointers) into one memset
                ty, off = s.origin_type(dst), 0
                if ty is not None and n.v > s.sizeof_align(ty)[0]:
                    # the run starts at a member and continues over its following siblings (`bitcast (gep %struct.X* %p, 0, k, ...)`):
                    # widen to the enclosing struct the member pointer was derived from
                    w_ = s.enclosing_member(dst)
                    if w_ is not None: ty, off = w_
            if ty is None or off < 0: return None
            nb = n.v
            if nb <= 0 or off + nb > s.sizeof_align(ty)[0]: return None
            l = s.leaves(ty, off + nb)
            if l is None: return None
            sel = []
            for o, kind, sz in l:
                if o + sz <= off: continue
                if o < off: return None                  # the range starts inside a scalar
                sel.append((o - off, kind, sz))
            if not sel or len(sel) > 64 or sel[-1][0] + sel[-1][2] < nb - 7: return None
            b = val.v & 0xff
            if b != 0 and any(k == 'p' for _, k, _ in sel): return None
            dv = s.val(dst)
            st = ['  {']
            for o, kind, sz in sel:
                if kind == 'p': st.append(' RT_CHK(%s + %d, %d); *(uint8_t**)(%s + %d) = (uint8_t*)0;' % (dv, o, sz, dv, o))
                elif sz in (1, 2, 4, 8):
                    st.append(' RT_CHK(%s + %d, %d); *(uint%d_t*)(%s + %d) = %dULL;' % (dv, o, sz, sz * 8, dv, o, int.from_bytes(bytes([b]) * sz, 'little')))
                else: return None
            st.append(' }')
            return ''.join(st)
        except Exception:
            return None

    def typed_copy(s, dst, src, n, is_move):
        td, ts = s.origin_type(dst), s.origin_type(src)
        if td is None and ts is None: return None
        d, sr = s.val(dst), s.val(src)
        def ct(kind, sz): return 'uint8_t*' if kind == 'p' else 'uint%d_t' % (sz * 8)
        try:
            if isinstance(n, ConstInt):
                nb = n.v
                ld = s.leaves(td, nb) if td is not None else None
                ls = s.leaves(ts, nb) if ts is not None else None
                if ld is not None and sum(x[2] for x in ld) == 0: ld = None
                if ls is not None and sum(x[2] for x in ls) == 0: ls = None
                # type may describe fewer bytes than copied (array of T): fall back to element loop below
                def covers(l): return l is not None and l and l[-1][0] + l[-1][2] >= nb - 7
                if ld is not None and ls is not None and [(a, c) for a, b_, c in ld] != [(a, c) for a, b_, c in ls]:
                    # conflicting views: prefer the one with pointer leaves
                    if any(k == 'p' for _, k, _ in ls) and not any(k == 'p' for _, k, _ in ld): ld = None
                    else: ls = None
                l = ld if covers(ld) else ls if covers(ls) else None
                if l is not None and len(l) <= 64:
                    st = ['  {']
                    for off, kind, sz in l:
                        t = ct(kind, sz)
                        st.append(' RT_CHK(%s + %d, %d); RT_CHK(%s + %d, %d); *(%s*)(%s + %d) = *(%s*)(%s + %d);' % (d, off, sz, sr, off, sz, t, d, off, t, sr, off))
                    st.append(' }')
                    return ''.join(st)
            # element loop: element = first scalar leaf type of the known side
            t0 = td if td is not None else ts
            r = s.resolve(t0)
            while isinstance(r, (ArrT, StructT)):
                if isinstance(r, ArrT): t0 = r.el
                else:
                    if len(set(map(str, r.els))) != 1: return None
                    t0 = r.els[0]
                r = s.resolve(t0)
            if not isinstance(r, (IntT, PtrT)): return None
            esz = s.sizeof_align(t0)[0]
            t = 'uint8_t*' if isinstance(r, PtrT) else 'uint%d_t' % (esz * 8)
            nn = s.val(n)
            if is_move:
                return ('  { %s *d_ = (%s*)%s; %s *s_ = (%s*)%s; uint64_t n_ = (%s) / %d, i_; '
                        'if (RT_DISTINCT_OBJ(d_, s_) || (uint8_t*)d_ <= (uint8_t*)s_) { for (i_ = 0; i_ < n_; i_++) { RT_CHK(d_ + i_, %d); RT_CHK(s_ + i_, %d); d_[i_] = s_[i_]; } } '
                        'else { for (i_ = n_; i_ > 0; i_--) { RT_CHK(d_ + i_ - 1, %d); RT_CHK(s_ + i_ - 1, %d); d_[i_ - 1] = s_[i_ - 1]; } } }'
                        % (t, t, d, t, t, sr, nn, esz, esz, esz, esz, esz))
            # (each pointer gets its own declaration: with t == 'uint8_t*' a shared declarator list would make s_ a uint8_t*)
            return ('  { %s *d_ = (%s*)%s; %s *s_ = (%s*)%s; uint64_t n_ = (%s) / %d, i_; '
                    'for (i_ = 0; i_ < n_; i_++) { RT_CHK(d_ + i_, %d); RT_CHK(s_ + i_, %d); d_[i_] = s_[i_]; } }' % (t, t, d, t, t, sr, nn, esz, esz, esz))
        except Exception:
            return None

    def string_of(s, v):
        # v: constant GEP to a private string global
        g = None
        if isinstance(v, ConstExpr) and v.op == 'getelementptr':
            g = v.args[0]
        elif isinstance(v, Global):
            g = v
        elif isinstance(v, ConstExpr) and v.op == 'bitcast':
            g = v.args[0]
        if isinstance(g, Global) and g.name in s.m.globals:
            init = s.m.globals[g.name].init
            if isinstance(init, ConstStr):
                return init.data.rstrip(b'\0').decode('latin1').replace('\\', '\\\\').replace('"', '\\"').replace('\n', ' ')
        return '?'

    # -------------------------------------------------------------- module
    def emit_module(s, externs_defined=()):
        m = s.m
        body = []
        protos = []
        globs = []
        inits = []
        # prototypes for all functions (decl + def)
        for f in m.funcs.values():
            if f.name.startswith('llvm.'): continue
            if f.name in ('__CPROVER_assert', '__CPROVER_assume', '__assert_fail', '_ZSt21__glibcxx_assert_failPKciS0_S0_'): continue
            if KEEP_NAMES.match(f.name) and f.is_decl: continue
            protos.append(s.fdecl(f) + ';')
        # globals
        for g in m.globals.values():
            ct = s.ctype(g.ty)
            nm = s.gname(g.name)
            if g.external:
                globs.append('%s %s; /* external: modelled as zero-initialised */' % (ct, nm))
                continue
            if g.name in s.tls:
                globs.append('%s %s[RT_MAXT + 1]; /* thread_local: one copy per modelled thread */' % (ct, nm))
                if g.init is not None and not isinstance(g.init, (ConstZero, ConstUndef)):
                    for k_ in range(RT_MAXT + 1):
                        s.emit_init(inits, '%s[%d]' % (nm, k_), g.ty, g.init)
                continue
            globs.append('%s %s;' % (ct, nm))
            if g.init is not None and not isinstance(g.init, (ConstZero, ConstUndef)):
                s.emit_init(inits, nm, g.ty, g.init)
        s.may_park = s.compute_may_park()
        for f in m.funcs.values():
            if f.is_decl: continue
            body.append(s.emit_function(f))
        out = []
        out.append('/* generated by ir2c.py - do not edit */')
        out.append('#include "rt.h"')
        for nm in s.struct_defs:
            out.append('%s;' % nm)
        # function typedefs (ordered by creation => dependencies first)
        for nm, ret, ps, va in s.ft_order:
            if va and not ps: pl = ''
            else: pl = ', '.join(ps + (['...'] if va else [])) or 'void'
            out.append('typedef %s %s(%s);' % (ret, nm, pl))
        done = set()
        def emit_struct(nm):
            if nm in done: return
            done.add(nm)
            d = s.struct_defs.get(nm)
            if not d or d == 'pending': return
            members, packed, deps = d
            for x in deps: emit_struct(x)
            out.append('%s { %s }%s;' % (nm, ' '.join(members) if members else 'char empty_;', ' __attribute__((packed))' if packed else ''))
        for nm in list(s.struct_order): emit_struct(nm)
        out += protos
        out += globs
        out.append('void ir_global_init(void) {')
        out += ['  ' + x for x in inits]
        out.append('}')
        out += body
        ext, unmodelled = emit_externals(s)
        out += ext
        out += s.emit_thread_hooks()
        s.unmodelled = unmodelled
        s.entries = [f.name for f in m.funcs.values() if not f.is_decl and re.match(r'^h_\w+$', f.name)]
        for en in s.entries:
            out.append('void main_%s(void) { ir_global_init(); %s(); __CPROVER_assert(!rt_exc_pending, "uncaught C++ exception (std::terminate)"); }' % (en, en))
        out.append('#ifndef __CPROVER__')
        out.append('extern void vf_native_load_choices(void);')
        out.append('int main(int argc, char **argv) { vf_native_load_choices();')
        for en in s.entries:
            out.append('  if (argc > 1 && !strcmp(argv[1], "%s")) { main_%s(); return 0; }' % (en, en))
        out.append('  return 2; }')
        out.append('#endif')
        return '\n'.join(out) + '\n'

    def compute_may_park(s):
        """functions from which a call chain of direct calls reaches std::condition_variable::wait(unique_lock&)"""
        m = s.m
        if COND_WAIT not in m.funcs: return set()
        callers = {}
        for f in m.funcs.values():
            if f.is_decl: continue
            for b in f.blocks:
                for I in b.instrs:
                    if I.op in ('call', 'invoke') and isinstance(I.extra.get('callee'), Global):
                        callers.setdefault(I.extra['callee'].name, set()).add(f.name)
        park = set(); work = [COND_WAIT]
        while work:
            n = work.pop()
            for c in callers.get(n, ()):
                if c not in park: park.add(c); work.append(c)
        return park

    def emit_thread_hooks(s):
        """dispatchers the thread model in rt.h calls: run / dispose a std::thread::_State by its vtable, run a thread_local destructor"""
        m = s.m
        def fn_of(v):
            while isinstance(v, ConstExpr) and v.op == 'bitcast': v = v.args[0]
            return v.name if isinstance(v, Global) and v.name in m.funcs else None
        inv = ['void rt_thread_invoke(void *st) {']; dis = ['void rt_thread_dispose(void *st) {']
        for g in m.globals.values():
            if g.name.startswith('_ZTVNSt6thread11_State_impl') and isinstance(g.init, ConstAgg) and isinstance(g.init.els[0], ConstAgg):
                els = g.init.els[0].els
                if len(els) != 5: continue
                d0, run = fn_of(els[3]), fn_of(els[4])
                if d0 is None or run is None or m.funcs[d0].is_decl or m.funcs[run].is_decl: continue
                test = '  if (*(void**)st == (void*)&%s.f0.a[2]) ' % s.gname(g.name)
                inv.append(test + '{ %s((%s)st); return; }' % (s.gname(run), s.ctype(m.funcs[run].params[0].ty)))
                dis.append(test + '{ %s((%s)st); return; }' % (s.gname(d0), s.ctype(m.funcs[d0].params[0].ty)))
        for l in (inv, dis): l.append('  __CPROVER_assert(0, "rt: std::thread start closure of unknown type"); }')
        atx = ['void rt_call_atexit(void *fn, void *obj) {']; seen = set()
        for f in m.funcs.values():
            if f.is_decl: continue
            for b in f.blocks:
                for I in b.instrs:
                    if I.op in ('call', 'invoke') and isinstance(I.extra.get('callee'), Global) and I.extra['callee'].name == '__cxa_thread_atexit':
                        d = fn_of(I.args[0])
                        if d is None or d in seen or m.funcs[d].is_decl: continue
                        seen.add(d)
                        atx.append('  if (fn == (void*)&%s) { %s((%s)obj); return; }' % (s.gname(d), s.gname(d), s.ctype(m.funcs[d].params[0].ty)))
        atx.append('  __CPROVER_assert(0, "rt: thread_local destructor of unknown type"); }')
        return inv + dis + atx

    def emit_init(s, inits, lhs, ty, v):
        r = s.resolve(ty)
        if isinstance(v, (ConstZero, ConstUndef)):
            return
        if isinstance(v, ConstAgg):
            if isinstance(r, ArrT):
                for i, e in enumerate(v.els):
                    s.emit_init(inits, '%s.a[%d]' % (lhs, i), r.el, e)
            else:
                for i, e in enumerate(v.els):
                    s.emit_init(inits, '%s.f%d' % (lhs, i), r.els[i], e)
            return
        if isinstance(v, ConstStr):
            data = v.data
            esc = ''.join('\\x%02x' % b for b in data)
            inits.append('memcpy(%s.a, "%s", %d);' % (lhs, esc, len(data)))
            return
        inits.append('%s = %s;' % (lhs, s.val(v)))


COND_WAIT = '_ZNSt18condition_variable4waitERSt11unique_lockISt5mutexE'
THREAD_START = '_ZNSt6thread15_M_start_threadESt10unique_ptrINS_6_StateESt14default_deleteIS1_EEPFvvE'
RT_MAXT = 4          # rt.h: RT_MAXT

EXT_MODELS = {
    # name: (rt function, number of args passed, returns value?)
    '_Znwm': ('rt_new', 1), '_Znam': ('rt_new', 1),
    '_ZdlPv': ('rt_delete', 1), '_ZdaPv': ('rt_delete', 1), '_ZdlPvm': ('rt_delete', 1), '_ZdaPvm': ('rt_delete', 1),
    '__cxa_allocate_exception': ('rt_cxa_allocate_exception', 1),
    '__cxa_throw': ('rt_cxa_throw', 3),
    '__cxa_begin_catch': ('rt_cxa_begin_catch', 1),
    '__cxa_end_catch': ('rt_cxa_end_catch', 0),
    '__cxa_rethrow': ('rt_cxa_rethrow', 0),
    '__cxa_free_exception': ('rt_cxa_free_exception', 1),
    '__cxa_init_primary_exception': ('rt_cxa_init_primary_exception', 3),
    '_ZSt17current_exceptionv': ('rt_current_exception', 1),
    '_ZSt17rethrow_exceptionNSt15__exception_ptr13exception_ptrE': ('rt_rethrow_exception', 1),
    '_ZNSt15__exception_ptr13exception_ptr9_M_addrefEv': ('rt_eptr_addref', 1),
    '_ZNSt15__exception_ptr13exception_ptr10_M_releaseEv': ('rt_eptr_release', 1),
    '_ZNSt15__exception_ptr13exception_ptrC1EPv': ('rt_eptr_ctor', 2),
    '_ZSt9terminatev': ('rt_terminate', 0),
    '_ZSt19uncaught_exceptionsv': ('rt_uncaught_exceptions', 0), '_ZSt18uncaught_exceptionv': ('rt_uncaught_exceptions', 0),
    '__cxa_pure_virtual': ('rt_terminate', 0),
    '__cxa_thread_atexit': ('rt_thread_atexit', 2), '_ZNSt9exceptionD2Ev': ('rt_nop', 0),
    '_ZSt17__throw_bad_allocv': ('rt_throw_lib', 0), '_ZSt20__throw_length_errorPKc': ('rt_throw_lib', 0),
    '_ZSt28__throw_bad_array_new_lengthv': ('rt_throw_lib', 0), '_ZSt20__throw_system_errori': ('rt_throw_lib', 0),
    '_ZSt25__throw_bad_function_callv': ('rt_throw_lib', 0), '_ZSt24__throw_out_of_range_fmtPKcz': ('rt_throw_lib', 0),
    '_ZNSt18condition_variableC1Ev': ('rt_nop', 0), '_ZNSt18condition_variableD1Ev': ('rt_nop', 0),
    '_ZNSt18condition_variable10notify_allEv': ('rt_cond_notify_all', 1), '_ZNSt18condition_variable10notify_oneEv': ('rt_cond_notify_one', 1),
    # cooperative thread model (C11): see rt.h
    COND_WAIT: ('rt_cond_wait', 2), THREAD_START: ('rt_thread_start', 2),
    '_ZNSt6thread4joinEv': ('rt_thread_join', 1), '_ZNSt6thread6detachEv': ('rt_thread_detach', 1),
    '_ZNSt6thread20hardware_concurrencyEv': ('rt_hw_concurrency', 0), '_ZNSt6thread6_StateD2Ev': ('rt_nop', 0),
    'sched_yield': ('rt_ret0', 0), 'pthread_self': ('rt_pthread_self', 0), 'syscall': ('rt_syscall', 4),
    '__errno_location': ('rt_errno_location', 0), 'strcmp': ('rt_strcmp', 2),
    '_ZNSt13runtime_errorC1EPKc': ('rt_nop', 0), '_ZNSt13runtime_errorD1Ev': ('rt_nop', 0),
    '_ZNSt17bad_function_callD1Ev': ('rt_nop', 0),       # only its address is taken (destructor argument of __cxa_throw in cocls::function)
    'pthread_mutex_lock': ('rt_mutex_lock', 1), 'pthread_mutex_unlock': ('rt_mutex_unlock', 1),
    # virtual clock (C12): see rt.h
    '_ZNSt6chrono3_V212system_clock3nowEv': ('rt_system_clock_now', 0), 'clock_gettime': ('rt_clock_gettime', 2),
    'pthread_cond_timedwait': ('rt_cond_timedwait', 3), 'pthread_cond_clockwait': ('rt_cond_clockwait', 4),
}


def emit_externals(e):
    out = []
    unmodelled = []
    for f in e.m.funcs.values():
        if not f.is_decl or f.name.startswith('llvm.') or KEEP_NAMES.match(f.name) or f.name in ('__assert_fail', '_ZSt21__glibcxx_assert_failPKciS0_S0_'):
            continue
        if f.name == '__gxx_personality_v0':
            continue
        mdl = EXT_MODELS.get(f.name)
        if mdl is not None and f.vararg: continue
        for i, p_ in enumerate(f.params):
            if p_.name is None: p_.name = 'a%d' % i
        ret = e.ctype(f.ret)
        hdr = e.fdecl(f, True)
        if mdl is None:
            unmodelled.append(f.name)
            continue
        rtf, k = mdl
        args = []
        for p in f.params[:k]:
            if isinstance(e.resolve(p.ty), PtrT): args.append('(void*)' + e.lname(p.name))
            else: args.append(e.lname(p.name))
        call = '%s(%s)' % (rtf, ', '.join(args))
        if isinstance(f.ret, VoidT): out.append('%s { %s; }' % (hdr, call))
        else: out.append('%s { return (%s)%s; }' % (hdr, ret, call))
    si = '_ZTVN10__cxxabiv120__si_class_type_infoE'
    if si in e.m.globals:
        out.append('void *rt_si_vptr(void) { return (void*)(&%s + 2); }' % e.gname(si))
    else:
        out.append('void *rt_si_vptr(void) { return (void*)1; }')
    return out, unmodelled


def main():
    src = sys.argv[1]
    dst = sys.argv[2]
    entry = sys.argv[3] if len(sys.argv) > 3 else None
    m = parse_file(src)
    e = Emitter(m)
    e.entry = entry
    # pre-register types used in functions so struct order is complete before emission
    text = e.emit_module()
    # struct definitions may have been discovered during function emission -> emit_module builds header last
    with open(dst, 'w') as f:
        f.write(text)
    if e.unmodelled:
        sys.stderr.write('unmodelled externals: ' + ' '.join(e.unmodelled) + '\n')


if __name__ == '__main__':
    main()
