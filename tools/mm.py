#!/usr/bin/env python3
"""E2 back end: memory-model encodings over the event lists produced by irsym.py.

SC   - one integer clock per event; program order => clock order; every enabled read reads from the latest enabled
       same-location write before it (or the initial value); RMW = one event.  Schedules are solver variables.
HB   - on top of SC executions: C++20 happens-before (sequenced-before, synchronizes-with through release/acquire
       accesses, release sequences through RMW chains, fences), computed as a boolean closure; query = two conflicting
       accesses, at least one non-atomic, unordered by hb (data race), cf. C03.
"""
import z3, time
from irsym import Event, is_c, bv, z3_vars

BIG = 1000000000
CW = 16      # clock width (bit-vector encoding of the integer clocks: pure QF_BV is decided by bit-blasting, much faster than LIA here)
import os
USE_BV = os.environ.get('VF_MM_BV', '0') == '1'
if USE_BV:
    LT = z3.ULT; LE = z3.ULE; GT = z3.UGT; GE = z3.UGE
    def NUM(name, w): return z3.BitVec(name, w)
else:
    LT = lambda a, b: a < b
    LE = lambda a, b: a <= b
    GT = lambda a, b: a > b
    GE = lambda a, b: a >= b
    def NUM(name, w): return z3.Int(name)
REL = ('release', 'acq_rel', 'seq_cst')
ACQ = ('acquire', 'acq_rel', 'seq_cst')


class Model:
    def __init__(s, sc, threads, has_check, timeout_ms=600000):
        s.sc = sc
        s.threads = threads           # [(entry, runs, evcache)]
        s.has_check = has_check
        s.nthreads = len(threads) - (1 if has_check else 0)
        s.timeout_ms = timeout_ms
        s.events = []
        s.base = []                   # base constraints
        s.len = {}                    # tid -> Int
        s.clk = {}                    # event id -> Int
        s.en = {}                     # event id -> Bool expr
        s.rf = {}                     # read event id -> Int var
        s.writes = {}                 # addr -> [events]
        s.queries = []
        s.stats = {'events': 0, 'rf_edges': 0, 'queries': 0, 'solver_s': 0.0}
        s.build()

    # ------------------------------------------------------------------
    def guard_expr(s, g):
        return z3.And(*g) if g else z3.BoolVal(True)

    def build(s):
        sc = s.sc
        B = s.base
        s.barrier = NUM('barrier', CW)
        check_tid = len(s.threads) if s.has_check else None
        allev = []
        for ti, (entry, runs, evc) in enumerate(s.threads):
            tid = ti + 1
            s.len[tid] = NUM('len_%d' % tid, 32)
            evs = sorted(evc.values(), key=lambda e: e.id)
            for e in evs:
                e.uid = '%d_%d' % (tid, e.id)
                allev.append(e)
        s.events = allev
        s.stats['events'] = len(allev)
        for e in allev:
            s.clk[e.uid] = NUM('clk_' + e.uid, CW)
            B.append(GE(s.clk[e.uid], 1))
        # completion of threads
        s.complete = {}
        for ti, (entry, runs, evc) in enumerate(s.threads):
            tid = ti + 1
            done = [(r.done_guard if hasattr(r, 'done_guard') else s.guard_expr(r.constraints)) for r in runs if r.end == 'done']
            s.dag = any(hasattr(r, 'done_guard') for r in runs)
            s.complete[tid] = z3.And(GE(s.len[tid], BIG), z3.Or(*done) if done else z3.BoolVal(False))
        s.all_complete = z3.And(*[s.complete[t] for t in range(1, s.nthreads + 1)]) if s.nthreads else z3.BoolVal(True)
        # enabledness
        for e in allev:
            g = z3.And(s.guard_expr(e.guard), LT(e.idx, s.len[e.tid]))
            if check_tid is not None and e.tid == check_tid:
                g = z3.And(g, s.all_complete)
            s.en[e.uid] = g
            if check_tid is not None:
                if e.tid == check_tid: B.append(GT(s.clk[e.uid], s.barrier))
                else: B.append(LT(s.clk[e.uid], s.barrier))
        # program order
        seen = set()
        for ti, (entry, runs, evc) in enumerate(s.threads):
            for r in runs:
                for a, b in zip(r.events, r.events[1:]):
                    k = (a.uid, b.uid)
                    if k in seen: continue
                    seen.add(k)
                    B.append(LT(s.clk[a.uid], s.clk[b.uid]))
        # merge points: reach definitions and per-level barriers
        for ti, (entry, runs, evc) in enumerate(s.threads):
            tid = ti + 1
            nodes = {}
            for r in runs:
                for n in (r.join_table or {}).values(): nodes[n.id] = n
            for n in nodes.values():
                B.append(n.reach == z3.Or(*[s.guard_expr(c) for (_, c) in n.preds.values()]))
            maxk = max([e.segk for e in evc.values()] + [0])
            bars = [NUM('segbar_%d_%d' % (tid, k), CW) for k in range(maxk + 2)]
            for k in range(maxk + 1):
                B.append(LT(bars[k], bars[k + 1]))
            for e in evc.values():
                B.append(LT(bars[e.segk], s.clk[e.uid])); B.append(LT(s.clk[e.uid], bars[e.segk + 1]))
        # locations
        byaddr = {}
        # bytes accessed with different (address,width) geometries (unions such as future's value / exception storage):
        # every access touching such a byte is split into byte-sized units that share the parent's clock and enabledness
        geo = {}
        for e in allev:
            if e.kind in ('R', 'W', 'RMW', 'WAIT'):
                for i in range(e.width): geo.setdefault(e.addr + i, set()).add((e.addr, e.width))
        mixed = {b for b, g in geo.items() if len(g) > 1}
        s.stats['mixed_bytes'] = len(mixed)

        class Unit:
            pass
        for e in allev:
            if e.kind not in ('R', 'W', 'RMW', 'WAIT'): continue
            if not any((e.addr + i) in mixed for i in range(e.width)):
                byaddr.setdefault(e.addr, []).append(e)
                continue
            for i in range(e.width):
                u = Unit()
                u.parent = e; u.uid = '%s_b%d' % (e.uid, i); u.tid = e.tid; u.idx = e.idx; u.kind = e.kind; u.addr = e.addr + i; u.width = 1
                u.order = e.order; u.succ = e.succ; u.seg = e.seg; u.segk = e.segk; u.lkey = e.lkey; u.key = e.key; u.obj = e.obj; u.site = e.site
                u.rval = z3.Extract(8 * i + 7, 8 * i, e.rval) if e.rval is not None else None
                u.wval = None
                if e.kind in ('W', 'RMW'):
                    wv = e.wval
                    u.wval = ((wv >> (8 * i)) & 0xff) if is_c(wv) else z3.Extract(8 * i + 7, 8 * i, wv)
                u.info = None
                if e.kind == 'WAIT':
                    u.info = ((e.info >> (8 * i)) & 0xff) if is_c(e.info) else z3.Extract(8 * i + 7, 8 * i, e.info)
                s.clk[u.uid] = s.clk[e.uid]; s.en[u.uid] = s.en[e.uid]
                byaddr.setdefault(u.addr, []).append(u)
        s.byaddr = byaddr
        for addr, evs in byaddr.items():
            ws = [e for e in evs if e.kind in ('W', 'RMW')]
            s.writes[addr] = ws
            # distinct clocks for events of different threads on the same location
            for i in range(len(evs)):
                for j in range(i + 1, len(evs)):
                    if evs[i].tid != evs[j].tid and (evs[i].kind in ('W', 'RMW') or evs[j].kind in ('W', 'RMW')):
                        B.append(s.clk[evs[i].uid] != s.clk[evs[j].uid])
            width = evs[0].width
            init = sc.init_value(addr, width)
            initv = bv(init, width * 8)
            for r in evs:
                if r.kind not in ('R', 'RMW', 'WAIT'): continue
                cands, own = s.rf_candidates(r, ws)
                rfv = NUM('rf_' + r.uid, 12)
                s.rf[r.uid] = (rfv, cands)
                alts = []
                ck = s.clk[r.uid]
                if own is None:
                    none_before = z3.And(*[z3.Not(z3.And(s.en_w(w2), LT(s.clk[w2.uid], ck))) for w2 in cands]) if cands else z3.BoolVal(True)
                    alts.append(z3.And(rfv == 0, r.rval == initv, none_before))
                for i, w in enumerate(cands):
                    s.stats['rf_edges'] += 1
                    cw = s.clk[w.uid]
                    between = [z3.Not(z3.And(s.en_w(w2), LT(cw, s.clk[w2.uid]), LT(s.clk[w2.uid], ck))) for w2 in cands
                               if w2 is not w and not s.exclusive(w, w2)]
                    alts.append(z3.And(rfv == i + 1, s.en_w(w), LT(cw, ck), r.rval == s.wval(w), *between))
                B.append(z3.Implies(s.en[r.uid], z3.Or(*alts)))
                if r.kind == 'WAIT' and not hasattr(r, 'parent'):
                    B.append(z3.Implies(s.en[r.uid], r.rval != bv(r.info, r.width * 8)))
        for e in allev:
            if e.kind == 'WAIT' and any((e.addr + i) in mixed for i in range(e.width)):
                B.append(z3.Implies(s.en[e.uid], e.rval != bv(e.info, e.width * 8)))
        for c in sc.assumes:
            B.append(c)

    @staticmethod
    def ancestor(a, b):
        """a may be before b on a common path of the same thread (exact within a segment, conservative across merge points)"""
        if a.segk != b.segk: return a.segk < b.segk
        if a.seg != b.seg: return False
        ka, kb = a.lkey, b.lkey
        return a.idx < b.idx and len(ka) <= len(kb) and kb[:len(ka)] == ka

    @staticmethod
    def exclusive(a, b):
        """same thread, different branches of one segment (or different merge nodes of one level): never enabled together"""
        if a.tid != b.tid: return False
        if a.segk != b.segk: return False
        if a.seg != b.seg: return True
        ka, kb = a.lkey, b.lkey
        n = min(len(ka), len(kb))
        return ka[:n] != kb[:n]

    def rf_candidates(s, r, ws):
        out = []
        own = None
        for w in ws:
            if w is r: continue
            if w.tid == r.tid:
                if not s.ancestor(w, r): continue
                if getattr(s, 'dag', False) or (w.kind == 'RMW' and w.succ is not True):
                    out.append(w); continue          # conditional own write: keep, cannot shadow older ones
                if w.segk == r.segk and (own is None or w.idx > own.idx): own = w
                elif w.segk != r.segk: out.append(w)
            else:
                out.append(w)
        if own is not None:
            # older unconditional own writes are shadowed by the latest one
            out = [w for w in out if not (w.tid == r.tid and w.idx < own.idx)] + [own]
        return out, own

    def en_w(s, w):
        if w.kind == 'RMW' and w.succ is not True:
            return z3.And(s.en[w.uid], w.succ)
        return s.en[w.uid]

    def wval(s, w):
        return bv(w.wval, w.width * 8)

    # ------------------------------------------------------------------ queries
    def solve(s, extra, name):
        if getattr(s, 'sol', None) is None:
            s.sol = z3.Solver()
            s.sol.set('timeout', s.timeout_ms)
            s.sol.add(*s.base)
        sol = s.sol
        sol.push()
        sol.add(*extra)
        t0 = time.time()
        r = sol.check()
        dt = time.time() - t0
        model = sol.model() if r == z3.sat else None
        reason = sol.reason_unknown() if r == z3.unknown else None
        sol.pop()
        s.stats['queries'] += 1; s.stats['solver_s'] += dt
        q = {'name': name, 'result': str(r), 'time_s': round(dt, 3)}
        s.queries.append(q)
        if r == z3.sat:
            return 'sat', model, q
        if r == z3.unsat:
            return 'unsat', None, q
        q['reason'] = reason
        return 'unknown', None, q

    def assertion_items(s):
        """(tid, run, guard, cond, msg, pos)"""
        out = []
        seen = set()
        check_tid = len(s.threads) if s.has_check else None
        for ti, (entry, runs, evc) in enumerate(s.threads):
            tid = ti + 1
            for r in runs:
                for (g, cond, msg, pos) in r.asserts:
                    key = (tid, msg, pos, cond if isinstance(cond, (str, bool)) else cond.sexpr(), tuple(x.sexpr() for x in g))
                    if key in seen: continue
                    seen.add(key)
                    en = z3.And(s.guard_expr(g), GE(s.len[tid], pos))
                    if tid == check_tid: en = z3.And(en, s.all_complete)
                    out.append((tid, en, cond, msg))
        return out

    def uaf_items(s):
        out = []
        frees = [e for e in s.events if e.kind == 'FREE']
        for f in frees:
            for e in s.events:
                if e.kind in ('R', 'W', 'RMW', 'WAIT') and e.obj == f.obj and e is not f:
                    if e.tid == f.tid and e.idx < f.idx: continue
                    out.append((f, e, z3.And(s.en[f.uid], s.en[e.uid], LT(s.clk[f.uid], s.clk[e.uid]))))
            for f2 in frees:
                if f2 is not f and f2.obj == f.obj and f2.uid < f.uid and 'delete' in f.site and 'delete' in f2.site:
                    out.append((f, f2, z3.And(s.en[f.uid], s.en[f2.uid])))
        return out

    def final_eq(s, addr, width, v):
        ws = s.writes.get(addr, [])
        init = bv(s.sc.init_value(addr, width), width * 8)
        vv = bv(v, width * 8)
        alts = [z3.And(init == vv, *[z3.Not(s.en_w(w)) for w in ws])]
        for w in ws:
            later = [z3.Not(z3.And(s.en_w(w2), GT(s.clk[w2.uid], s.clk[w.uid]))) for w2 in ws if w2 is not w]
            alts.append(z3.And(s.en_w(w), s.wval(w) == vv, *later))
        return z3.Or(*alts)

    def deadlock_cond(s):
        stuck = {}
        for t in range(1, s.nthreads + 1):
            alts = []
            for e in s.events:
                if e.tid == t and e.kind == 'WAIT':
                    alts.append(z3.And(s.guard_expr(e.guard), s.len[t] == e.idx, s.final_eq(e.addr, e.width, e.info)))
            stuck[t] = z3.Or(*alts) if alts else z3.BoolVal(False)
        if not any(not z3.is_false(z3.simplify(x)) for x in stuck.values()):
            return None
        return z3.And(z3.Or(*stuck.values()), *[z3.Or(s.complete[t], stuck[t]) for t in range(1, s.nthreads + 1)])

    def trace(s, model):
        """events enabled in the model, in clock order"""
        rows = []
        for e in s.events:
            if z3.is_true(model.eval(s.en[e.uid], model_completion=True)):
                ck = model.eval(s.clk[e.uid], model_completion=True).as_long()
                rv = model.eval(e.rval, model_completion=True).as_long() if e.rval is not None else None
                wv = None
                if e.kind in ('W', 'RMW'):
                    okw = True if (e.succ is True or e.succ is None) else z3.is_true(model.eval(e.succ, model_completion=True))
                    if okw:
                        w = e.wval
                        wv = w if is_c(w) else model.eval(w, model_completion=True).as_long()
                rows.append((ck, e.tid, e.idx, e))
        rows.sort(key=lambda r: (r[0], r[1], r[2]))
        out = []
        for ck, tid, idx, e in rows:
            rv = model.eval(e.rval, model_completion=True).as_long() if e.rval is not None else None
            wv = None
            if e.kind in ('W', 'RMW'):
                okw = True if (e.succ is True or e.succ is None) else z3.is_true(model.eval(e.succ, model_completion=True))
                if okw:
                    w = e.wval
                    wv = w if is_c(w) else model.eval(w, model_completion=True).as_long()
            o = s.sc.obj_by_base.get(e.obj) if e.obj is not None else None
            out.append({'clk': ck, 'tid': tid, 'idx': idx, 'kind': e.kind, 'order': e.order, 'addr': e.addr, 'width': e.width,
                        'obj': (o.name + '+%d' % (e.addr - o.base)) if o is not None and e.addr else None, 'read': rv, 'write': wv,
                        'site': e.site, 'sched': e.sched if is_c(e.sched) else model.eval(e.sched, model_completion=True).as_long()})
        return out

    # ------------------------------------------------------------------ happens-before (C++20) over SC executions
    def build_hb(s):
        """C++20 happens-before over the SC executions, as vector clocks: VC[e][t] = largest program-order position of thread t
        that happens before (or is) event e.  hb = (sequenced-before U synchronizes-with)+ where synchronizes-with covers
        release/acquire accesses, release sequences continued by RMWs, release fences before atomic writes and atomic reads before
        acquire fences.  vf_setup happens before every thread, every thread happens before vf_check."""
        cons = []
        T = len(s.threads)
        check_tid = T if s.has_check else None
        tids = list(range(1, T + 1))
        NEG = -1
        I = z3.IntVal
        def mx(a, b):
            return z3.If(a >= b, a, b)
        VC = {}; RS = {}; LF = {}; PA = {}
        # per-thread chains in creation order
        per = {t: [] for t in tids}
        for e in s.events: per[e.tid].append(e)
        # rf lookup for units: whole (non-split) events only; split (mixed-size) accesses are treated per parent using byte 0's choice
        rfsrc = {}
        for addr, evs in s.byaddr.items():
            for r in evs:
                if r.kind in ('R', 'RMW', 'WAIT') and r.uid in s.rf:
                    par = getattr(r, 'parent', r)
                    if par.uid not in rfsrc: rfsrc[par.uid] = (s.rf[r.uid][0], [getattr(w, 'parent', w) for w in s.rf[r.uid][1]])
        for t in tids:
            for e in per[t]:
                for u in tids:
                    VC[(e.uid, u)] = z3.Int('vc_%s_%d' % (e.uid, u))
                    LF[(e.uid, u)] = z3.Int('lf_%s_%d' % (e.uid, u))
                    PA[(e.uid, u)] = z3.Int('pa_%s_%d' % (e.uid, u))
                    if e.kind in ('W', 'RMW'): RS[(e.uid, u)] = z3.Int('rs_%s_%d' % (e.uid, u))
        def rs_of_source(r, u):
            """release information carried by the write r reads from (NEG for the initial value)"""
            if r.uid not in rfsrc: return I(NEG)
            rfv, cands = rfsrc[r.uid]
            out = I(NEG)
            for i, w in enumerate(cands):
                out = z3.If(rfv == i + 1, RS[(w.uid, u)], out)
            return out
        for t in tids:
            prev = None
            for e in per[t]:
                en = s.en[e.uid]
                for u in tids:
                    pv = VC[(prev.uid, u)] if prev is not None else I(NEG)
                    plf = LF[(prev.uid, u)] if prev is not None else I(NEG)
                    ppa = PA[(prev.uid, u)] if prev is not None else I(NEG)
                    if check_tid is not None and t == check_tid:
                        cons.append(VC[(e.uid, u)] == I(BIG)); cons.append(LF[(e.uid, u)] == I(NEG)); cons.append(PA[(e.uid, u)] == I(NEG))
                        if e.kind in ('W', 'RMW'): cons.append(RS[(e.uid, u)] == I(NEG))
                        continue
                    own = I(e.idx) if u == t else pv
                    val = own if u == t else pv
                    # acquire side
                    if e.kind in ('R', 'RMW', 'WAIT') and e.order != 'na':
                        src = rs_of_source(e, u)
                        if e.order in ACQ or (e.kind == 'RMW' and e.order in ACQ):
                            val = mx(val, src)
                        new_pa = mx(ppa, src)
                    else:
                        new_pa = ppa
                    if e.kind == 'F' and e.order in ACQ:
                        val = mx(val, ppa)
                    if u == t: val = I(e.idx)
                    cons.append(VC[(e.uid, u)] == z3.If(en, val, pv))
                    cons.append(PA[(e.uid, u)] == z3.If(en, new_pa, ppa))
                    # release fences
                    if e.kind == 'F' and e.order in REL:
                        cons.append(LF[(e.uid, u)] == z3.If(en, VC[(e.uid, u)], plf))
                    else:
                        cons.append(LF[(e.uid, u)] == plf)
                    # release information of writes
                    if e.kind in ('W', 'RMW') and e.order != 'na':
                        r = plf                                     # a release fence sequenced before an atomic write
                        if e.order in REL: r = mx(r, VC[(e.uid, u)])
                        if e.kind == 'RMW': r = mx(r, rs_of_source(e, u))   # RMWs continue the release sequence they read from
                        cons.append(RS[(e.uid, u)] == r)
                    elif e.kind in ('W', 'RMW'):
                        cons.append(RS[(e.uid, u)] == I(NEG))
                prev = e
        s.VC = VC
        return cons

    def race_items(s):
        """pairs of conflicting accesses of different threads, at least one non-atomic, with the condition 'both enabled and unordered by hb'"""
        out = []
        acc = [e for e in s.events if e.kind in ('R', 'W', 'RMW', 'WAIT')]
        T = len(s.threads)
        check_tid = T if s.has_check else None
        byobj = {}
        for e in acc: byobj.setdefault(e.obj, []).append(e)
        for obj, evs in byobj.items():
            for i in range(len(evs)):
                a = evs[i]
                for j in range(i + 1, len(evs)):
                    b = evs[j]
                    if a.tid == b.tid or a.tid == check_tid or b.tid == check_tid: continue
                    if a.addr + a.width <= b.addr or b.addr + b.width <= a.addr: continue
                    if a.kind == 'R' and b.kind == 'R': continue
                    if a.kind in ('R', 'WAIT') and b.kind in ('R', 'WAIT'): continue
                    if a.order != 'na' and b.order != 'na': continue
                    hb_ab = s.VC[(b.uid, a.tid)] >= a.idx
                    hb_ba = s.VC[(a.uid, b.tid)] >= b.idx
                    wa = s.en_w(a) if a.kind == 'RMW' else s.en[a.uid]
                    wb = s.en_w(b) if b.kind == 'RMW' else s.en[b.uid]
                    # a failed cmpxchg is only a read
                    ena = s.en[a.uid]; enb = s.en[b.uid]
                    if a.kind == 'RMW' and b.kind in ('R', 'WAIT'): ena = wa
                    if b.kind == 'RMW' and a.kind in ('R', 'WAIT'): enb = wb
                    out.append((a, b, z3.And(ena, enb, z3.Not(hb_ab), z3.Not(hb_ba))))
        return out
