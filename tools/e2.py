#!/usr/bin/env python3
"""E2 driver: scenario .cpp -> clang IR -> irsym (event lists) -> mm (SC / HB encodings) -> z3 queries."""
import os, sys, json, time, subprocess, hashlib, traceback
VERIF = os.path.dirname(os.path.dirname(os.path.abspath(__file__)))
sys.path.insert(0, os.path.join(VERIF, 'tools'))
REPO = os.environ.get('VF_REPO', '/repo')
import z3
import irsym, irdag, mm

CLANG = 'clang++-14'
CLANG_FLAGS = ['-std=c++20', '-O1', '-fno-vectorize', '-fno-slp-vectorize', '-fno-unroll-loops', '-fno-exceptions' if False else '-fexceptions',
               '-D_GLIBCXX_TSAN', '-I' + os.path.join(VERIF, 'shadow'), '-I' + os.path.join(REPO, 'src'),
               '-I' + os.path.join(VERIF, 'harness'), '-S', '-emit-llvm']


def compile_scenario(cpp, workdir, defines=()):
    os.makedirs(workdir, exist_ok=True)
    base = os.path.splitext(os.path.basename(cpp))[0]
    if defines: base += '_' + hashlib.md5(' '.join(defines).encode()).hexdigest()[:8]
    ll = os.path.join(workdir, base + '.ll')
    p = subprocess.run([CLANG] + CLANG_FLAGS + ['-D' + d for d in defines] + [cpp, '-o', ll], stdout=subprocess.PIPE, stderr=subprocess.PIPE)
    if p.returncode != 0:
        raise Exception('clang failed: ' + p.stderr.decode()[-3000:])
    return ll


def has_check_reach(items):
    return any(isinstance(cond, str) and cond == 'REACH' for (tid, en, cond, msg) in items)


def analyse(ll, nthreads, opts=None, log=None, mode='sc'):
    """returns dict with verdicts"""
    t0 = time.time()
    eng = irsym if (opts or {}).get('engine') == 'tree' else irdag
    sc, threads, has_check = eng.build_scenario(ll, nthreads, opts, log)
    t_sym = time.time() - t0
    M = mm.Model(sc, threads, has_check, timeout_ms=(opts or {}).get('timeout_ms', 600000))
    res = {'events': M.stats['events'], 'paths': [len(t[1]) for t in threads], 'passes': sc.passes, 'symex_s': round(t_sym, 2),
           'violations': [], 'undecided': [], 'reached': [], 'queries': M.queries, 'shared_objects': len(sc.shared)}
    items = M.assertion_items()
    # group by message
    groups = {}
    for (tid, en, cond, msg) in items:
        kind = cond if isinstance(cond, str) else 'ASSERT'
        if kind == 'ASSERT':
            bad = en if cond is False else z3.And(en, z3.Not(cond))
        else:
            bad = en
        groups.setdefault((kind, msg), []).append(bad)
    # one combined query for everything that must be unreachable; split only if it is satisfiable
    must_unsat = [(k, b) for k, b in sorted(groups.items(), key=lambda x: x[0]) if k[0] in ('ASSERT', 'BOUND', 'UNSUP')]
    split = True
    if len(must_unsat) > 1:
        r, model, q = M.solve([z3.Or(*[z3.Or(*b) for _, b in must_unsat])], 'all %d assertion groups at once: %s' % (len(must_unsat), ' | '.join(k[1][:40] for k, _ in must_unsat)[:600]))
        if r == 'unsat':
            split = False
            res['n_assertion_groups'] = len(must_unsat)
    for (kind, msg), bads in sorted(groups.items(), key=lambda x: x[0]):
        if kind in ('ASSERT', 'BOUND', 'UNSUP') and not split: continue
        r, model, q = M.solve([z3.Or(*bads)], '%s: %s' % (kind.lower(), msg))
        if r == 'unknown':
            res['undecided'].append('%s: %s (%s)' % (kind, msg, q.get('reason')))
        elif kind == 'REACH':
            if r == 'sat': res['reached'].append(msg)
            else: res['undecided'].append('witness not reachable: ' + msg)
        elif kind == 'BOUND':
            if r == 'sat': res['undecided'].append('bound insufficient: ' + msg)
        elif kind == 'UNSUP':
            if r == 'sat': res['undecided'].append(msg + ' (reachable)')
        elif r == 'sat':
            res['violations'].append({'assertion': msg, 'trace': M.trace(model), 'nondet': nondet_of(M, model)})
    # lifetime
    uaf = M.uaf_items()
    if uaf:
        r, model, q = M.solve([z3.Or(*[c for (_, _, c) in uaf])], 'lifetime: access after release / double delete')
        if r == 'sat':
            which = [(f, e) for (f, e, c) in uaf if z3.is_true(model.eval(c, model_completion=True))]
            f, e = which[0]
            res['violations'].append({'assertion': 'memory: object %s touched after its release (%s then %s)' % (sc.obj_by_base[f.obj].name, f.site, e.site),
                                      'trace': M.trace(model), 'nondet': nondet_of(M, model)})
        elif r == 'unknown': res['undecided'].append('lifetime query: ' + str(q.get('reason')))
    if mode == 'hb':
        # C++20 happens-before over the SC executions: data races (C03)
        hbc = M.build_hb()
        races = M.race_items()
        res['race_pairs'] = len(races)
        if races:
            r, model, q = M.solve(hbc + [z3.Or(*[c for (_, _, c) in races])], 'data race: %d conflicting access pairs, at least one non-atomic, unordered by happens-before' % len(races))
            if r == 'sat':
                hit = [(a, b) for (a, b, c) in races if z3.is_true(model.eval(c, model_completion=True))]
                a, b = hit[0]
                oa = sc.obj_by_base.get(a.obj)
                res['violations'].append({'assertion': 'data race: %s (%s %s) and %s (%s %s) on %s+%d are not ordered by happens-before' %
                                          (a.site, a.kind, a.order, b.site, b.kind, b.order, oa.name if oa else '?', a.addr - (oa.base if oa else 0)),
                                          'trace': M.trace(model), 'nondet': nondet_of(M, model), 'race': True})
            elif r == 'unknown': res['undecided'].append('race query: ' + str(q.get('reason')))
    dl = M.deadlock_cond()
    if dl is not None:
        r, model, q = M.solve([dl], 'deadlock: a thread blocked forever')
        if r == 'sat':
            res['violations'].append({'assertion': 'deadlock: a thread stays blocked in wait() although every other thread has finished', 'trace': M.trace(model), 'nondet': nondet_of(M, model)})
        elif r == 'unknown': res['undecided'].append('deadlock query: ' + str(q.get('reason')))
    # every thread can complete (sanity / vacuity)
    if res['reached'] and has_check_reach(items):
        res['complete_witness'] = True      # a witness inside vf_check is only reachable when every thread ran to completion
    else:
        r, model, q = M.solve([M.all_complete], 'witness: all threads can run to completion')
        if r != 'sat': res['undecided'].append('no execution in which all threads complete (scenario vacuous?)')
        else: res['complete_witness'] = True
    res['solver_s'] = round(M.stats['solver_s'], 2)
    res['rf_edges'] = M.stats['rf_edges']
    res['n_queries'] = M.stats['queries']
    res['M'] = M
    return res


# ---------------------------------------------------------------------------------------------- check.py integration
def schedule_of(trace, nthreads):
    return [(row['tid'], row['sched']) for row in trace if 1 <= row['tid'] <= nthreads]


def nondet_of(M, model):
    out = []
    for x in M.sc.nd_syms:
        n = x.decl().name().split('_')
        v = model.eval(x, model_completion=True).as_long()
        if v >= 1 << (x.size() - 1): v -= 1 << x.size()
        out.append((int(n[1]), int(n[2]), v))
    out.sort()
    return [(t, v) for (t, k, v) in out]


def run_scenario(spec):
    """child-process entry: spec = dict(name, cpp, defines, nthreads, opts, workdir, replay). Returns a picklable summary."""
    t0 = time.time()
    out = {'name': spec['name'], 'defines': list(spec.get('defines', ())), 'nthreads': spec['nthreads'], 'violations': [], 'undecided': [],
           'status': 'done'}
    import signal, resource
    class _Timeout(Exception): pass
    def _alarm(sig, frm): raise _Timeout()
    try:
        resource.setrlimit(resource.RLIMIT_AS, (int(spec.get('mem_gb', 10)) << 30, resource.RLIM_INFINITY))
    except Exception: pass
    signal.signal(signal.SIGALRM, _alarm)
    signal.alarm(int(spec.get('timeout_s', 900)))
    try:
        wd = os.path.join(spec['workdir'], spec['name'])
        ll = compile_scenario(spec['cpp'], wd, spec.get('defines', ()))
        r = analyse(ll, spec['nthreads'], spec.get('opts'), mode=spec.get('mode', 'sc'))
        M = r.pop('M')
        out.update({k: r[k] for k in ('events', 'paths', 'passes', 'symex_s', 'solver_s', 'rf_edges', 'n_queries', 'shared_objects', 'reached')})
        out['queries'] = r['queries']
        out['undecided'] = r['undecided']
        out['complete_witness'] = r.get('complete_witness', False)
        out['functions'] = sorted(set(f for f in (e.site.split(':')[0] for e in M.events)))
        exe = None
        for v in r['violations']:
            sch = schedule_of(v['trace'], spec['nthreads'])
            rec = {'assertion': v['assertion'], 'schedule': sch, 'nondet': v['nondet'], 'race': bool(v.get('race')),
                   'trace': [{k: row[k] for k in ('clk', 'tid', 'kind', 'order', 'obj', 'read', 'write', 'site')} for row in v['trace']]}
            if spec.get('replay', True):
                import e2replay
                try:
                    if v.get('race'):
                        texe = e2replay.build_tsan(ll, wd)
                        rc, err = e2replay.run(texe, sch, v['nondet'], wd)
                    else:
                        if exe is None: exe = e2replay.build(ll, wd, sanitize=False)
                        rc, err = e2replay.run(exe, sch, v['nondet'], wd)
                    ok, how = e2replay.classify(rc, err, tsan=bool(v.get('race')))
                    if v.get('race') and 'ThreadSanitizer: data race' not in err: ok = False
                    if ok and not e2replay.same_kind(v['assertion'], rc, err):
                        # the native run fails, but not in the way the model says (e.g. an unrelated abort): that confirms nothing
                        ok, how = False, 'native run under the forced schedule fails differently (%s): not a reproduction of "%s"' % (how[:200], v['assertion'][:80])
                    if not ok and v['assertion'].startswith('memory:'):
                        # lifetime violations do not crash a native run by themselves: confirm with valgrind under the same schedule
                        rc, err = e2replay.run(exe, sch, v['nondet'], wd, valgrind=True)
                        ok, how = e2replay.classify(rc, err)
                        if ok and not e2replay.same_kind(v['assertion'], rc, err): ok = False
                except Exception as ex:
                    ok, how = False, 'replay machinery failed: %s' % ex
                rec['reproduced'] = ok; rec['how'] = how
            out['violations'].append(rec)
    except irsym.Unsupported as ex:
        out['status'] = 'unsupported'; out['undecided'] = ['unsupported: %s' % ex]
    except _Timeout:
        out['status'] = 'timeout'; out['undecided'] = ['not decided within %d s' % int(spec.get('timeout_s', 900))]
    except MemoryError:
        out['status'] = 'memout'; out['undecided'] = ['not decided within the memory limit']
    except Exception as ex:
        out['status'] = 'error'; out['undecided'] = ['internal error: %s' % traceback.format_exc()[-1500:]]
    signal.alarm(0)
    out['wall_s'] = round(time.time() - t0, 2)
    return out


def replay(rep):
    """check.py --replay for an E2 replay file"""
    import e2replay, tempfile
    wd = tempfile.mkdtemp(prefix='vf_e2replay_')
    try:
        cpp = rep['cpp'] if os.path.isabs(rep['cpp']) else os.path.join(VERIF, 'harness', rep['cpp'])
        ll = compile_scenario(cpp, wd, rep.get('defines', ()))
        exe = e2replay.build_tsan(ll, wd) if rep.get('race') else e2replay.build(ll, wd, sanitize=False)
        rc, err = e2replay.run(exe, [tuple(x) for x in rep['schedule']], [tuple(x) for x in rep['nondet']], wd)
        ok, how = e2replay.classify(rc, err)
        if not ok and rep.get('assertion', '').startswith('memory:'):
            rc, err = e2replay.run(exe, [tuple(x) for x in rep['schedule']], [tuple(x) for x in rep['nondet']], wd, valgrind=True)
            ok, how = e2replay.classify(rc, err)
        return ok, how
    finally:
        import shutil; shutil.rmtree(wd, ignore_errors=True)


def run_unit(prop, unit, tier, out, known, workdir):
    """check.py integration: a unit = a family of scenarios (one clang + interpreter + solver run each), in parallel processes"""
    from concurrent.futures import ProcessPoolExecutor
    import check as chk
    cpp = unit['tu'] if os.path.isabs(unit['tu']) else os.path.join(VERIF, 'harness', unit['tu'])
    specs = []
    for sc_ in unit['scenarios']:
        specs.append({'name': sc_['name'], 'cpp': cpp, 'defines': sc_.get('defines', ()), 'nthreads': sc_['nthreads'],
                      'opts': dict(unit.get('opts', {}), **sc_.get('opts', {})), 'workdir': workdir, 'mode': sc_.get('mode', unit.get('mode', 'sc')),
                      'timeout_s': sc_.get('timeout_s', unit.get('timeout_s', 900)), 'mem_gb': unit.get('mem_gb', 10)})
    jobs = int(os.environ.get('VF_JOBS', str(os.cpu_count() or 4)))
    t0 = time.time()
    from concurrent.futures import ThreadPoolExecutor

    def one(spec):
        # every scenario runs in its own interpreter process: a solver crash / memory-out only loses that scenario
        wd = os.path.join(workdir, spec['name']); os.makedirs(wd, exist_ok=True)
        sf = os.path.join(wd, 'spec.json'); rf = os.path.join(wd, 'result.json')
        json.dump(spec, open(sf, 'w'))
        try:
            p = subprocess.run([sys.executable, os.path.abspath(__file__), '--spec', sf, '--out', rf], stdout=subprocess.PIPE, stderr=subprocess.PIPE,
                               timeout=spec['timeout_s'] + 120)
            if os.path.exists(rf):
                return json.load(open(rf))
            return {'name': spec['name'], 'defines': spec['defines'], 'nthreads': spec['nthreads'], 'violations': [], 'status': 'crashed',
                    'undecided': ['scenario process ended without a result (rc=%s): %s' % (p.returncode, p.stderr.decode('utf8', 'replace')[-300:])]}
        except subprocess.TimeoutExpired:
            return {'name': spec['name'], 'defines': spec['defines'], 'nthreads': spec['nthreads'], 'violations': [], 'status': 'timeout',
                    'undecided': ['not decided within %d s' % spec['timeout_s']]}

    with ThreadPoolExecutor(max_workers=jobs) as ex:
        results = list(ex.map(one, specs))
    urec = {'name': unit['name'], 'engine': 'E2 irsym+mm+z3 (%s)' % unit.get('mode', 'sc'), 'tu': unit['tu'], 'scenarios': len(specs),
            'space': unit.get('space', ''), 'bounds': unit.get('bounds', ''), 'outside': unit.get('outside', ''), 'wall_s': round(time.time() - t0, 1),
            'per_scenario': []}
    cov = out.cov
    for r in results:
        cov['evaluations'] += r.get('n_queries', 0) or 1
        urec['per_scenario'].append({k: r.get(k) for k in ('name', 'defines', 'nthreads', 'status', 'events', 'paths', 'passes', 'rf_edges', 'n_queries', 'symex_s', 'solver_s', 'wall_s', 'reached')})
        if r['status'] != 'done':
            out.undecided.append('%s/%s: %s' % (unit['name'], r['name'], '; '.join(r['undecided'])[:400]))
            continue
        for u in r['undecided']:
            out.undecided.append('%s/%s: %s' % (unit['name'], r['name'], u))
        cov['states'] += r['events']; cov['transitions'] += r['rf_edges']
        cov['solver_s'] += r['solver_s']; cov['symex_s'] += r['symex_s']
        nq = r['n_queries']
        cov['obligations'] += nq
        cov['discharged'] += nq - len(r['violations'])
        if r.get('complete_witness') and (r['reached'] or True):
            cov['distinct_nontrivial'] += 1
        out.functions.update(f for f in r.get('functions', []) if f.startswith('_ZN5cocls') or 'cocls' in f)
        if len(cov['samples']) < 6:
            cov['samples'].append({'unit': unit['name'], 'scenario': r['name'], 'defines': r['defines'], 'threads': r['nthreads'], 'events': r['events'],
                                   'paths_per_thread': r['paths'], 'rf_candidate_edges': r['rf_edges'],
                                   'queries': [(q['name'], q['result'], q['time_s']) for q in r['queries']][:12]})
        for v in r['violations']:
            k = chk.known_match(known, prop, unit['name'], v['assertion'], [r['name']])
            if k is not None:
                if k not in out.known: out.known.append(k)
                continue
            rdir = os.path.join(VERIF, 'replay', prop); os.makedirs(rdir, exist_ok=True)
            h = hashlib.md5((r['name'] + v['assertion']).encode()).hexdigest()[:10]
            rpath = os.path.join(rdir, '%s_%s.json' % (r['name'], h))
            rep = {'property': prop, 'engine': 'e2', 'cpp': unit['tu'], 'defines': r['defines'], 'nthreads': r['nthreads'], 'scenario': r['name'],
                   'assertion': v['assertion'], 'schedule': v['schedule'], 'nondet': v['nondet'], 'trace': v['trace'], 'race': v.get('race', False),
                   'replay_outcome': v.get('how')}
            json.dump(rep, open(rpath, 'w'), indent=1)
            if v.get('reproduced'):
                cov['traces_validated_against_impl'] += 1
                if not any(x[2] == v['assertion'] for x in out.violations):
                    out.violations.append((prop, rpath, v['assertion'], [r['name']]))
            else:
                out.undecided.append('%s/%s: counterexample for "%s" was not reproduced by the forced-schedule native run (%s) - UNCONFIRMED, see %s'
                                     % (unit['name'], r['name'], v['assertion'], v.get('how'), rpath))
    cov['units'].append(urec)


if __name__ == '__main__' and len(sys.argv) > 1 and sys.argv[1] == '--spec':
    spec = json.load(open(sys.argv[2]))
    r = run_scenario(spec)
    json.dump(r, open(sys.argv[4], 'w'), default=str)
    sys.exit(0)

if __name__ == '__main__':
    cpp = sys.argv[1]; n = int(sys.argv[2])
    ll = compile_scenario(cpp, '/tmp/e2w')
    r = analyse(ll, n, log=print)
    r.pop('M')
    for v in r['violations']:
        print('VIOLATION', v['assertion'])
        for row in v['trace']:
            print('   %4d t%d %-4s %-8s %-40s r=%s w=%s  %s' % (row['clk'], row['tid'], row['kind'], row['order'], row['obj'], row['read'], row['write'], row['site'][-50:]))
    r['violations'] = [v['assertion'] for v in r['violations']]
    print(json.dumps(r, indent=1, default=str)[:3000])


