#!/usr/bin/env python3
"""E2 driver: scenario .cpp -> clang IR -> irsym (event lists) -> mm (SC / HB encodings) -> z3 queries."""
import os, sys, json, time, subprocess, hashlib, traceback
VERIF = os.path.dirname(os.path.dirname(os.path.abspath(__file__)))
sys.path.insert(0, os.path.join(VERIF, 'tools'))
REPO = os.environ.get('VF_REPO', '/repo')
import z3
import irsym, mm

CLANG = 'clang++-14'
CLANG_FLAGS = ['-std=c++20', '-O1', '-fno-vectorize', '-fno-slp-vectorize', '-fno-unroll-loops', '-fno-exceptions' if False else '-fexceptions',
               '-D_GLIBCXX_TSAN', '-I' + os.path.join(VERIF, 'shadow'), '-I' + os.path.join(REPO, 'src'),
               '-I' + os.path.join(VERIF, 'harness'), '-S', '-emit-llvm']


def compile_scenario(cpp, workdir, defines=()):
    os.makedirs(workdir, exist_ok=True)
    base = os.path.splitext(os.path.basename(cpp))[0]
    if defines: base += '_' + hashlib.md5(' '.join(defines).encode()).hexdigest()[:8]
    ll = os.path.join(workdir, base + '.ll')
    p = subprocess.run([CLANG] + CLANG_FLAGS + ['-D' + d for d in defines] + [cpp, '-o', ll], stdout=subprocess.PIPE, stderr=subprocess.PIPE)
    if p.returncode != 0:
        raise Exception('clang failed: ' + p.stderr.decode()[-3000:])
    return ll


def analyse(ll, nthreads, opts=None, log=None, mode='sc'):
    """returns dict with verdicts"""
    t0 = time.time()
    sc, threads, has_check = irsym.build_scenario(ll, nthreads, opts, log)
    t_sym = time.time() - t0
    M = mm.Model(sc, threads, has_check, timeout_ms=(opts or {}).get('timeout_ms', 600000))
    res = {'events': M.stats['events'], 'paths': [len(t[1]) for t in threads], 'passes': sc.passes, 'symex_s': round(t_sym, 2),
           'violations': [], 'undecided': [], 'reached': [], 'queries': M.queries, 'shared_objects': len(sc.shared)}
    items = M.assertion_items()
    # group by message
    groups = {}
    for (tid, en, cond, msg) in items:
        kind = cond if isinstance(cond, str) else 'ASSERT'
        if kind == 'ASSERT':
            bad = en if cond is False else z3.And(en, z3.Not(cond))
        else:
            bad = en
        groups.setdefault((kind, msg), []).append(bad)
    for (kind, msg), bads in sorted(groups.items(), key=lambda x: x[0]):
        r, model, q = M.solve([z3.Or(*bads)], '%s: %s' % (kind.lower(), msg))
        if r == 'unknown':
            res['undecided'].append('%s: %s (%s)' % (kind, msg, q.get('reason')))
        elif kind == 'REACH':
            if r == 'sat': res['reached'].append(msg)
            else: res['undecided'].append('witness not reachable: ' + msg)
        elif kind == 'BOUND':
            if r == 'sat': res['undecided'].append('bound insufficient: ' + msg)
        elif r == 'sat':
            res['violations'].append({'assertion': msg, 'trace': M.trace(model)})
    # lifetime
    uaf = M.uaf_items()
    if uaf:
        r, model, q = M.solve([z3.Or(*[c for (_, _, c) in uaf])], 'lifetime: access after release / double delete')
        if r == 'sat':
            which = [(f, e) for (f, e, c) in uaf if z3.is_true(model.eval(c, model_completion=True))]
            f, e = which[0]
            res['violations'].append({'assertion': 'memory: object %s touched after its release (%s then %s)' % (sc.obj_by_base[f.obj].name, f.site, e.site),
                                      'trace': M.trace(model)})
        elif r == 'unknown': res['undecided'].append('lifetime query: ' + str(q.get('reason')))
    dl = M.deadlock_cond()
    if dl is not None:
        r, model, q = M.solve([dl], 'deadlock: a thread blocked forever')
        if r == 'sat':
            res['violations'].append({'assertion': 'deadlock: a thread stays blocked in wait() although every other thread has finished', 'trace': M.trace(model)})
        elif r == 'unknown': res['undecided'].append('deadlock query: ' + str(q.get('reason')))
    # every thread can complete (sanity / vacuity)
    r, model, q = M.solve([M.all_complete], 'witness: all threads can run to completion')
    if r != 'sat': res['undecided'].append('no execution in which all threads complete (scenario vacuous?)')
    else: res['complete_witness'] = True
    res['solver_s'] = round(M.stats['solver_s'], 2)
    res['rf_edges'] = M.stats['rf_edges']
    res['n_queries'] = M.stats['queries']
    res['M'] = M
    return res


if __name__ == '__main__':
    cpp = sys.argv[1]; n = int(sys.argv[2])
    ll = compile_scenario(cpp, '/tmp/e2w')
    r = analyse(ll, n, log=print)
    r.pop('M')
    for v in r['violations']:
        print('VIOLATION', v['assertion'])
        for row in v['trace']:
            print('   %4d t%d %-4s %-8s %-40s r=%s w=%s  %s' % (row['clk'], row['tid'], row['kind'], row['order'], row['obj'], row['read'], row['write'], row['site'][-50:]))
    r['violations'] = [v['assertion'] for v in r['violations']]
    print(json.dumps(r, indent=1, default=str)[:3000])
