#!/usr/bin/env python3
"""Per-property check driver.

  python3 tools/check.py <ID> --tier quick|thorough
  python3 tools/check.py <ID> --replay <file>

Exit codes: 0 property held on everything explored (KNOWN-FINDING lines allowed);
            1 reproduced violation (a line `VIOLATION property=<id> replay=<path>` is printed);
            2 the check could not decide (translator mismatch, vacuous harness, undecided query, bound insufficient,
              unreproduced counterexample) - never reported as success and never as a violation.
"""
import os, sys, json, time, argparse, importlib.util, shutil, traceback, re, hashlib
from concurrent.futures import ThreadPoolExecutor

VERIF = os.path.dirname(os.path.dirname(os.path.abspath(__file__)))
sys.path.insert(0, os.path.join(VERIF, 'tools')); sys.path.insert(0, os.path.join(VERIF, 'harness'))
import e1

BUILD_ROOT = os.environ.get('VF_BUILD', os.path.join(VERIF, 'build'))

STUBS_E1 = [
    'operator new/delete = malloc/free that never fail (cbmc --no-malloc-may-fail); allocation counters kept by rt/rt.h',
    'Itanium EH runtime modelled by a pending-exception flag (rt/rt.h); uncaught exception at harness exit = failure',
    'library assert() (NDEBUG off) -> proof obligation, then assume(false)',
    'std::terminate / pure virtual / llvm.trap / unreachable -> failure',
    'std::atomic wait/notify -> shadow <bits/atomic_wait.h>: waiting on an unchanged value = "blocks forever" failure',
    'pthread_mutex_lock/unlock -> lock word with double-lock / unlock-of-free failures (single modelled thread)',
    'atomics executed sequentially (one modelled thread; C11: cooperative thread table); thread_local = global (C11: one copy per modelled thread)',
    'a second thread exists only as a complete operation placed by the harness: in front of the k-th mutex acquisition (vf_inject_arm), in front of the k-th '
    'atomic instruction (vf_ainject_arm), or when the thread under test blocks in an atomic wait (vf_wait_arm); units that use them say so in skeleton_space',
    'every load/store guarded by assert-then-assume __CPROVER_rw_ok (invalid/freed/out-of-bounds access = failure)',
    'clang-14 -O1 IR of the real headers is what is encoded; counterexamples are replayed on a g++ -fsanitize=address,undefined build',
]


def load_spec(prop):
    path = os.path.join(VERIF, 'harness', prop + '.py')
    spec = importlib.util.spec_from_file_location('spec_' + prop, path)
    mod = importlib.util.module_from_spec(spec)
    spec.loader.exec_module(mod)
    return mod


def load_known():
    p = os.path.join(VERIF, 'known_findings.json')
    if not os.path.exists(p):
        return []
    return json.load(open(p)).get('findings', [])


def known_match(known, prop, unit_name, desc, choices):
    for k in known:
        if k.get('property') != prop or k.get('status') != 'known':
            continue
        if k.get('entry') and k['entry'] != unit_name:
            continue
        if k.get('assertion') and k['assertion'] not in desc:
            continue
        if k.get('choices_regex') and not re.search(k['choices_regex'], ','.join(map(str, choices))):
            continue
        return k
    return None


class Outcome:
    def __init__(self):
        self.violations = []       # reproduced, not known
        self.known = []            # known findings seen
        self.undecided = []        # reasons
        self.cov = {'evaluations': 0, 'distinct_nontrivial': 0, 'states': 0, 'transitions': 0,
                    'traces_validated_against_impl': 0, 'obligations': 0, 'discharged': 0, 'samples': [],
                    'solver_s': 0.0, 'symex_s': 0.0, 'units': [], 'exhaustive': True}
        self.functions = set()
        self.assumptions = set()


def run_e1_unit(prop, unit, tier, out, known, workdir, tus):
    key = (unit['tu'], tuple(unit.get('defines', ())))
    if key not in tus:
        tu = e1.TU(prop, unit['tu'], workdir, unit.get('defines', ()))
        tu.build()
        tus[key] = tu
    tu = tus[key]
    entry = unit['entry']
    uname = unit.get('name', entry)
    if entry not in tu.entries:
        out.undecided.append('%s: entry %s not found in %s' % (uname, entry, unit['tu']))
        return
    out.functions.update(tu.cocls_functions)
    out.assumptions.update(unit.get('assumptions', ()))      # unit-specific environment models (e.g. C11: cooperative thread model)
    urec = {'name': uname, 'engine': 'E1 ir2c+cbmc', 'tu': unit['tu'], 'entry': entry, 'unwind': unit['unwind'],
            'skeleton_space': unit.get('space', ''), 'vectors': len(unit['vectors']), 'ir_lines': tu.ir_lines,
            'timing': dict(tu.timing), 'data_inputs': unit.get('data', ''), 'bounds': unit.get('bounds', ''),
            'outside': unit.get('outside', '')}
    # 1. translator validation on concrete vectors
    conc = unit.get('concrete', [])
    if conc:
        ok, problems = tu.validate_translation(entry, conc)
        urec['translator_validation'] = {'vectors': len(conc), 'agree': ok}
        out.cov['traces_validated_against_impl'] += ok
        if problems:
            urec['translator_validation']['problems'] = problems[:3]
            # the run cannot end with "held": exit 2 unless the solver finds a counterexample that reproduces natively (a disagreement is often the
            # first symptom of a real defect whose concrete run executes undefined behaviour or depends on timing); the queries are still made
            out.undecided.append('%s: translated C and native g++ build disagree on %d concrete vector(s): %s' % (uname, len(problems), json.dumps(problems[0])[:600]))
    # 2. solver queries
    vecs = unit['vectors']
    timeout = unit.get('timeout', 600)
    t0 = time.time()

    def job(v):
        return tu.query(entry, v, unit['unwind'], timeout=timeout, object_bits=unit.get('object_bits', 12), extra=unit.get('cbmc_extra', ()))

    with ThreadPoolExecutor(max_workers=min(e1.NJOBS, unit.get('jobs', e1.NJOBS))) as ex:
        results = list(ex.map(job, vecs))
    # a query that was killed long before its time limit fell victim to memory pressure (many large queries side by side): once more, one at a time
    for i, r in enumerate(results):
        if r['status'] == 'killed':
            results[i] = job(vecs[i])
            if results[i]['status'] == 'killed': results[i]['status'] = 'timeout'
    urec['wall_s'] = round(time.time() - t0, 1)
    nontrivial = 0
    viol_groups = {}
    n_done = 0
    for r in results:
        out.cov['evaluations'] += 1
        if r['status'] != 'done':
            out.undecided.append('%s %s: query %s (%s)' % (uname, r['choices'], r['status'], r.get('error', '')[:300]))
            out.cov['exhaustive'] = False
            continue
        n_done += 1
        wit, viol, unw, spec = e1.classify(r)
        out.cov['states'] += r['steps']
        out.cov['transitions'] += r['vccs']
        out.cov['solver_s'] += r['solver_s']; out.cov['symex_s'] += r['symex_s']
        nprops = r['n_properties'] - 1   # the witness is not an obligation
        out.cov['obligations'] += nprops
        out.cov['discharged'] += nprops - len(viol) - len(unw) - len(spec)
        if spec:
            out.undecided.append('%s %s: harness/spec mismatch: %s' % (uname, r['choices'], spec[0]['desc']))
        if unw:
            out.undecided.append('%s %s: bound insufficient (%s)' % (uname, r['choices'], unw[0]['id']))
        if wit:
            nontrivial += 1
        elif not viol and not spec and not unw:
            out.undecided.append('%s %s: reachability witness not reached - harness vacuous for this vector' % (uname, r['choices']))
        for f in viol:
            viol_groups.setdefault(f['desc'], []).append(r)
    out.cov['distinct_nontrivial'] += nontrivial
    urec['witness_reached'] = nontrivial
    urec['max_rss_mb'] = max([r.get('rss_mb', 0) for r in results] or [0])
    urec['sat_backend'] = 'CaDiCaL (cbmc --sat-solver cadical)' if 'cadical' in unit.get('cbmc_extra', ()) else 'MiniSat 2.2.1 (cbmc default); %d quer%s decided by CaDiCaL after a MiniSat time-out' % (sum(1 for r in results if 'cadical' in r.get('sat_backend', '')), 'y' if sum(1 for r in results if 'cadical' in r.get('sat_backend', '')) == 1 else 'ies')
    urec['decided'] = n_done
    if results:
        for r in results[:2] + results[-1:]:
            out.cov['samples'].append({'unit': uname, 'skeleton_vector': r['choices'], 'status': r['status'],
                                       'steps': r.get('steps'), 'vccs': r.get('vccs'), 'properties': r.get('n_properties'),
                                       'failed': [f['desc'] for f in r.get('failed', [])][:4], 'wall_s': r['wall_s']})
    # 3. counterexamples: trace -> replay on the real code
    urec['counterexamples'] = []
    for desc, rs in sorted(viol_groups.items()):
        # shortest vector first: simplest reproducer
        rs.sort(key=lambda r: (len(r['choices']), r['choices']))
        handled_known = set()
        reported = False
        for r in rs:
            k = known_match(known, prop, uname, desc, r['choices'])
            if k is not None:
                if id(k) not in handled_known:
                    handled_known.add(id(k))
                    if k not in out.known: out.known.append(k)
                continue
            if reported:
                continue
            reported = True
            pid = [f['id'] for f in r['failed'] if f['desc'] == desc][0]
            tr = tu.query(entry, r['choices'], unit['unwind'], timeout=timeout, object_bits=unit.get('object_bits', 12),
                          trace_property=pid, extra=unit.get('cbmc_extra', ()))
            nd = []
            for f in tr.get('failed', []):
                if f['id'] == pid and f.get('trace'):
                    nd = e1.nd_values_from_trace(f['trace'])
            rdir = os.path.join(VERIF, 'replay', prop)
            os.makedirs(rdir, exist_ok=True)
            h = hashlib.md5((uname + desc + str(r['choices'])).encode()).hexdigest()[:10]
            rpath = os.path.join(rdir, '%s_%s.json' % (uname, h))
            rep = {'property': prop, 'engine': 'e1', 'tu': unit['tu'], 'defines': list(unit.get('defines', ())), 'entry': entry,
                   'unit': uname, 'choices': r['choices'], 'nondet': nd, 'assertion': desc, 'cbmc_property': pid, 'replay_on': unit.get('replay_on', 'native')}
            ok, how = replay_e1(rep, tu)
            rep['replay_outcome'] = how
            json.dump(rep, open(rpath, 'w'), indent=1)
            urec['counterexamples'].append({'assertion': desc, 'vector': r['choices'], 'nondet': nd, 'reproduced': ok, 'how': how, 'replay': rpath,
                                            'vectors_failing': len(rs)})
            if ok:
                out.cov['traces_validated_against_impl'] += 1
                out.violations.append((prop, rpath, desc, r['choices']))
            else:
                out.undecided.append('%s %s: counterexample for "%s" did not reproduce on the native build (%s) - encoding or stub suspect' % (uname, r['choices'], desc, how))
    out.cov['units'].append(urec)


def replay_e1(rep, tu=None, workdir=None):
    if tu is None:
        workdir = workdir or os.path.join(BUILD_ROOT, rep['property'] + '_replay')
        tu = e1.TU(rep['property'], rep['tu'], workdir, rep.get('defines', ()))
        tu.build()
    rf = os.path.join(tu.work, 'replay_in.txt')
    e1.TU.write_replay(rf, rep['choices'], rep['nondet'])
    if rep.get('replay_on') == 'translation':
        # units that rely on a hook of the runtime model that has no counterpart in the g++ build (pre-park hook): the counterexample is confirmed on the
        # natively executed translation of the real code (gcc build of the generated C with the same runtime model)
        exe = tu.build_translated_native()
        rc, so, se = tu.run_native(exe, rep['entry'], rf, timeout=20)
        if rc == 42:
            m = re.search(r'VF_ASSERT_FAILED: (.*)', se)
            return True, 'natively executed translation of the real code fails: ' + (m.group(1) if m else '?')
        return False, 'native execution of the translation: exit code %d %s' % (rc, se[-200:])
    if 'lock discipline' in rep.get('assertion', ''):
        # the obligation is attached to every memory access by the translator: it is confirmed on the natively executed translation
        # of the real code (gcc build of the generated C with the same runtime model), which checks it by address range
        exe = tu.build_translated_native(discipline=True)
        rc, so, se = tu.run_native(exe, rep['entry'], rf, timeout=20)
        if rc == 42 and 'lock discipline' in se:
            return True, 'natively executed translation of the real code makes the access with the mutex unlocked: ' + se.strip()[-160:]
        return False, 'native execution of the translation: exit code %d %s' % (rc, se[-200:])
    exe = tu.build_native(True)
    rc, so, se = tu.run_native(exe, rep['entry'], rf, timeout=20)
    if rc == 42:
        m = re.search(r'VF_ASSERT_FAILED: (.*)', se)
        return True, 'native build fails assertion: ' + (m.group(1) if m else '?')
    if rc == 43 or 'AddressSanitizer' in se:
        m = re.search(r'ERROR: AddressSanitizer: ([^\n]*)', se)
        return True, 'AddressSanitizer: ' + (m.group(1)[:200] if m else '?')
    if rc == 44 or 'runtime error:' in se:
        m = re.search(r'runtime error: ([^\n]*)', se)
        return True, 'UBSan: ' + (m.group(1)[:200] if m else '?')
    if rc in (-6, 134):
        m = re.search(r'Assertion `([^\n]*)', se)
        return True, 'native build aborts: ' + (m.group(0)[:200] if m else se[-200:])
    if rc in (-11, 139):
        return True, 'native build crashes with SIGSEGV'
    if rc == -9:
        return True, 'native build hangs (killed after 20 s)'
    if rc == 77:
        return False, 'assumption violated on replay (input outside the harness precondition)'
    return False, 'native run exit code %d: %s' % (rc, se[-200:])


def thorough_units(spec, units, seed):
    """The thorough tier decides every vector / scenario of the quick tier plus the deeper plan. Where the deeper plan of a property has more skeleton
    vectors than the budget (VERIF_VECTOR_BUDGET, default 800 per property; 0 = no limit), a deterministic, evenly spread selection of it is decided
    (every vector is still one solver query over all data values); the evidence states the size of the space and of the selection. VERIF_SEED shifts the selection."""
    budget = int(os.environ.get('VERIF_VECTOR_BUDGET', '800') or 0)
    e1u = [u for u in units if u.get('engine', 'e1') == 'e1']
    tot = sum(len(u['vectors']) for u in e1u)
    if budget and tot > budget:
        for u in e1u:
            M = len(u['vectors'])
            keep = min(M, max(30, M * budget // tot))
            if keep < M:
                frac = (seed % 97) / 97.0
                idx = sorted(set(min(M - 1, int((i + frac) * M / keep)) for i in range(keep)))
                u['vectors'] = [u['vectors'][i] for i in idx]
                u['space'] = u.get('space', '') + ' -- SELECTION: %d of the %d vectors of this space are decided in this run (evenly spread over the enumeration order, offset from VERIF_SEED=%d; VERIF_VECTOR_BUDGET=0 decides all)' % (len(idx), M, seed)
                u['exhaustive'] = False
    # every quick-tier vector / scenario is part of the thorough tier
    byname = {u.get('name', u.get('entry')): u for u in units}
    for q in spec.plan('quick'):
        n = q.get('name', q.get('entry'))
        t = byname.get(n)
        if t is None:
            units.append(q); continue
        key = 'vectors' if q.get('engine', 'e1') == 'e1' else 'scenarios'
        have = set(json.dumps(v, sort_keys=True) for v in t.get(key, []))
        add = [v for v in q.get(key, []) if json.dumps(v, sort_keys=True) not in have]
        if add and (q.get('entry') != t.get('entry') or q.get('defines') != t.get('defines') or q.get('tu') != t.get('tu') or q.get('unwind', 0) > t.get('unwind', 0)):
            q = dict(q); q['name'] = n + '_quick'; units.append(q); continue
        t[key] = list(t.get(key, [])) + add
    return units


def main():
    ap = argparse.ArgumentParser()
    ap.add_argument('prop')
    ap.add_argument('--tier', default=os.environ.get('VERIF_TIER', 'quick'))
    ap.add_argument('--replay')
    ap.add_argument('--only', help='run only units whose name contains this substring (development aid; evidence marks the run partial)')
    ap.add_argument('--keep', action='store_true')
    a = ap.parse_args()
    prop = a.prop
    seed = int(os.environ.get('VERIF_SEED', '0') or 0)
    if a.replay:
        rep = json.load(open(a.replay))
        if rep.get('engine') == 'e2':
            import e2
            ok, how = e2.replay(rep)
        else:
            ok, how = replay_e1(rep)
        print('replay %s: %s' % ('REPRODUCED' if ok else 'not reproduced', how))
        if ok:
            print('VIOLATION property=%s replay=%s' % (rep['property'], a.replay))
        sys.exit(1 if ok else 0)

    t0 = time.time()
    workdir = os.path.join(BUILD_ROOT, '%s_%s_%d' % (prop, a.tier, os.getpid()))
    os.makedirs(workdir, exist_ok=True)
    out = Outcome()
    known = load_known()
    err = None
    try:
        spec = load_spec(prop)
        units = spec.plan(a.tier)
        if a.tier == 'thorough':
            units = thorough_units(spec, units, seed)
        if a.only:
            units = [u for u in units if a.only in u.get('name', u.get('entry', ''))]
            out.cov['exhaustive'] = False
        tus = {}
        # E2 units (a handful of single-threaded interpreter + z3 processes) run beside the E1 units (16 CBMC processes at a time) - each into an
        # Outcome of its own, merged when both are done - instead of adding their minutes to the wall time of the check
        import threading
        side = []
        if a.tier == 'quick' and not a.only:
            import e2
            for u in units:
                if u.get('engine', 'e1') != 'e1':
                    o2 = Outcome(); err2 = []
                    def work(u=u, o2=o2, err2=err2):
                        try: e2.run_unit(prop, u, a.tier, o2, known, workdir)
                        except Exception: err2.append('internal error in E2 unit %s: %s' % (u.get('name'), traceback.format_exc()))
                    th = threading.Thread(target=work); th.start()
                    side.append((u, th, o2, err2))
        for u in units:
            if u.get('engine', 'e1') == 'e1':
                run_e1_unit(prop, u, a.tier, out, known, workdir, tus)
            elif not side:
                import e2
                e2.run_unit(prop, u, a.tier, out, known, workdir)
            if not u.get('exhaustive', True):
                out.cov['exhaustive'] = False
        for u, th, o2, err2 in side:
            th.join()
            out.violations += o2.violations; out.undecided += o2.undecided + err2
            for k in o2.known:
                if k not in out.known: out.known.append(k)
            out.functions |= o2.functions; out.assumptions |= o2.assumptions
            for k, v in o2.cov.items():
                if isinstance(v, bool): out.cov[k] = out.cov[k] and v
                elif isinstance(v, (int, float)): out.cov[k] += v
                elif isinstance(v, list): out.cov[k] += v
    except e1.BuildError as e:
        err = 'build error: ' + str(e)
    except Exception as e:
        err = 'internal error: ' + traceback.format_exc()
    if err:
        out.undecided.append(err)
    wall = time.time() - t0
    cov = out.cov
    cov['solver_s'] = round(cov['solver_s'], 2); cov['symex_s'] = round(cov['symex_s'], 2)
    cov['rule'] = ('one case = one solver query: a harness entry point with a fixed skeleton vector (operation kinds / counts) '
                   'and all data inputs symbolic; distinct = distinct skeleton vectors or scenarios; non-trivial = the reachability '
                   'witness placed after the last property assertion was reported reachable (FAILED) by the solver in that query')
    cov['functions_encoded'] = sorted(out.functions)[:400]
    cov['functions_encoded_count'] = len(out.functions)
    cov['undecided'] = out.undecided[:50]
    cov['known_findings_seen'] = [k.get('description', '') for k in out.known]
    cov['checker_cmd'] = 'python3 tools/check.py %s --tier %s' % (prop, a.tier)
    if not cov['samples']:
        cov['samples'] = [{'note': 'no query completed'}]
    cov['states'] = max(cov['states'], 0); cov['transitions'] = max(cov['transitions'], 0)
    if out.undecided:
        cov['exhaustive'] = False
    ev = {'property_id': prop, 'tier': a.tier if a.tier in ('quick', 'thorough') else 'quick', 'seed': seed, 'level': 'model_checking',
          'coverage': cov, 'assumptions': STUBS_E1 + sorted(out.assumptions), 'wall_s': round(wall, 1),
          'violations': len(out.violations)}
    os.makedirs(os.path.join(VERIF, 'evidence'), exist_ok=True)
    json.dump(ev, open(os.path.join(VERIF, 'evidence', prop + '.json'), 'w'), indent=1)
    if not a.keep:
        shutil.rmtree(workdir, ignore_errors=True)
    for k in out.known:
        print('KNOWN-FINDING: property=%s %s' % (prop, k.get('description', '')))
    for (p, rpath, desc, ch) in out.violations:
        print('VIOLATION property=%s replay=%s' % (p, rpath))
        print('  assertion: %s ; skeleton vector %s' % (desc, ch))
    for u in out.undecided[:20]:
        sys.stderr.write('UNDECIDED: %s\n' % u)
    print('%s %s: %d queries, %d obligations (%d discharged), %d non-trivial, %d violation(s), %d undecided, %.1fs' %
          (prop, a.tier, cov['evaluations'], cov['obligations'], cov['discharged'], cov['distinct_nontrivial'], len(out.violations), len(out.undecided), wall))
    if out.violations:
        sys.exit(1)
    if out.undecided:
        sys.exit(2)
    sys.exit(0)


if __name__ == '__main__':
    main()
